import ActsModel.Gen.Emit

/-!
`Store::remove_proc` / `Cache::remove` and the rule of `on_proc` that calls them.
-/
namespace Acts.Ret
open Acts.Gen

structure TaskRow where
  id : String          -- "<pid>:<tid>"
  pid : String
  deriving DecidableEq, Repr

structure St where
  procs : List String               -- ids of the process rows
  tasks : List TaskRow
  messages : List (String × String) -- (message id, pid)
  deriving Repr

/-- `Store::remove_proc`: the task rows found by `pid = p`, then the process row -/
def removeProc (s : St) (p : String) : St :=
  { s with tasks := s.tasks.filter (·.pid != p), procs := s.procs.filter (· != p) }

/-- `on_proc` on a terminal process -/
def onTerminal (keep : Bool) (s : St) (p : String) : St := if removeOnTerminal keep then removeProc s p else s

end Acts.Ret

namespace Acts.Ret
open Acts.Gen

/-- the retention predicate on the rows of the store, as a function of which processes have delivered their terminal event:
no task row without its process row (`NoOrphans` of the history theorem); with the default configuration nothing of a finished
process is left; with `keep_processes` everything of it is still there.  Returns the first violated clause. -/
def retentionCheck (keep : Bool) (finished : List String) (s : St) : Option (String × String) :=
  match s.tasks.find? (fun t => !s.procs.contains t.pid) with
  | some t => some ("task-row-without-process-row", t.pid)
  | none =>
    if removeOnTerminal keep then
      match finished.find? (fun p => s.procs.contains p || s.tasks.any (·.pid == p)) with
      | some p => some ("rows-left-after-terminal-event", p)
      | none => none
    else
      match finished.find? (fun p => !s.procs.contains p || !s.tasks.any (·.pid == p)) with
      | some p => some ("rows-deleted-despite-keep", p)
      | none => none

/-- with `keep_processes` the rows of a process that has delivered its terminal event are in terminal states: the first process among
`settled` (the processes whose ending lies before the operation that was just observed) that still has a task row in another state.
`rows` = (pid of the row, is its state terminal) -/
def keptRowsCheck (settled : List String) (rows : List (String × Bool)) : Option String :=
  (rows.find? fun r => settled.contains r.1 && !r.2).map (·.1)

end Acts.Ret
