import Lean.Data.Json
import ActsModel.Driver.Util
import ActsModel.Model.Tree
open Lean

namespace Acts.Driver
open Acts

partial def toModelJson : Lean.Json → Acts.Json
  | .null => .null
  | .bool b => .bool b
  | .str s => .str s
  | .num n =>
    if n.exponent == 0 then .int n.mantissa
    else
      let p := (10 : Int) ^ n.exponent
      if n.mantissa % p == 0 then .flt (.exact (n.mantissa / p)) else .flt (.other (n.mantissa.natAbs * 31 + n.exponent))
  | .arr a => .arr (a.toList.map toModelJson)
  | .obj kvs => .obj (kvs.toList.map fun (k, v) => (k, toModelJson v))

partial def fromModelJson : Acts.Json → Lean.Json
  | .null => .null
  | .bool b => .bool b
  | .int z => .num (JsonNumber.fromInt z)
  | .flt (.exact z) => .num ⟨z * 10, 1⟩
  | .flt (.other b) => Lean.Json.mkObj [("$float", Lean.Json.num b)]
  | .str s => .str s
  | .arr xs => .arr (xs.map fromModelJson).toArray
  | .obj kvs => Lean.Json.mkObj (kvs.map fun (k, v) => (k, fromModelJson v))

def varsOf (j : Lean.Json) : Acts.Vars :=
  match j with
  | .obj kvs => kvs.toList.map fun (k, v) => (k, toModelJson v)
  | _ => []

def optStr (j : Lean.Json) (k : String) : Option String :=
  match j.getObjVal? k with
  | .ok (.str s) => some s
  | _ => none

mutual
partial def parseStep (j : Lean.Json) : Step :=
  .mk (jstr j "id") (jstr j "name") (jstr j "tag") (optStr j "if") (optStr j "next") (varsOf (jget j "inputs"))
    (varsOf (jget j "outputs")) ((jarr j "branches").toList.map parseBranch) ((jarr j "acts").toList.map parseAct)
    ((jarr j "catches").toList.map parseCatch) ((jarr j "timeout").toList.map parseTimeout)
    ((jarr j "setup").toList.map parseAct)
partial def parseBranch (j : Lean.Json) : Branch :=
  .mk (jstr j "id") (jstr j "name") (jstr j "tag") (optStr j "if") (jbool j "else")
    ((jarr j "needs").toList.map asStr) (varsOf (jget j "inputs")) (varsOf (jget j "outputs"))
    ((jarr j "steps").toList.map parseStep)
partial def parseAct (j : Lean.Json) : Act :=
  .mk (jstr j "id") (jstr j "name") (jstr j "tag") (jstr j "key") (jstr j "uses") (optStr j "if") (optStr j "on")
    (toModelJson (jget j "params")) (varsOf (jget j "options")) (varsOf (jget j "inputs")) (varsOf (jget j "outputs"))
    ((jarr j "setup").toList.map parseAct) ((jarr j "catches").toList.map parseCatch)
    ((jarr j "timeout").toList.map parseTimeout)
partial def parseCatch (j : Lean.Json) : Catch := .mk (optStr j "on") ((jarr j "steps").toList.map parseStep)
partial def parseTimeout (j : Lean.Json) : Timeout := .mk (jstr j "on") ((jarr j "steps").toList.map parseStep)
end

def parseWorkflow (j : Lean.Json) : Workflow :=
  { id := jstr j "id", name := jstr j "name", tag := jstr j "tag", steps := (jarr j "steps").toList.map parseStep,
    env := varsOf (jget j "env"), inputs := varsOf (jget j "inputs"), outputs := varsOf (jget j "outputs"),
    setup := (jarr j "setup").toList.map parseAct, on := (jarr j "on").toList.map parseAct }

def optJ : Option String → Lean.Json
  | some s => .str s
  | none => .null

def kindStr : Acts.Gen.NodeKind → String
  | .workflow => "workflow" | .branch => "branch" | .step => "step" | .act => "act"

def outKindStr : Acts.Tree.OutKind → String
  | .normal => "normal" | .catch => "catch" | .timeout => "timeout"

def treeCase (req : Lean.Json) : Lean.Json :=
  let w := parseWorkflow (jget req "model")
  match Acts.Tree.build w with
  | .error (.dup id) => Lean.Json.mkObj [("ok", false), ("err", "dup-id"), ("id", id)]
  | .error .eventIdEmpty => Lean.Json.mkObj [("ok", false), ("err", "event-id-empty")]
  | .ok nodes =>
    let js := nodes.map fun n => Lean.Json.mkObj [
      ("id", n.id), ("kind", kindStr n.kind), ("level", n.level), ("parent_link", optJ n.parentLink),
      ("parent", optJ (Acts.Tree.parentOf nodes (nodes.length + 1) n.id)), ("prev", optJ n.prev), ("next", optJ n.next),
      ("children", Lean.Json.arr (n.children.map fun (t, on, c) => Lean.Json.arr #[Lean.Json.str (outKindStr t), optJ on, Lean.Json.str c]).toArray)]
    Lean.Json.mkObj [("ok", true), ("nodes", Lean.Json.arr js.toArray), ("order", Lean.Json.arr (nodes.map fun n => Lean.Json.str n.id).toArray)]

end Acts.Driver
