import ActsModel.Model.Generate
import ActsModel.Gen.Generate

/-!
# C16 — Generated acts and lifecycle hooks run exactly as many times as specified
-/
namespace Acts.C16
open Acts.Gen Acts.Generate

-- ------------------------------------------------------------------ expansion (K3: every list, every act list)

theorem expandFrom_length (acts : List String) (k : Nat) (items : List String) : (expandFrom acts k items).length = items.length := by
  induction items generalizing k with
  | nil => rfl
  | cons v vs ih => simp [expandFrom, ih]

/-- one group per element (the empty list builds nothing) -/
theorem one_group_per_element (items acts : List String) : (expand items acts).length = items.length :=
  expandFrom_length acts 0 items

theorem expandFrom_get (acts : List String) (k0 : Nat) (items : List String) (k : Nat) (h : k < items.length) :
    (expandFrom acts k0 items)[k]'(by rw [expandFrom_length]; exact h) = expandGroup acts (k0 + k) items[k] := by
  induction items generalizing k0 k with
  | nil => simp at h
  | cons v vs ih =>
    cases k with
    | zero => simp [expandFrom]
    | succ k =>
      simp only [expandFrom, List.getElem_cons_succ]
      rw [ih (k0 + 1) k (by simpa using h)]
      congr 1; omega

/-- group `k` is built from element `k`, and every act of it carries index `k` and that element, in the order of the act list -/
theorem group_sees_own_index_and_value (items acts : List String) (k : Nat) (h : k < items.length) :
    (expand items acts)[k]'(by rw [one_group_per_element]; exact h) = acts.map (fun a => ⟨a, k, items[k]⟩) := by
  unfold expand
  rw [expandFrom_get acts 0 items k h]
  simp [expandGroup]

/-- each group has exactly the generator's acts -/
theorem group_size (items acts : List String) (g : List Opened) (h : g ∈ expand items acts) : g.length = acts.length := by
  unfold expand at h
  generalize 0 = k0 at h
  induction items generalizing k0 with
  | nil => simp [expandFrom] at h
  | cons v vs ih =>
    simp only [expandFrom, List.mem_cons] at h
    rcases h with rfl | h
    · simp [expandGroup]
    · exact ih _ h

/-- K1: the source builds exactly this: one block per element with `$index`/`$value`, and the block hands a copy of them to every act -/
theorem expansion_tables : parallelOneBlockPerElement = true ∧ sequenceOneBlockPerElement = true ∧ blockCopiesOptionsToEveryAct = true ∧
    parallelLinksAsSequence = false ∧ sequenceLinksAsSequence = true := by decide

-- ------------------------------------------------------------------ scheduling of the groups

/-- a parallel generator opens every group at once -/
theorem parallel_opens_all (n k : Nat) (h : k < n) : (Gen.mk false n []).opened k = true := by
  simp [Gen.opened, h]

/-- a sequence opens group `k` exactly when every earlier group has finished -/
theorem sequence_opens_in_order (g : Gen) (hs : g.seq = true) (k : Nat) :
    g.opened k = true ↔ k < g.n ∧ ∀ j, j < k → g.finished j = true := by
  simp [Gen.opened, hs]

/-- at the start a sequence has opened only its first group -/
theorem sequence_starts_with_first (n k : Nat) : (Gen.mk true n []).opened k = true ↔ k = 0 ∧ 0 < n := by
  rw [sequence_opens_in_order _ rfl]
  constructor
  · rintro ⟨hk, hall⟩
    cases k with
    | zero => exact ⟨rfl, hk⟩
    | succ k => have := hall 0 (by omega); simp [Gen.finished] at this
  · rintro ⟨rfl, hn⟩; exact ⟨hn, by intro j hj; omega⟩

/-- the finished groups of a sequence are always an initial segment of the list (K3: every order of finish events, legal or not) -/
def PrefixClosed (g : Gen) : Prop := ∀ k, g.finished k = true → ∀ j, j < k → g.finished j = true

theorem finish_prefix (g : Gen) (hs : g.seq = true) (k : Nat) (h : PrefixClosed g) : PrefixClosed (g.finish k) := by
  unfold Gen.finish
  split
  · rename_i hok
    simp only [Bool.and_eq_true, Bool.not_eq_true'] at hok
    have hopen := (sequence_opens_in_order g hs k).1 hok.1
    intro m hm j hj
    simp only [Gen.finished, List.contains_cons, Bool.or_eq_true, beq_iff_eq] at hm ⊢
    rcases hm with rfl | hm
    · right; exact hopen.2 j hj
    · right; exact h m hm j hj
  · exact h

theorem finish_seq (g : Gen) (k : Nat) : (g.finish k).seq = g.seq ∧ (g.finish k).n = g.n := by
  unfold Gen.finish; split <;> exact ⟨rfl, rfl⟩

theorem run_prefix (g : Gen) (hs : g.seq = true) (ks : List Nat) (h : PrefixClosed g) : PrefixClosed (g.run ks) := by
  induction ks generalizing g with
  | nil => exact h
  | cons k ks ih =>
    exact ih (g.finish k) (by rw [(finish_seq g k).1]; exact hs) (finish_prefix g hs k h)

/-- hence a sequence never has two groups in progress: the groups run one after another -/
theorem sequence_one_at_a_time (g : Gen) (hs : g.seq = true) (a b : Nat)
    (ha : g.opened a = true ∧ g.finished a = false) (hb : g.opened b = true ∧ g.finished b = false) : a = b := by
  have oa := (sequence_opens_in_order g hs a).1 ha.1
  have ob := (sequence_opens_in_order g hs b).1 hb.1
  rcases Nat.lt_trichotomy a b with h | h | h
  · have := ob.2 a h; rw [ha.2] at this; cases this
  · exact h
  · have := oa.2 b h; rw [hb.2] at this; cases this

/-- the generator completes only after every group has finished, and an empty list completes at once -/
theorem complete_iff (g : Gen) : g.complete = true ↔ ∀ k, k < g.n → g.finished k = true := by
  simp [Gen.complete]

theorem empty_list_completes (seq : Bool) : (Gen.mk seq 0 []).complete = true := by simp [Gen.complete]

/-- finishing groups never un-finishes one: completion is stable -/
theorem finish_mono (g : Gen) (k j : Nat) (h : g.finished j = true) : (g.finish k).finished j = true := by
  unfold Gen.finish
  split
  · simp only [Gen.finished, List.contains_cons, Bool.or_eq_true, beq_iff_eq]; right; exact h
  · exact h

/-- progress: while the generator is incomplete some group is in progress (so answering open acts always completes it) -/
theorem incomplete_has_active (g : Gen) (h : g.complete = false) : g.active ≠ [] := by
  have hex : ∃ k, k < g.n ∧ g.finished k = false := by
    have := h
    simpa [Gen.complete] using this
  -- the least unfinished group is open
  obtain ⟨k, hk, hfk⟩ := hex
  induction k using Nat.strongRecOn with
  | _ k ih =>
    by_cases hall : ∀ j, j < k → g.finished j = true
    · intro hnil
      have hmem : k ∈ g.active := by
        simp only [Gen.active, List.mem_filter, List.mem_range, Bool.and_eq_true, Bool.not_eq_true']
        refine ⟨hk, ?_, hfk⟩
        cases hs : g.seq with
        | false => simp [Gen.opened, hs, hk]
        | true => exact (sequence_opens_in_order g hs k).2 ⟨hk, hall⟩
      rw [hnil] at hmem; cases hmem
    · have : ∃ j, j < k ∧ g.finished j = false := by
        obtain ⟨j, hj⟩ := Classical.not_forall.1 hall
        obtain ⟨hjk, hfj⟩ := Classical.not_imp.1 hj
        exact ⟨j, hjk, by simpa using hfj⟩
      obtain ⟨j, hj, hfj⟩ := this
      exact ih j hj (by omega) hfj

-- ------------------------------------------------------------------ hooks

/-- a hook registered once under a class fires exactly once for an event of that class … -/
theorem fires_once (hooks : List (LifeCycle × String)) (l : LifeCycle) (key : String)
    (huniq : (hooks.filter (fun h => h.2 == key)).length = 1) (hreg : (l, key) ∈ hooks) :
    (fires hooks (some l)).count key = 1 := by
  induction hooks with
  | nil => cases hreg
  | cons h hs ih =>
    obtain ⟨hl, hk⟩ := h
    by_cases hkey : hk = key
    · subst hkey
      have hnone' : ∀ a b, (a, b) ∈ hs → ¬b = hk := by simpa using huniq
      have hnone : ∀ x ∈ hs, x.2 ≠ hk := fun x hx => hnone' x.1 x.2 hx
      have hl' : hl = l := by
        simp only [List.mem_cons, Prod.mk.injEq] at hreg
        rcases hreg with ⟨rfl, _⟩ | hmem
        · rfl
        · exact absurd rfl (hnone _ hmem)
      subst hl'
      have : ((hs.filter (fun h => h.1 == hl)).map (·.2)).count hk = 0 := by
        rw [List.count_eq_zero]; intro hc
        obtain ⟨x, hx, rfl⟩ := List.mem_map.1 hc
        exact hnone x (List.mem_filter.1 hx).1 rfl
      simp [fires, this]
    · have huniq' : (hs.filter (fun h => h.2 == key)).length = 1 := by
        simpa [List.filter_cons, hkey] using huniq
      have hreg' : (l, key) ∈ hs := by
        simp only [List.mem_cons, Prod.mk.injEq] at hreg
        rcases hreg with ⟨_, rfl⟩ | hmem
        · exact absurd rfl hkey
        · exact hmem
      have := ih huniq' hreg'
      simp only [fires] at this ⊢
      by_cases hll : hl = l
      · subst hll; simp [hkey, this]
      · have : (hl == l) = false := by simpa using hll
        simp [this]; assumption

/-- … and never for an event of another class or for a state without an event -/
theorem fires_only_own_class (hooks : List (LifeCycle × String)) (l l' : LifeCycle) (key : String)
    (hother : ∀ h ∈ hooks, h.2 = key → h.1 = l) (hne : l' ≠ l) : (fires hooks (some l')).count key = 0 := by
  rw [List.count_eq_zero]; intro hc
  simp only [fires] at hc
  obtain ⟨x, hx, hk⟩ := List.mem_map.1 hc
  have hm := List.mem_filter.1 hx
  have : x.1 = l := hother x hm.1 hk
  have : l' = l := by rw [← this]; exact (by simpa using hm.2 : x.1 = l').symm
  exact hne this

theorem fires_none (hooks : List (LifeCycle × String)) : fires hooks none = [] := rfl

/-- over the whole life of a task: the number of firings of a `created` / `completed` hook is the number of events of that class
(K3: every event list; K1: the class table translated from `run_hooks`) -/
theorem own_hook_count (hooks : List (LifeCycle × String)) (l : LifeCycle) (key : String)
    (huniq : (hooks.filter (fun h => h.2 == key)).length = 1) (hreg : (l, key) ∈ hooks) (events : List TaskState) :
    (firesOwn hooks events).count key = (events.filter (fun s => ownLifeCycle s == some l)).length := by
  have hother : ∀ h ∈ hooks, h.2 = key → h.1 = l := by
    intro h hh hk
    apply Classical.byContradiction
    intro hne
    -- two different registrations under the same key contradict uniqueness
    have h1 : h ∈ hooks.filter (fun h => h.2 == key) := List.mem_filter.2 ⟨hh, by simpa using hk⟩
    have h2 : (l, key) ∈ hooks.filter (fun h => h.2 == key) := List.mem_filter.2 ⟨hreg, by simp⟩
    obtain ⟨x, hx⟩ := List.length_eq_one_iff.1 huniq
    rw [hx] at h1 h2
    simp only [List.mem_singleton] at h1 h2
    rw [h1, ← h2] at hne; exact hne rfl
  induction events with
  | nil => rfl
  | cons s ss ih =>
    simp only [firesOwn, List.flatMap_cons, List.count_append, List.filter_cons] at ih ⊢
    cases hs : ownLifeCycle s with
    | none => simp [fires_none]; exact ih
    | some l' =>
      by_cases hl : l' = l
      · subst hl; rw [fires_once hooks l' key huniq hreg]; simp; omega
      · rw [fires_only_own_class hooks l l' key hother hl]
        have : (some l' == some l) = false := by simpa using hl
        simp [this]; exact ih

/-- K1: created-class events are exactly ready / pending / interrupt; every non-error terminal state is a completed-class event;
running and none raise nothing -/
theorem lifecycle_classes :
    (∀ s : TaskState, ownLifeCycle s = some .created ↔ s = .ready ∨ s = .pending ∨ s = .interrupt) ∧
    (∀ s : TaskState, ownLifeCycle s = some .completed ↔ (s.isCompleted = true ∧ s ≠ .error)) ∧
    ownLifeCycle .running = none ∧ ownLifeCycle .none = none := by
  refine ⟨?_, ?_, rfl, rfl⟩ <;> intro s <;> cases s <;> simp [ownLifeCycle, TaskState.isCompleted]

/-- K1: a setup act with `on` is registered under the lifecycle of the same name and is not built as a node -/
theorem hook_registration :
    hookRegistration = [("Created", "Created"), ("Completed", "Completed"), ("BeforeUpdate", "BeforeUpdate"), ("Updated", "Updated"), ("Step", "Step")] ∧
    hookActsAreNotBuilt = true := by decide

-- ------------------------------------------------------------------ push

/-- a push adds exactly one act and keeps the others -/
theorem push_adds_one {α : Type} (children : List α) (a : α) : (push children a).length = children.length + 1 ∧ children <+: push children a := by
  simp [push]

/-- K1: the Push arm dispatches one act, after refusing a request without `uses` -/
theorem push_tables : pushDispatchCalls = 1 ∧ pushChecksUsesFirst = true := by decide

/-- non-vacuity -/
example : expand ["u", "v"] ["k1", "k2"] = [[⟨"k1", 0, "u"⟩, ⟨"k2", 0, "u"⟩], [⟨"k1", 1, "v"⟩, ⟨"k2", 1, "v"⟩]] := by decide
example : ((Gen.mk true 3 []).run [1, 0, 2, 1]).fin = [1, 0] := by decide
example : (firesOwn [(.created, "h1"), (.completed, "h2")] [.ready, .running, .completed]) = ["h1", "h2"] := by decide

-- ------------------------------------------------------------------ the review rule of a generating act (open finding)

/-- **partial** (`generator completes only after every generated act is terminal`, for histories without a skip or an error among
the groups): the rule closes the act exactly when every child has succeeded -/
theorem review_completes_iff_all_done_partial (cs : List Child) (h : ∀ c ∈ cs, c = .opn ∨ c = .success) :
    (reviewRule cs = .completed ↔ ∀ c ∈ cs, c = .success) ∧ (reviewRule cs = .completed ∨ reviewRule cs = .stay) := by
  induction cs with
  | nil => simp [reviewRule]
  | cons c cs ih =>
    obtain ⟨ih1, ih2⟩ := ih (fun x hx => h x (List.mem_cons_of_mem _ hx))
    rcases h c (by simp) with rfl | rfl
    · rcases ih2 with h2 | h2 <;> simp [reviewRule, h2]
    · simp only [reviewRule, List.mem_cons, forall_eq_or_imp, true_and]
      exact ⟨ih1, ih2⟩

/-- **the open finding on the rule** (`C16|generator-ends-before-groups|skip-one-group`): the full statement is false of the rule —
one skipped group closes the generating act while another group is still open -/
theorem review_skip_closes_early : ∃ cs : List Child, Child.opn ∈ cs ∧ reviewRule cs = .skipped :=
  ⟨[.skipped, .opn, .opn], by simp, by decide⟩

example : reviewRule [.success, .opn, .success] = .stay ∧ reviewRule [.success, .success] = .completed ∧ reviewRule [.opn, .skipped] = .skipped := by decide

end Acts.C16
