import Lean.Data.Json
import ActsModel.Driver.Util
import ActsModel.Model.Timeout
open Lean

namespace Acts.Driver
open Acts.Tmo

def tmoRun (req : Lean.Json) : Lean.Json :=
  let rules : List Rule := (jarr req "rules").toList.map fun r => let a := asArr r; ⟨asStr a[0]!, asInt a[1]!⟩
  let t0 : Timed := ⟨jint req "start", true, []⟩
  let evs : List Ev := (jarr req "events").toList.map fun e =>
    let a := asArr e
    if asStr a[0]! == "tick" then .tick (asInt a[1]!) else .close
  let stepJ (st : Timed × List Lean.Json) (e : Ev) : Timed × List Lean.Json :=
    let (t', fired) := step rules st.1 e
    (t', st.2 ++ [Lean.Json.arr (fired.map Lean.Json.str).toArray])
  let (_, out) := evs.foldl stepJ (t0, [])
  Lean.Json.mkObj [("fired", Lean.Json.arr out.toArray)]

/-- property monitor on the implementation's observations: events with the keys the engine fired -/
def tmoMonitor (req : Lean.Json) : Lean.Json :=
  let rules : List Rule := (jarr req "rules").toList.map fun r => let a := asArr r; ⟨asStr a[0]!, asInt a[1]!⟩
  let evs : List ObsEv := (jarr req "events").toList.map fun e =>
    let a := asArr e
    let fs := (asArr a[2]!).toList.map asStr
    if asStr a[0]! == "tick" then (.tick (asInt a[1]!), fs) else (.close, fs)
  match monitor rules (jint req "start") ⟨true, []⟩ 0 evs with
  | none => Lean.Json.mkObj [("ok", Lean.Json.bool true)]
  | some (i, why) => Lean.Json.mkObj [("ok", Lean.Json.bool false), ("at", Lean.Json.num i), ("why", Lean.Json.str why)]

def tmoParse (req : Lean.Json) : Lean.Json :=
  match parseLimit (jstr req "s").toList with
  | some l => Lean.Json.mkObj [("ok", Lean.Json.bool true), ("secs", Lean.Json.num (JsonNumber.fromInt (asSecs l)))]
  | none => Lean.Json.mkObj [("ok", Lean.Json.bool false)]

end Acts.Driver
