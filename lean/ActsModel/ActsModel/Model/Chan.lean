import ActsModel.Model.Glob
import ActsModel.Gen.Chan

/-!
Channel selection (`export/channel.rs::is_match`) and the keyed handler maps of `event/emitter.rs`.
-/
namespace Acts.Chan
open Acts.Gen Acts.Glob

/-- the five compiled patterns of a channel, by option name -/
abbrev Pats := List (String × List Tok)
/-- the message fields the filter looks at, by field name -/
abbrev MsgFields := List (String × List Char)

def patOf (p : Pats) (opt : String) : List Tok := (p.lookup opt).getD []
def fieldOf (m : MsgFields) (f : String) : List Char := (m.lookup f).getD []

/-- `is_match` over the shape read from the source -/
def isMatch (p : Pats) (m : MsgFields) : Bool :=
  chanMatchShape.all fun disj => disj.any fun (opt, fld) => matchToks (patOf p opt) (fieldOf m fld)

-- ------------------------------------------------------------------ keyed handler maps

/-- one map of the emitter: channel id ↦ handler (at most one entry per id) -/
abbrev HMap (H : Type) := List (String × H)

def HMap.remove {H : Type} (m : HMap H) (k : String) : HMap H := m.filter (·.1 != k)

/-- `entry(k).and_modify(|v| *v = h).or_insert(h)`: afterwards `k ↦ h`, every other key as before
(a `HashMap` has no order, so the position of the entry is immaterial) -/
def HMap.register {H : Type} (m : HMap H) (k : String) (h : H) : HMap H := m.remove k ++ [(k, h)]

structure Emitter (H : Type) where
  messages : HMap H
  starts : HMap H
  completes : HMap H
  errors : HMap H

/-- `Emitter::remove` -/
def Emitter.remove {H : Type} (e : Emitter H) (k : String) : Emitter H :=
  { messages := if removeMaps.contains "messages" then e.messages.remove k else e.messages,
    starts := if removeMaps.contains "starts" then e.starts.remove k else e.starts,
    completes := if removeMaps.contains "completes" then e.completes.remove k else e.completes,
    errors := if removeMaps.contains "errors" then e.errors.remove k else e.errors }

end Acts.Chan
