#!/bin/sh
# builds the framework from files on disk only (offline)
set -e
cd "$(dirname "$0")/.."
export CARGO_NET_OFFLINE=true
mkdir -p .cache evidence replays
cp -f /repo/Cargo.lock harness/Cargo.lock
(cd harness && cargo build --offline)
python3 tools/translate.py >/dev/null
(cd lean/ActsModel && lake build ActsModel driver)
# Props modules are built here so that the per-check builds are incremental
(cd lean/ActsModel && for f in ActsModel/Props/*.lean; do m=$(echo "$f" | sed 's/\.lean$//; s#/#.#g'); lake build "$m" || true; done)
echo setup done
