import ActsModel.Model.Op

/-!
System level of the operational model: deploy / start / run (release one parked signal) / act.
-/
namespace Acts.Op
open Acts Acts.Gen Acts.Tree

/-- task reference of a scenario, resolved on the live process exactly as the harness does -/
inductive TRef where
  | idx (i : Int)                    -- creation index (negative: from the end)
  | nid (nid : String) (k : Int)     -- k-th task of a node
  | cls (cls : String) (k : Nat)     -- k-th (modulo) task of a class: open / term / acts / any
  | raw (s : String)                 -- a literal tid (unknown id)

inductive SOp where
  | deploy (i : Nat)
  | start (mid : String) (vars : Vars)
  | run (i : Nat)
  | runall (policy : String) (seed : Nat)
  | act (ev : String) (pid : String) (t : TRef) (opts : Vars)
  | other (name : String)

def failStr : Fail → String
  | .alreadyCompleted => "already-completed" | .noTask => "no-task" | .notAnAct => "not-an-act" | .notAStep => "not-a-step"
  | .outputsUnsatisfied => "outputs-unsatisfied" | .noProcess => "no-process" | .noEcode => "no-ecode" | .noParent => "no-parent"
  | .noUses => "no-uses" | .noModel => "no-model" | .dupId => "dup-id" | .dupPid => "dup-pid" | .eventIdEmpty => "event-id-empty"
  | .script _ => "script" | .package _ => "package" | .unsupported w => s!"unsupported:{w}" | .outOfFuel => "out-of-fuel"

def failToErr : Fail → Err
  | .script m => ⟨"", m⟩
  | f => ⟨"", failStr f⟩

def resolveIdx {α : Type} (xs : List α) (i : Int) : Option α :=
  let j : Int := if i < 0 then xs.length + i else i
  if j < 0 then none else xs[j.toNat]?

def resolveRef (p : Proc) : TRef → Option Nat
  | .idx i => (resolveIdx p.tasks i).map (·.tid)
  | .nid nid k => (resolveIdx (p.tasks.filter (·.nid == nid)) k).map (·.tid)
  | .cls cls k =>
    let sel := p.tasks.filter fun t =>
      let kind := (findNode p.nodes t.nid).map (·.kind)
      match cls with
      | "open" => t.state == .interrupt
      | "term" => kind == some NodeKind.act && t.state.isCompleted
      | "acts" => kind == some NodeKind.act
      | _ => true
    if sel.isEmpty then none else (sel[k % sel.length]?).map (·.tid)
  | .raw _ => none

/-- run `m` on process `pid`; the state and the observations survive an error -/
def onProc (s : Sys) (p : Proc) (cur : Nat) (m : M Unit) : Sys × List Obs × Option Fail :=
  let w0 : W := { p := p, queue := s.queue, cur := cur, exprs := s.exprs, keep := s.keep }
  let (r, w) := (m.run).run w0
  let procs := if w.removed then s.procs.filter (·.pid != p.pid) else s.procs.map fun x => if x.pid == p.pid then w.p else x
  let gone := if w.removed then p.pid :: s.gone else s.gone
  ({ s with procs := procs, gone := gone, queue := w.queue }, w.obs.reverse, match r with | .ok _ => none | .error f => some f)

/-- `Scheduler::next` for one signal: exec, and on failure mark the task (unless it was closed meanwhile) and bubble -/
def execSignal (tid : Nat) : M Unit := do
  let r ← tryCatch (exec tid *> pure none) (fun f => pure (some f))
  match r with
  | none => pure ()
  | some f =>
    -- what the model does not cover is not an error of the workflow: it ends the comparison of this run
    match f with
    | .unsupported _ => throw f
    | .outOfFuel => throw f
    | _ => pure ()
    let t ← getTask tid
    if t.state.isCompleted then return
    setErr tid (failToErr f)
    -- `ctx.emit_error()` looks at whatever task the context points to now
    tryCatch emitError (fun _ => pure ())

def releaseAt (s : Sys) (i : Nat) : Sys × List Obs :=
  match s.queue[i]? with
  | none => (s, [])
  | some (pid, tid) =>
    let s := { s with queue := s.queue.eraseIdx i }
    match s.procs.find? (·.pid == pid) with
    | none => (s, [])
    | some p =>
      let (s', obs, f) := onProc s p tid (execSignal tid)
      match f with
      | some (.unsupported w) => (s', obs ++ [.res false s!"unsupported:{w}"])
      | some .outOfFuel => (s', obs ++ [.res false "unsupported:out-of-fuel"])
      | _ => (s', obs)

def splitmix (x : Nat) : Nat :=
  let m := 18446744073709551616
  let z := (x + 0x9E3779B97F4A7C15) % m
  let z := ((z ^^^ (z >>> 30)) * 0xBF58476D1CE4E5B9) % m
  let z := ((z ^^^ (z >>> 27)) * 0x94D049BB133111EB) % m
  z ^^^ (z >>> 31)

def runAll (fuel : Nat) (s : Sys) (policy : String) (seed : Nat) (acc : List Obs) : Sys × List Obs :=
  match fuel with
  | 0 => (s, acc)
  | fuel + 1 =>
    let len := s.queue.length
    if len == 0 then (s, acc) else
    let seed' := if policy == "rand" then splitmix seed else seed
    let i := if policy == "lifo" then len - 1 else if policy == "rand" then seed' % len else 0
    let (s', obs) := releaseAt s i
    runAll fuel s' policy seed' (acc ++ obs)

def actionOfStr (s : String) : Option EventAction :=
  if s == "complete" then some .next else EventAction.all.find? fun a => a.toStr == s

def stepSys (s : Sys) : SOp → Sys × List Obs
  | .deploy i =>
    match s.models[i]? with
    | none => (s, [.res false "bad-index"])
    | some _ => (s, [.res true ""])      -- validity is decided by the caller through `Tree.build` (see `deployOk`)
  | .start mid vars =>
    match s.models.find? (·.id == mid) with
    | none => (s, [.res false "no-model"])
    | some w =>
      match vars.get "pid" with
      | some (.str pid) =>
        if s.procs.any (·.pid == pid) then (s, [.res false "dup-pid"]) else
        let w' := { w with inputs := Vars.setAll w.inputs vars }
        match build w' with
        | .error (.dup _) => (s, [.res false "dup-id"])
        | .error .eventIdEmpty => (s, [.res false "event-id-empty"])
        | .ok nodes =>
          let root : Task := { tid := 0, nid := w'.id }
          let p : Proc := { pid := pid, model := w', nodes := nodes, tasks := [root], state := .running }
          ({ s with procs := s.procs ++ [p], queue := s.queue ++ [(pid, 0)], gone := s.gone.filter (· != pid) },
            [.ptr pid .none .running, .new pid 0 w'.id "workflow" none, .res true ""])
      | _ => (s, [.res false "unsupported:generated-pid"])
  | .run i =>
    if s.queue.isEmpty then (s, []) else releaseAt s (i % s.queue.length)
  | .runall policy seed => runAll 5001 s policy seed []
  | .act ev pid tref opts =>
    match s.procs.find? (·.pid == pid) with
    | none => (s, [.res false "no-process"])
    | some p =>
      match actionOfStr ev with
      | none => (s, [.res false "bad-event"])
      | some a =>
        let tid? := resolveRef p tref
        let (s', obs, r) := onProc s p (tid?.getD 0) (doAction tid? a opts)
        match r with
        | none => (s', obs ++ [.res true ""])
        | some f => (s', obs ++ [.res false (failStr f)])
  | .other _ => (s, [])

end Acts.Op
