"""C05 — client actions: admission rules and at-most-once effect"""
import copy
import json

from .. import gen
from ..core import obs_of
from ..rng import Rng
from . import c02

ASSUMPTIONS = [
    "the concurrent clause is exercised by a deterministic rendezvous of n client threads right before their first state write (verif hook), "
    "not by free-running stress alone",
    "arm-specific argument errors (back without 'to', error without 'ecode') are rejections too and are held to the no-effect clause",
]

SEVEN = ["next", "submit", "skip", "remove", "abort", "error", "back"]
TERMINAL = {"completed", "submitted", "backed", "cancelled", "error", "aborted", "skipped", "removed"}

OUT_WF = {"id": "mo", "steps": [{"id": "s1", "acts": [{"id": "a1", "uses": gen.IRQ, "key": "k1", "outputs": {"o1": None, "o2": None}},
                                                       {"id": "a2", "uses": gen.IRQ, "key": "k2"}]}]}


def scenarios(seed, n_random):
    scs = []
    for sc in c02.matrix():
        sc = copy.deepcopy(sc)
        sc["config"] = {"keep": True, "dump_each": True}
        scs.append(sc)
    # keep_processes off: a finished process is gone, every action is 'no-process'
    for ev in gen.ACTIONS:
        scs.append({"id": f"gone-{ev}", "config": {"keep": False, "dump_each": True}, "models": [c02.MATRIX_WF],
                    "ops": [["deploy", 0], ["start", "mx", {"pid": "p1"}], ["runall"], ["act", "abort", "p1", {"nid": "a1", "k": 0}, {}], ["runall"],
                            ["act", ev, "p1", {"nid": "a3", "k": 0}, c02.opts_for(ev)], ["runall"]]})
    # declared outputs
    for ev in gen.ACTIONS:
        for opts in ({}, {"o1": 1}, {"o1": 1, "o2": 2}, {"o1": 1, "o2": 2, "extra": 3}):
            o = dict(c02.opts_for(ev))
            o.update(opts)
            scs.append({"id": f"out-{ev}-{len(opts)}", "config": {"keep": True, "dump_each": True}, "models": [OUT_WF],
                        "ops": [["deploy", 0], ["start", "mo", {"pid": "p1"}], ["runall"], ["act", ev, "p1", {"nid": "a1", "k": 0}, o], ["runall"],
                                ["act", ev, "p1", {"nid": "a1", "k": 0}, o], ["runall"]]})
    for i in range(n_random):
        rng = Rng(seed * 1000003 + i + 77)
        g = gen.WfGen(rng.fork("wf"), depth=2, max_steps=3, max_branches=3, max_acts=2, p_if=10)
        w = g.workflow("m1")
        ops = [["deploy", 0], ["start", "m1", {"pid": "p1", "x": rng.below(4), "y": rng.below(4)}]]
        ops += gen.random_history(rng.fork("h"), n=rng.range(6, 14), stepped_p=10)
        scs.append({"id": f"r-{seed}-{i}", "config": {"keep": rng.chance(2, 3), "dump_each": True}, "models": [w], "ops": ops})
    # the process is ended (abort / error from another branch) while a freshly created task still waits in the scheduler queue; afterwards
    # everything that looks open is answered: nothing is accepted in the finished process (the C03 queued family, kept processes)
    from . import c03
    for i in range(max(20, n_random // 15)):
        sc = c03.queued_scenario(Rng(seed * 50021 + i), i)
        sc["id"] = f"q-{seed}-{i}"
        sc["config"] = {"keep": True, "dump_each": True}
        sc["ops"] = sc["ops"] + [["act", "next", "p1", {"open": 0}, {}], ["runall"], ["act", "submit", "p1", {"open": 0}, {}], ["runall"]]
        scs.append(sc)
    return scs


PAIRS = [("skip", "skip"), ("skip", "next"), ("abort", "next"), ("error", "next"), ("error", "skip"), ("submit", "skip"), ("abort", "skip"), ("next", "next")]


def pair_scenarios(seed, rounds):
    """two clients act at the same time on two different open acts of one process (sibling acts of a parallel block, acts of two
    parallel branches): what they are told, and what is left, is what one of the two serial orders gives"""
    scs = []
    for k, (ea, eb) in enumerate(PAIRS):
        for shape in ("block", "branches"):
            if shape == "block":
                s1 = {"id": "s1", "acts": [{"id": "blk", "uses": "acts.core.block", "params": {"mode": "parallel", "acts": [
                    {"id": "a", "uses": gen.IRQ, "key": "ka"}, {"id": "b", "uses": gen.IRQ, "key": "kb"}]}}]}
            else:
                s1 = {"id": "s1", "branches": [{"id": "b1", "if": "(x == 0)", "steps": [{"id": "s11", "acts": [{"id": "a", "uses": gen.IRQ, "key": "ka"}]}]},
                                              {"id": "b2", "if": "(x == 0)", "steps": [{"id": "s12", "acts": [{"id": "b", "uses": gen.IRQ, "key": "kb"}]}]}]}
            w = {"id": "m1", "steps": [s1, {"id": "s2", "acts": [{"id": "z", "uses": gen.IRQ, "key": "kz"}]}]}
            oa = {"ecode": "e1", "message": "x"} if ea == "error" else {}
            ob = {"ecode": "e1", "message": "x"} if eb == "error" else {}
            base = {"config": {"keep": True, "dump_each": True, "mode": "free", "workers": 2}, "models": [w],
                    "exprs": {"(x == 0)": ["bin", "==", ["var", "x"], ["lit", 0]]}, "pair": [ea, eb], "shape": shape}
            pids = [f"p{r}" for r in range(rounds)]
            ops = [["deploy", 0]]
            for pid in pids:
                ops += [["start", "m1", {"pid": pid, "x": 0, "y": 0}]]
            ops.append(["sleep", 30])
            for pid in pids:
                ops.append(["conc2", pid, [[ea, {"nid": "a", "k": -1}, oa], [eb, {"nid": "b", "k": -1}, ob]]])
            scs.append(dict(base, id=f"pair-{seed}-{k}-{shape}-conc", ops=ops, kind="conc", pids=pids))
            for order in ("ab", "ba"):
                first, second = ((ea, "a", oa), (eb, "b", ob)) if order == "ab" else ((eb, "b", ob), (ea, "a", oa))
                ops = [["deploy", 0], ["start", "m1", {"pid": "p0", "x": 0, "y": 0}], ["sleep", 30],
                       ["act", first[0], "p0", {"nid": first[1], "k": -1}, first[2]], ["sleep", 30],
                       ["act", second[0], "p0", {"nid": second[1], "k": -1}, second[2]], ["sleep", 30]]
                scs.append(dict(base, id=f"pair-{seed}-{k}-{shape}-{order}", ops=ops, kind=order, pids=["p0"]))
    return scs


def judge_pairs(ctx, scs, stats):
    results = ctx.harness("run", scs, tag="pair")
    groups = {}
    for sc, res in zip(scs, results):
        groups.setdefault(sc["id"].rsplit("-", 1)[0], {})[sc["kind"]] = (sc, res)

    def final_of(res, pid):
        last = None
        for _, o in obs_of(res, {"dump"}):
            if o.get("pid") == pid and not o.get("absent"):
                last = o
        return (last["state"], tuple(sorted((t["nid"], t["state"]) for t in last["tasks"]))) if last else None

    for key, g in groups.items():
        if not all(k in g for k in ("conc", "ab", "ba")):
            continue
        serial = set()
        for order in ("ab", "ba"):
            sc, res = g[order]
            rs = [bool(o.get("ok")) for _, o in obs_of(res, {"res"}) if "ok" in o][-2:]
            if order == "ba":
                rs = rs[::-1]
            serial.add((tuple(rs), final_of(res, "p0")))
        sc, res = g["conc"]
        ctx.cov["evaluations"] += 1
        if res.get("panic") or res.get("crashed"):
            ctx.violation("C05|engine-panic", f"engine panicked: {str(res.get('panic'))[:100]}", {"scenario": sc})
            continue
        for _, o in obs_of(res, {"conc2"}):
            stats["pair_rounds"] = stats.get("pair_rounds", 0) + 1
            got = (tuple(r == "ok" for r in o["results"]), final_of(res, o["pid"]))
            if got not in serial:
                oks = {s_[0] for s_ in serial}
                what = "answers" if got[0] not in oks else "outcome"
                ctx.violation(f"C05|concurrent-pair-not-serial|{sc['pair'][0]}+{sc['pair'][1]}|{what}",
                              f"{sc['pair'][0]}(a) and {sc['pair'][1]}(b) at the same time ({sc['shape']}): answers {o['results']}, final {got[1]}; "
                              f"the two serial orders give {sorted(str(s_[0]) for s_ in serial)}", {"scenario": sc, "serial": [str(x) for x in serial]})
                break
        else:
            ctx.nontrivial(["pair", sc["pair"], sc["shape"]])


def conc_scenarios(seed):
    scs = []
    for ev in SEVEN:
        for n in (2, 3, 4, 8):
            scs.append({"id": f"conc-{ev}-{n}", "config": {"keep": True, "dump_each": True}, "models": [c02.MATRIX_WF],
                        "ops": [["deploy", 0], ["start", "mx", {"pid": "p1"}], ["runall"],
                                ["conc", n, ev, "p1", {"nid": "a1", "k": 0}, c02.opts_for(ev)], ["runall"]]})
    # concurrent identical cancels of a completed act while the next step already waits: one of them re-opens the step, once
    lin = {"id": "ml", "steps": [{"id": "s1", "acts": [{"id": "a1", "uses": gen.IRQ, "key": "k1"}]}, {"id": "s2", "acts": [{"id": "a2", "uses": gen.IRQ, "key": "k2"}]}]}
    for n in (2, 4, 8, 8):
        scs.append({"id": f"conc-cancel-{n}", "config": {"keep": True, "dump_each": True}, "models": [lin],
                    "ops": [["deploy", 0], ["start", "ml", {"pid": "p1"}], ["runall"], ["act", "next", "p1", {"nid": "a1", "k": 0}, {}], ["runall"],
                            ["conc", n, "cancel", "p1", {"nid": "a1", "k": 0}, {}], ["runall"]]})
    return scs


def dumps_of(obs):
    return {o["pid"]: o for o in obs if o.get("k") == "dump"}


def strip_dump(d):
    if d is None or d.get("absent"):
        return None
    return {"state": d.get("state"), "err": d.get("err"), "env": d.get("env"),
            "tasks": [(t["tid"], t["state"], t["prev"], json.dumps(t["data"], sort_keys=True), json.dumps(t["err"], sort_keys=True)) for t in d.get("tasks", [])]}


def declared_outputs(models, nid):
    found = []

    def walk(x):
        if isinstance(x, dict):
            if x.get("id") == nid and "uses" in x:
                found.append(list((x.get("outputs") or {}).keys()))
            for v in x.values():
                walk(v)
        elif isinstance(x, list):
            for v in x:
                walk(v)
    walk(models)
    return found[0] if found else []


def run(ctx):
    ctx.check_theorems("ActsModel.Props.C05")
    scs = scenarios(ctx.seed, 600 if ctx.tier == "quick" else 4000)
    results = ctx.harness("run", scs)
    reqs, where = [], []
    after_end = {}
    for si, (sc, res) in enumerate(zip(scs, results)):
        prev = {}
        ended = {}      # pid -> the terminal event it has delivered
        by_op = {st["op"]: st["obs"] for st in res.get("steps", [])}
        for i, op in enumerate(sc["ops"]):
            obs = by_op.get(i)
            if obs is None:
                break
            if op[0] == "act" and op[1] in SEVEN and op[2] in ended and si not in after_end:
                # the process has delivered its terminal event: it is not a live process any more, whatever is left in the cache
                r0 = [o for o in obs if o.get("k") == "res"]
                if r0 and r0[0].get("ok"):
                    tgt0 = [o for o in obs if o.get("k") == "target"]
                    d0 = prev.get(op[2]) or {}
                    t0 = next((t for t in d0.get("tasks", []) if tgt0 and t["tid"] == tgt0[0]["tid"]), None)
                    after_end[si] = (i, op[1], ended[op[2]], (t0 or {}).get("nid"), (t0 or {}).get("state"))
            for o in obs:
                if o.get("k") == "pev" and o.get("chan") == "default" and o.get("ev") in ("complete", "error"):
                    ended.setdefault(o["pid"], o.get("state"))
            if op[0] == "act":
                tgt = [o for o in obs if o.get("k") == "target"]
                pid = op[2]
                d = prev.get(pid)
                live = d is not None and not d.get("absent")
                task = None
                if live and tgt:
                    for t in d.get("tasks", []):
                        if t["tid"] == tgt[0]["tid"]:
                            task = t
                outs = declared_outputs(sc["models"], task["nid"]) if task else []
                reqs.append({"cmd": "c05.admit", "action": op[1], "procLive": live, "taskExists": task is not None,
                             "kind": task["kind"] if task else "act", "state": task["state"] if task else "none",
                             "outputsSatisfied": all(k in (op[4] or {}) for k in outs)})
                where.append((si, i, copy.deepcopy(strip_dump(d)), task, outs))
            prev = dumps_of(obs) or prev
    answers = ctx.driver(reqs)
    dist = {"accepted": 0, "rejected": {}, "by_action_state": {}}
    flagged = set()
    for si, (i, ev, how, nid, st) in after_end.items():
        flagged.add(si)
        ctx.violation(f"C05|accepted-after-terminal-event|{ev}|{how}", f"op {i}: {ev} on {nid} ({st}) was accepted although the process had delivered its terminal event ({how})",
                      {"scenario": scs[si], "op": i})
    for (si, i, before, task, outs), rq, an in zip(where, reqs, answers):
        sc, res = scs[si], results[si]
        if si in flagged:
            continue
        ctx.cov["evaluations"] += 1
        if res.get("panic") or res.get("crashed"):
            flagged.add(si)
            ctx.violation("C05|engine-panic", f"engine panicked: {str(res.get('panic'))[:100]}", {"scenario": sc})
            continue
        obs = {st["op"]: st["obs"] for st in res.get("steps", [])}.get(i, [])
        r = [o for o in obs if o.get("k") == "res"]
        if not r:
            continue
        ok = r[0].get("ok")
        err = r[0].get("err")
        ev = rq["action"]
        key = f"{ev}/{rq['kind']}/{rq['state']}"
        dist["by_action_state"][key] = dist["by_action_state"].get(key, 0) + 1
        if ok:
            dist["accepted"] += 1
        else:
            dist["rejected"][err] = dist["rejected"].get(err, 0) + 1
        after = strip_dump(dumps_of(obs).get(sc["ops"][i][2]))
        # ---- monitors (clauses of the property on the engine's own behaviour)
        if ev in SEVEN or ev == "complete":
            if ok and rq["state"] in TERMINAL and rq["taskExists"] and rq["kind"] == "act":
                flagged.add(si)
                ctx.violation(f"C05|accepted-on-terminal|{ev}", f"{ev} accepted on an act that is already {rq['state']}", {"scenario": sc, "op": i})
                continue
            if ok and (not rq["procLive"] or not rq["taskExists"] or rq["kind"] != "act" or not rq["outputsSatisfied"]):
                flagged.add(si)
                ctx.violation(f"C05|accepted-inadmissible|{ev}", f"{ev} accepted although {rq}", {"scenario": sc, "op": i})
                continue
            if not ok:
                effects = [o for o in obs if o.get("k") in ("tr", "new", "gen", "ptr")]
                if effects or (before is not None and after is not None and before != after):
                    flagged.add(si)
                    what = effects[0] if effects else "dump differs"
                    ctx.violation(f"C05|rejected-with-effect|{ev}|{err}", f"rejected {ev} ({err}) changed the process: {json.dumps(what)[:160]}",
                                  {"scenario": sc, "op": i, "before": before, "after": after})
                    continue
        # options are cut to the declared outputs
        if ok and outs and task is not None:
            extra = set((sc["ops"][i][4] or {}).keys()) - set(outs)
            # what the action itself reads (code and message of an error, target of a back) is a parameter of the action, not a data option
            extra -= {"error": {"ecode", "message"}, "back": {"to"}}.get(ev, set())
            d_after = dumps_of(obs).get(sc["ops"][i][2]) or {}
            for t in d_after.get("tasks", []):
                if t["tid"] == task["tid"]:
                    leaked = [k for k in extra if k in t["data"]]
                    if leaked:
                        flagged.add(si)
                        ctx.violation("C05|options-not-cut", f"options {leaked} beyond the declared outputs {outs} reached the task data", {"scenario": sc, "op": i})
        # ---- correspondence with the admission model
        if isinstance(an, dict) and "admit" in an and si not in flagged:
            cls = {"not-an-act": "wrong-kind", "not-a-step": "wrong-kind"}.get(err, err)
            arm_arg_errors = ("no-ecode", "no-to")   # the error/back arms read their argument before the state guard
            if an["admit"] is False and (ok or (cls != an.get("reject") and cls not in arm_arg_errors)):
                ctx.proof_break("correspondence: admission", f"{sc['id']} op {i} {sc['ops'][i][:3]}: engine ok={ok} err={err}, model rejects with {an.get('reject')}; target {rq}")
            if an["admit"] is True and not ok and err in ("no-process", "no-task", "not-an-act", "not-a-step", "outputs-unsatisfied", "already-completed"):
                ctx.proof_break("correspondence: admission", f"{sc['id']} op {i} {sc['ops'][i][:3]}: engine rejects with {err}, model admits; target {rq}")
        if ok is False and rq["state"] in TERMINAL:
            ctx.nontrivial([sc["id"], i])
        if len(ctx.cov["samples"]) < 3:
            ctx.sample({"scenario": sc["id"], "op": sc["ops"][i], "target": rq, "result": {"ok": ok, "err": err}})
    # ---- two different actions on two different acts of one process at the same time
    judge_pairs(ctx, pair_scenarios(ctx.seed, 12 if ctx.tier == "quick" else 100), dist)
    # ---- concurrent identical actions
    cscs = conc_scenarios(ctx.seed)
    reps = 1 if ctx.tier == "quick" else 10
    cscs = cscs * reps
    cres = ctx.harness("run", cscs, tag="c", shards=4)
    conc = {"runs": 0, "more_than_one": 0, "none": 0}
    for sc, res in zip(cscs, cres):
        ctx.cov["evaluations"] += 1
        conc["runs"] += 1
        for _, o in obs_of(res, {"conc"}):
            ev = next(op for op in sc["ops"] if op[0] == "conc")[2]
            if o["ok"] > 1:
                conc["more_than_one"] += 1
                ctx.violation(f"C05|concurrent-accepted-twice", f"{o['ok']} of {o['n']} concurrent identical '{ev}' actions on one open act were accepted",
                              {"scenario": sc, "results": o["results"]})
            elif o["ok"] == 0:
                conc["none"] += 1
                ctx.violation(f"C05|concurrent-none-accepted|{ev}", f"none of {o['n']} concurrent '{ev}' actions on an open act was accepted: {o['results']}", {"scenario": sc})
            else:
                ctx.nontrivial(["conc", sc["id"]])
        # successors created exactly once
        # (a `back` legitimately re-creates its target step with the old predecessor, so it is not counted here)
        ci = next(j for j, op in enumerate(sc["ops"]) if op[0] == "conc")
        news = [(o["nid"], o.get("prev")) for i, o in obs_of(res, {"new"}) if i >= ci and sc["ops"][ci][2] != "back"]
        dup = [x for x in set(news) if news.count(x) > 1]
        if dup and not any(v["sig"].startswith("C05|concurrent-accepted-twice") for v in ctx.violations):
            ctx.violation("C05|successor-created-twice", f"successor tasks created more than once: {dup}", {"scenario": sc})
    dist["concurrent"] = conc
    ctx.cov["correspondence"] = {"distribution": {k: v for k, v in dist.items() if k != "by_action_state"}, "action_state_cells": len(dist["by_action_state"]),
                                 "streams_compared": ["result class vs Admit.admit", "dump before/after a rejected action", "accepted count of n rendezvoused clients"]}
    ctx.cov["rule"] = ("exhaustive action x closing-state x target matrix, declared-output variants, finished-process variants, seeded random histories; "
                       "n in {2,3,4,8} rendezvoused client threads per terminal action; non-trivial = rejection on a terminal task or a concurrent run; distinct by (scenario, op)")
    ctx.cov["clauses_proved"] = ["admission sound/complete w.r.t. the property's predicate (K1)", "terminal acts reject the seven actions (K1)",
                                 "checks precede writes (K1 on arm structure)", "serial clients: exactly one accepted (all n)"]
    ctx.cov["clauses_not_proved"] = ["that the lock read from the source (K1 actions_serialised) is held across check and write at run time: decided on the engine with concurrent clients and the rendezvous"]


def replay(ctx, data):
    ctx.build([])
    sc = data["replay"].get("scenario")
    if sc:
        res = ctx.harness("run", [sc])[0]
        for st in res["steps"]:
            print(st["op"], sc["ops"][st["op"]][:4] if st["op"] < len(sc["ops"]) else "", [(o["k"], o.get("ok"), o.get("err")) for o in st["obs"] if o.get("k") in ("res", "conc")])
    return 0
