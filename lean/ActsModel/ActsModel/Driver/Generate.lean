import Lean.Data.Json
import ActsModel.Driver.Util
import ActsModel.Model.Generate
import ActsModel.Model.Subflow
open Lean

namespace Acts.Driver
open Acts.Generate Acts.Gen

def lifeCycleOf (s : String) : Option LifeCycle :=
  match s with
  | "created" => some .created
  | "completed" => some .completed
  | "before_update" => some .beforeUpdate
  | "updated" => some .updated
  | "step" => some .step
  | _ => none

/-- {"items": ["u0", "u1"], "acts": ["k1", "k2"]} -> the groups `expand` builds -/
def expandCase (req : Lean.Json) : Lean.Json :=
  let items := (jarr req "items").toList.map asStr
  let acts := (jarr req "acts").toList.map asStr
  let gs := expand items acts
  Lean.Json.mkObj [("groups", Lean.Json.arr (gs.map fun g =>
    Lean.Json.arr (g.map fun o => Lean.Json.arr #[Lean.Json.str o.key, Lean.Json.num o.index, Lean.Json.str o.value]).toArray).toArray)]

/-- {"hooks": [["created", "H1"], …], "own": ["ready", "running", "completed"], "acts": [...], "steps": [...]} -> keys fired, in order:
the task's own events, the events of the acts below it (nearest step / root), the events of steps (context step / root) -/
def firesCase (req : Lean.Json) : Lean.Json :=
  let hooks : List (LifeCycle × String) := (jarr req "hooks").toList.filterMap fun h =>
    let a := asArr h
    (lifeCycleOf (asStr a[0]!)).map fun l => (l, asStr a[1]!)
  let st (k : String) : List TaskState := (jarr req k).toList.map fun s => TaskState.ofStr (asStr s)
  let own := firesOwn hooks (st "own")
  let fromActs := firesFromActs hooks (st "acts")
  let fromSteps := (st "steps").flatMap fun s => fires hooks (stepLifeCycle s)
  Lean.Json.mkObj [("own", Lean.Json.arr (own.map Lean.Json.str).toArray), ("acts", Lean.Json.arr (fromActs.map Lean.Json.str).toArray),
    ("steps", Lean.Json.arr (fromSteps.map Lean.Json.str).toArray)]

/-- {"child": "error"} -> the state the return writes on the calling act -/
def actEndCase (req : Lean.Json) : Lean.Json :=
  Lean.Json.mkObj [("act", Lean.Json.str (Acts.Subflow.actEnd (TaskState.ofStr (jstr req "child"))).toStr)]

end Acts.Driver
