import Lean.Data.Json
import ActsModel.Driver.Util
import ActsModel.Model.MsgStore
open Lean

namespace Acts.Driver
open Acts.Msg

def statusStr : Acts.Gen.MessageStatus → String
  | .created => "created" | .acked => "acked" | .completed => "completed" | .error => "error"

def msgOpOf (j : Json) : Option Op :=
  let a := asArr j
  match asStr a[0]! with
  | "deliver" => some (.deliver (asStr a[1]!) (asStr a[2]!) (asStr a[3]!) (asNat a[4]!) (asInt a[5]!))
  | "tick" => some (.tick (asInt a[1]!))
  | "ack" => some (.ack (asStr a[1]!) (asInt a[2]!))
  | "acted" => some (.acted (asStr a[1]!) (asStr a[2]!) (asInt a[3]!))
  | "redo" => some (.redo (asInt a[1]!))
  | "clear" => some (.clear (match a[1]! with | .str p => some p | _ => none))
  | "rm" => some (.rm (asStr a[1]!))
  | _ => none

def msgRun (req : Json) : Json :=
  let cj := jget req "cfg"
  let c : Cfg := ⟨jnat cj "max", jint cj "interval", jnat cj "limit"⟩
  let stepJ (st : List Rec × List Json) (oj : Json) : List Rec × List Json :=
    match msgOpOf oj with
    | none => (st.1, st.2 ++ [Json.mkObj [("bad", oj)]])
    | some op =>
      let (s', ds) := step c st.1 op
      (s', st.2 ++ [Json.mkObj [
        ("dlv", Json.arr (ds.map fun d => Json.arr #[Json.str d.id, Json.num d.retry]).toArray),
        ("rows", Json.arr (s'.map fun r => Json.arr #[Json.str r.id, Json.str (statusStr r.status), Json.num r.retry,
            Json.num (JsonNumber.fromInt r.update)]).toArray)]])
  let (_, out) := (jarr req "ops").toList.foldl stepJ ([], [])
  Json.mkObj [("answers", Json.arr out.toArray)]

end Acts.Driver
