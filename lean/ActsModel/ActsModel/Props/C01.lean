import ActsModel.Spec.Ref
import ActsModel.Spec.Progress
import ActsModel.Gen.Branch
import ActsModel.Model.Wait

/-!
# C01 — Progress: a quiescent, unfinished process is always waiting on a client
Theorems about the reference interpretation (all workflows of the fragment, all input valuations — the
conditions are arbitrary booleans —, all sets of answered interrupts) by mutual structural induction.
The operational side (the engine and its Lean transcription `Model/Op.lean`) is held to the same
predicate `Spec.progressOK` at every quiescent point of generated runs and schedules.
-/
namespace Acts.C01
open Acts.Ref

/-- a `needs` list that finds nothing in `tm` names, if it is well-formed, a condition branch that is not in `tm` -/
theorem needs_any (ns cids : List String) (h : (!ns.isEmpty && ns.all (cids.contains ·)) = true) : ns.any (cids.contains ·) = true := by
  cases ns with
  | nil => simp at h
  | cons n ns =>
    simp only [List.isEmpty_cons, Bool.not_false, Bool.true_and, List.all_cons, Bool.and_eq_true] at h
    simp only [List.any_cons, h.1, Bool.true_or]

theorem needs_names_unfinished (ns cids tm : List String) (h1 : (!ns.isEmpty && ns.all (cids.contains ·)) = true)
    (h2 : ns.any (tm.contains ·) = false) : ∃ n, n ∈ cids ∧ n ∉ tm := by
  obtain ⟨n, hn, hc⟩ := List.any_eq_true.mp (needs_any ns cids h1)
  refine ⟨n, by simpa using hc, ?_⟩
  intro hin
  have : ns.any (tm.contains ·) = true := List.any_eq_true.mpr ⟨n, hn, by simpa using hin⟩
  rw [h2] at this; cases this

mutual
/-- **progress**: a started construct is finished, or it is waiting on at least one interrupt -/
theorem progress_step (a : Answered) (s : RStep) (hw : wfStep s = true) : doneStep a s = true ∨ opensStep a s ≠ [] := by
  cases s with
  | mk i c bs as =>
    simp only [doneStep, opensStep]
    simp only [wfStep] at hw
    cases c with
    | false => simp
    | true =>
      simp only [Bool.not_true, Bool.false_eq_true, ↓reduceIte, Bool.and_eq_true]
      rcases progress_branches a (stepTaken bs as) (termIds a bs) (condIds bs) bs hw with hb | hb | ⟨n, hn1, hn2⟩
      · rcases progress_acts a as with ha | ha
        · exact Or.inl ⟨hb, ha⟩
        · right; intro h; exact ha (List.append_eq_nil_iff.mp h).2
      · right; intro h; exact hb (List.append_eq_nil_iff.mp h).1
      · right; intro h
        exact stuck_needs_opens a (stepTaken bs as) (termIds a bs) (condIds bs) bs hw n hn1 hn2 (List.append_eq_nil_iff.mp h).1
theorem progress_steps (a : Answered) (ss : List RStep) (hw : wfSteps ss = true) : doneSteps a ss = true ∨ opensSteps a ss ≠ [] := by
  cases ss with
  | nil => simp [doneSteps]
  | cons s ss =>
    simp only [wfSteps, Bool.and_eq_true] at hw
    simp only [doneSteps, opensSteps, Bool.and_eq_true]
    rcases progress_step a s hw.1 with hs | hs
    · simp only [hs, ↓reduceIte, true_and]; exact progress_steps a ss hw.2
    · right
      cases hd : doneStep a s with
      | true => exact absurd (opens_of_done_step a s hd) hs
      | false => simpa using hs
theorem opens_of_done_step (a : Answered) (s : RStep) (h : doneStep a s = true) : opensStep a s = [] := by
  cases s with
  | mk i c bs as =>
    simp only [doneStep, opensStep] at h ⊢
    cases c with
    | false => simp
    | true =>
      simp only [Bool.not_true, Bool.false_eq_true, ↓reduceIte, Bool.and_eq_true] at h ⊢
      rw [opens_of_done_branches a _ _ bs h.1, opens_of_done_acts a as h.2]; rfl
theorem opens_of_done_steps (a : Answered) (ss : List RStep) (h : doneSteps a ss = true) : opensSteps a ss = [] := by
  cases ss with
  | nil => rfl
  | cons s ss =>
    simp only [doneSteps, Bool.and_eq_true] at h
    simp only [opensSteps, h.1, ↓reduceIte]
    exact opens_of_done_steps a ss h.2
theorem opens_of_done_branch (a : Answered) (sc : Bool) (tm : List String) (b : RBranch) (h : doneBranch a sc tm b = true) :
    opensBranch a sc tm b = [] := by
  cases b with
  | mk i g ss =>
    cases g with
    | cond hc =>
      simp only [doneBranch, opensBranch] at h ⊢
      cases hc with
      | false => simp
      | true => simp only [↓reduceIte] at h ⊢; exact opens_of_done_steps a ss h
    | otherwise =>
      simp only [doneBranch, opensBranch] at h ⊢
      cases sc with
      | true => simp
      | false => simp only [Bool.false_eq_true, ↓reduceIte] at h ⊢; exact opens_of_done_steps a ss h
    | needs ns =>
      simp only [doneBranch, opensBranch] at h ⊢
      cases hr : ns.any (tm.contains ·) with
      | true => simp only [hr, ↓reduceIte] at h ⊢; exact opens_of_done_steps a ss h
      | false => rw [hr] at h; simp at h
theorem opens_of_done_branches (a : Answered) (sc : Bool) (tm : List String) (bs : List RBranch) (h : doneBranches a sc tm bs = true) :
    opensBranches a sc tm bs = [] := by
  cases bs with
  | nil => rfl
  | cons b bs =>
    simp only [doneBranches, Bool.and_eq_true] at h
    simp only [opensBranches, opens_of_done_branch a sc tm b h.1, opens_of_done_branches a sc tm bs h.2, List.append_nil]
theorem opens_of_done_acts (a : Answered) (as : List RAct) (h : doneActs a as = true) : opensActs a as = [] := by
  cases as with
  | nil => rfl
  | cons x xs =>
    simp only [doneActs, Bool.and_eq_true] at h
    simp only [opensActs, h.1, ↓reduceIte]
    exact opens_of_done_acts a xs h.2
/-- a branch is finished, or waits on an interrupt, or is a `needs` branch none of whose needed siblings has ended yet -/
theorem progress_branch (a : Answered) (sc : Bool) (tm cids : List String) (b : RBranch) (hw : wfBranch cids b = true) :
    doneBranch a sc tm b = true ∨ opensBranch a sc tm b ≠ [] ∨ (∃ n, n ∈ cids ∧ n ∉ tm) := by
  cases b with
  | mk i g ss =>
    simp only [wfBranch, Bool.and_eq_true] at hw
    cases g with
    | cond hc =>
      simp only [doneBranch, opensBranch]
      cases hc with
      | false => simp
      | true =>
        simp only [↓reduceIte]
        rcases progress_steps a ss hw.2 with h | h
        · exact Or.inl h
        · exact Or.inr (Or.inl h)
    | otherwise =>
      simp only [doneBranch, opensBranch]
      cases sc with
      | true => simp
      | false =>
        simp only [Bool.false_eq_true, ↓reduceIte]
        rcases progress_steps a ss hw.2 with h | h
        · exact Or.inl h
        · exact Or.inr (Or.inl h)
    | needs ns =>
      simp only [doneBranch, opensBranch]
      cases hr : ns.any (tm.contains ·) with
      | true =>
        simp only [↓reduceIte]
        rcases progress_steps a ss hw.2 with h | h
        · exact Or.inl h
        · exact Or.inr (Or.inl h)
      | false =>
        right; right
        exact needs_names_unfinished ns cids tm hw.1 hr
theorem progress_branches (a : Answered) (sc : Bool) (tm cids : List String) (bs : List RBranch) (hw : wfBranches cids bs = true) :
    doneBranches a sc tm bs = true ∨ opensBranches a sc tm bs ≠ [] ∨ (∃ n, n ∈ cids ∧ n ∉ tm) := by
  cases bs with
  | nil => simp [doneBranches]
  | cons b bs =>
    simp only [wfBranches, Bool.and_eq_true] at hw
    simp only [doneBranches, opensBranches, Bool.and_eq_true]
    rcases progress_branch a sc tm cids b hw.1 with hb | hb | hb
    · rcases progress_branches a sc tm cids bs hw.2 with hr | hr | hr
      · exact Or.inl ⟨hb, hr⟩
      · right; left; intro h; exact hr (List.append_eq_nil_iff.mp h).2
      · exact Or.inr (Or.inr hr)
    · right; left; intro h; exact hb (List.append_eq_nil_iff.mp h).1
    · exact Or.inr (Or.inr hb)
/-- a condition branch of the list that has not ended is waiting on an interrupt: so a `needs` branch that is still waiting for it
never strands the step -/
theorem stuck_needs_opens (a : Answered) (sc : Bool) (tm cids : List String) (bs : List RBranch) (hw : wfBranches cids bs = true)
    (n : String) (h1 : n ∈ condIds bs) (h2 : n ∉ termIds a bs) : opensBranches a sc tm bs ≠ [] := by
  cases bs with
  | nil => simp [condIds] at h1
  | cons b bs =>
    simp only [wfBranches, Bool.and_eq_true] at hw
    simp only [termIds, List.mem_append, not_or] at h2
    simp only [opensBranches]
    cases b with
    | mk i g ss =>
      cases g with
      | cond hc =>
        by_cases hi : i = n
        · subst hi
          cases hc with
          | false => simp [termId] at h2
          | true =>
            cases hd : doneSteps a ss with
            | true => simp [termId, hd] at h2
            | false =>
              have hwss : wfSteps ss = true := by
                have := hw.1; simp only [wfBranch, Bool.and_eq_true] at this; exact this.2
              rcases progress_steps a ss hwss with h | h
              · rw [hd] at h; cases h
              · intro he
                have := (List.append_eq_nil_iff.mp he).1
                simp only [opensBranch, ↓reduceIte] at this
                exact h this
        · have h1' : n ∈ condIds bs := by
            simp only [condIds, List.filter_cons, isCondBranch, RBranch.guard, ↓reduceIte, List.map_cons, List.mem_cons, RBranch.id] at h1
            rcases h1 with h | h
            · exact absurd h.symm hi
            · exact h
          intro he
          exact stuck_needs_opens a sc tm cids bs hw.2 n h1' h2.2 (List.append_eq_nil_iff.mp he).2
      | otherwise =>
        have h1' : n ∈ condIds bs := by
          simpa [condIds, List.filter_cons, isCondBranch, RBranch.guard] using h1
        intro he
        exact stuck_needs_opens a sc tm cids bs hw.2 n h1' h2.2 (List.append_eq_nil_iff.mp he).2
      | needs ns =>
        have h1' : n ∈ condIds bs := by
          simpa [condIds, List.filter_cons, isCondBranch, RBranch.guard] using h1
        intro he
        exact stuck_needs_opens a sc tm cids bs hw.2 n h1' h2.2 (List.append_eq_nil_iff.mp he).2
theorem progress_acts (a : Answered) (as : List RAct) : doneActs a as = true ∨ opensActs a as ≠ [] := by
  cases as with
  | nil => simp [doneActs]
  | cons x xs =>
    simp only [doneActs, opensActs, Bool.and_eq_true]
    cases hd : doneAct a x with
    | true => simp only [↓reduceIte, true_and]; exact progress_acts a xs
    | false =>
      right
      simp only [Bool.false_eq_true, ↓reduceIte]
      cases x with
      | irq i c =>
        simp only [doneAct] at hd
        cases c with
        | false => simp at hd
        | true => simp only [↓reduceIte] at hd; simp [opensAct, hd]
      | msg i c => simp [doneAct] at hd
end

/-- **C01 for the reference interpretation**: an unfinished workflow always has an open interrupt -/
theorem progress (a : Answered) (w : RWorkflow) (hw : w.wf = true) : w.done a = true ∨ w.opens a ≠ [] := progress_steps a w.steps hw

mutual
/-- every open interrupt is an unanswered one (so answering it changes the state) -/
theorem opens_unanswered_step (a : Answered) (s : RStep) : ∀ i ∈ opensStep a s, a i = false := by
  cases s with
  | mk j c bs as =>
    intro i hi
    simp only [opensStep] at hi
    cases c with
    | false => simp at hi
    | true =>
      simp only [Bool.not_true, Bool.false_eq_true, ↓reduceIte, List.mem_append] at hi
      rcases hi with hi | hi
      · exact opens_unanswered_branches a _ _ bs i hi
      · exact opens_unanswered_acts a as i hi
theorem opens_unanswered_steps (a : Answered) (ss : List RStep) : ∀ i ∈ opensSteps a ss, a i = false := by
  cases ss with
  | nil => intro i hi; cases hi
  | cons s ss =>
    intro i hi
    simp only [opensSteps] at hi
    split at hi
    · exact opens_unanswered_steps a ss i hi
    · exact opens_unanswered_step a s i hi
theorem opens_unanswered_branch (a : Answered) (sc : Bool) (tm : List String) (b : RBranch) : ∀ i ∈ opensBranch a sc tm b, a i = false := by
  cases b with
  | mk j g ss =>
    intro i hi
    cases g with
    | cond hc =>
      simp only [opensBranch] at hi
      split at hi
      · exact opens_unanswered_steps a ss i hi
      · cases hi
    | otherwise =>
      simp only [opensBranch] at hi
      split at hi
      · cases hi
      · exact opens_unanswered_steps a ss i hi
    | needs ns =>
      simp only [opensBranch] at hi
      split at hi
      · exact opens_unanswered_steps a ss i hi
      · cases hi
theorem opens_unanswered_branches (a : Answered) (sc : Bool) (tm : List String) (bs : List RBranch) :
    ∀ i ∈ opensBranches a sc tm bs, a i = false := by
  cases bs with
  | nil => intro i hi; cases hi
  | cons b bs =>
    intro i hi
    simp only [opensBranches, List.mem_append] at hi
    rcases hi with hi | hi
    · exact opens_unanswered_branch a sc tm b i hi
    · exact opens_unanswered_branches a sc tm bs i hi
theorem opens_unanswered_acts (a : Answered) (as : List RAct) : ∀ i ∈ opensActs a as, a i = false := by
  cases as with
  | nil => intro i hi; cases hi
  | cons x xs =>
    intro i hi
    simp only [opensActs] at hi
    split at hi
    · exact opens_unanswered_acts a xs i hi
    · cases x with
      | irq j c =>
        simp only [opensAct] at hi
        split at hi
        · rename_i h; simp at hi; subst hi; simp at h; exact h.2
        · cases hi
      | msg j c => simp [opensAct] at hi
end

mutual
/-- **a process whose every interrupt is answered finishes** -/
theorem all_answered_done_step (s : RStep) (hw : wfStep s = true) : doneStep (fun _ => true) s = true := by
  cases s with
  | mk j c bs as =>
    simp only [wfStep] at hw
    simp only [doneStep]
    cases c with
    | false => simp
    | true =>
      have hsub : ∀ n, n ∈ condIds bs → n ∈ termIds (fun _ => true) bs := fun n hn => all_answered_term bs (condIds bs) hw n hn
      simp [all_answered_done_branches _ _ (condIds bs) bs hw hsub, all_answered_done_acts as]
theorem all_answered_done_steps (ss : List RStep) (hw : wfSteps ss = true) : doneSteps (fun _ => true) ss = true := by
  cases ss with
  | nil => rfl
  | cons s ss =>
    simp only [wfSteps, Bool.and_eq_true] at hw
    simp [doneSteps, all_answered_done_step s hw.1, all_answered_done_steps ss hw.2]
theorem all_answered_done_branch (sc : Bool) (tm cids : List String) (b : RBranch) (hw : wfBranch cids b = true)
    (hsub : ∀ n, n ∈ cids → n ∈ tm) : doneBranch (fun _ => true) sc tm b = true := by
  cases b with
  | mk j g ss =>
    simp only [wfBranch, Bool.and_eq_true] at hw
    cases g with
    | cond hc => cases hc <;> simp [doneBranch, all_answered_done_steps ss hw.2]
    | otherwise => cases sc <;> simp [doneBranch, all_answered_done_steps ss hw.2]
    | needs ns =>
      have hr : ns.any (tm.contains ·) = true := by
        obtain ⟨n, hn, hc⟩ := List.any_eq_true.mp (needs_any ns cids hw.1)
        exact List.any_eq_true.mpr ⟨n, hn, by simpa using hsub n (by simpa using hc)⟩
      simp only [doneBranch, hr, ↓reduceIte]
      exact all_answered_done_steps ss hw.2
theorem all_answered_done_branches (sc : Bool) (tm cids : List String) (bs : List RBranch) (hw : wfBranches cids bs = true)
    (hsub : ∀ n, n ∈ cids → n ∈ tm) : doneBranches (fun _ => true) sc tm bs = true := by
  cases bs with
  | nil => rfl
  | cons b bs =>
    simp only [wfBranches, Bool.and_eq_true] at hw
    simp [doneBranches, all_answered_done_branch sc tm cids b hw.1 hsub, all_answered_done_branches sc tm cids bs hw.2 hsub]
/-- with every interrupt answered every condition branch has ended -/
theorem all_answered_term (bs : List RBranch) (cids : List String) (hw : wfBranches cids bs = true) :
    ∀ n, n ∈ condIds bs → n ∈ termIds (fun _ => true) bs := by
  cases bs with
  | nil => intro n hn; simp [condIds] at hn
  | cons b bs =>
    simp only [wfBranches, Bool.and_eq_true] at hw
    intro n hn
    simp only [termIds, List.mem_append]
    cases b with
    | mk i g ss =>
      have hwss : wfSteps ss = true := by
        have := hw.1; simp only [wfBranch, Bool.and_eq_true] at this; exact this.2
      cases g with
      | cond hc =>
        simp only [condIds, List.filter_cons, isCondBranch, RBranch.guard, ↓reduceIte, List.map_cons, List.mem_cons, RBranch.id] at hn
        rcases hn with h | h
        · left
          subst h
          cases hc with
          | false => simp [termId]
          | true => simp [termId, all_answered_done_steps ss hwss]
        · exact Or.inr (all_answered_term bs cids hw.2 n h)
      | otherwise =>
        have hn' : n ∈ condIds bs := by simpa [condIds, List.filter_cons, isCondBranch, RBranch.guard] using hn
        exact Or.inr (all_answered_term bs cids hw.2 n hn')
      | needs ns =>
        have hn' : n ∈ condIds bs := by simpa [condIds, List.filter_cons, isCondBranch, RBranch.guard] using hn
        exact Or.inr (all_answered_term bs cids hw.2 n hn')
theorem all_answered_done_acts (as : List RAct) : doneActs (fun _ => true) as = true := by
  cases as with
  | nil => rfl
  | cons x xs =>
    cases x with
    | irq j c => cases c <;> simp [doneActs, doneAct, all_answered_done_acts xs]
    | msg j c => simp [doneActs, doneAct, all_answered_done_acts xs]
end

theorem all_answered_finishes (w : RWorkflow) (hw : w.wf = true) : w.done (fun _ => true) = true := all_answered_done_steps w.steps hw

mutual
/-- answering more interrupts never un-finishes anything -/
theorem done_mono_step (a a' : Answered) (h : ∀ i, a i = true → a' i = true) (s : RStep) :
    doneStep a s = true → doneStep a' s = true := by
  cases s with
  | mk j c bs as =>
    simp only [doneStep]
    cases c with
    | false => simp
    | true =>
      simp only [Bool.not_true, Bool.false_eq_true, ↓reduceIte, Bool.and_eq_true]
      exact fun hd => ⟨done_mono_branches a a' h _ _ _ (term_mono a a' h bs) bs hd.1, done_mono_acts a a' h as hd.2⟩
theorem done_mono_steps (a a' : Answered) (h : ∀ i, a i = true → a' i = true) (ss : List RStep) :
    doneSteps a ss = true → doneSteps a' ss = true := by
  cases ss with
  | nil => simp [doneSteps]
  | cons s ss =>
    simp only [doneSteps, Bool.and_eq_true]
    exact fun hd => ⟨done_mono_step a a' h s hd.1, done_mono_steps a a' h ss hd.2⟩
theorem done_mono_branch (a a' : Answered) (h : ∀ i, a i = true → a' i = true) (sc : Bool) (tm tm' : List String)
    (htm : ∀ n, n ∈ tm → n ∈ tm') (b : RBranch) :
    doneBranch a sc tm b = true → doneBranch a' sc tm' b = true := by
  cases b with
  | mk j g ss =>
    cases g with
    | cond hc => cases hc <;> simp only [doneBranch, ↓reduceIte, Bool.false_eq_true] <;> first | exact done_mono_steps a a' h ss | simp
    | otherwise => cases sc <;> simp only [doneBranch, ↓reduceIte, Bool.false_eq_true] <;> first | exact done_mono_steps a a' h ss | simp
    | needs ns =>
      simp only [doneBranch]
      cases hr : ns.any (tm.contains ·) with
      | false => simp
      | true =>
        have hr' : ns.any (tm'.contains ·) = true := by
          obtain ⟨n, hn, hc⟩ := List.any_eq_true.mp hr
          exact List.any_eq_true.mpr ⟨n, hn, by simpa using htm n (by simpa using hc)⟩
        simp only [hr', ↓reduceIte]
        exact done_mono_steps a a' h ss
theorem done_mono_branches (a a' : Answered) (h : ∀ i, a i = true → a' i = true) (sc : Bool) (tm tm' : List String)
    (htm : ∀ n, n ∈ tm → n ∈ tm') (bs : List RBranch) :
    doneBranches a sc tm bs = true → doneBranches a' sc tm' bs = true := by
  cases bs with
  | nil => simp [doneBranches]
  | cons b bs =>
    simp only [doneBranches, Bool.and_eq_true]
    exact fun hd => ⟨done_mono_branch a a' h sc tm tm' htm b hd.1, done_mono_branches a a' h sc tm tm' htm bs hd.2⟩
/-- answering more interrupts never re-opens a condition branch that had ended -/
theorem term_mono (a a' : Answered) (h : ∀ i, a i = true → a' i = true) (bs : List RBranch) :
    ∀ n, n ∈ termIds a bs → n ∈ termIds a' bs := by
  cases bs with
  | nil => intro n hn; exact hn
  | cons b bs =>
    intro n hn
    simp only [termIds, List.mem_append] at hn ⊢
    rcases hn with hn | hn
    · left
      cases b with
      | mk i g ss =>
        cases g with
        | cond hc =>
          cases hc with
          | false => simpa [termId] using hn
          | true =>
            simp only [termId, ↓reduceIte] at hn ⊢
            cases hd : doneSteps a ss with
            | false => simp [hd] at hn
            | true =>
              simp only [hd, ↓reduceIte] at hn
              simp only [done_mono_steps a a' h ss hd, ↓reduceIte]
              exact hn
        | otherwise => simp [termId] at hn
        | needs ns => simp [termId] at hn
    · exact Or.inr (term_mono a a' h bs n hn)
theorem done_mono_acts (a a' : Answered) (h : ∀ i, a i = true → a' i = true) (as : List RAct) :
    doneActs a as = true → doneActs a' as = true := by
  cases as with
  | nil => simp [doneActs]
  | cons x xs =>
    simp only [doneActs, Bool.and_eq_true]
    intro hd
    refine ⟨?_, done_mono_acts a a' h xs hd.2⟩
    cases x with
    | irq j c =>
      have := hd.1
      simp only [doneAct] at this ⊢
      cases c with
      | false => simp
      | true => simp only [↓reduceIte] at this ⊢; exact h j this
    | msg j c => simp [doneAct]
end

/-- K1 (read from the source on this run): what wakes a waiting branch — a `needs` branch is ready as soon as one named sibling has
ended, the `else` branch when every sibling was skipped (and it is closed once a sibling ended otherwise), and each pass of the step over
its waiting branches (`Step::next`, `Step::review`) resumes every branch that has become ready. These are the code facts behind `opens`
never being empty for an unfinished construct. -/
theorem waiting_branches_are_woken :
    Acts.Gen.needsReadyAnyEnded = true ∧ Acts.Gen.elseReadyAllSkipped = true ∧ Acts.Gen.elseClosedWhenTaken = true ∧
    Acts.Gen.nextWakesAll = true ∧ Acts.Gen.reviewWakesAll = true := by decide

/-- **the recorded wait-cycle findings, as witnesses on the wake-up rules** (`C01|stranded|wait-cycle:*`): with the rules the engine has
(`waiting_branches_are_woken` reads them from the source) two `else` branches wait for each other — each needs *every* sibling skipped,
and a waiting `else` branch is not skipped —, and a `needs` branch that names only the `else` branch waits with it when no condition
holds. Nothing runs, both wait, no rule applies: the step never ends. The deploy accepts such models; the reference interpretation
excludes them by `wf`. -/
theorem wait_cycle_two_else :
    Acts.Wait.stuck [⟨"c", .cond, .skipped⟩, ⟨"e1", .otherwise, .pending⟩, ⟨"e2", .otherwise, .pending⟩] = true := by decide

theorem wait_cycle_needs_on_else :
    Acts.Wait.stuck [⟨"c", .cond, .skipped⟩, ⟨"e", .otherwise, .pending⟩, ⟨"n", .needs ["e"], .pending⟩] = true := by decide

/-- … while the well-formed shapes beside them are not stuck: one `else` branch runs when every sibling was skipped, a `needs` branch over a
condition branch is woken by its ending -/
theorem no_wait_cycle_when_well_formed :
    Acts.Wait.stuck [⟨"c", .cond, .skipped⟩, ⟨"e", .otherwise, .pending⟩] = false ∧
    Acts.Wait.stuck [⟨"c", .cond, .ended⟩, ⟨"e", .otherwise, .pending⟩, ⟨"n", .needs ["c"], .pending⟩] = false := by decide

/-- the monitor is the property: with an empty queue it accepts exactly when every process is finished or waits -/
theorem monitor_iff (procs : List Acts.Spec.QProc) :
    Acts.Spec.progressOK 0 procs = true ↔ ∀ p ∈ procs, p.terminalDelivered = true ∨ p.waitingOnClient = true := by
  simp [Acts.Spec.progressOK]

/-- non-vacuity: a workflow with two parallel condition branches and an else branch, one interrupt answered -/
def exW : RWorkflow := ⟨"w", [.mk "s1" true [.mk "b1" (.cond true) [.mk "s2" true [] [.irq "a1" true, .irq "a2" true]],
  .mk "b2" (.cond false) [.mk "s3" true [] [.irq "a3" true]], .mk "b3" .otherwise [.mk "s4" true [] [.irq "a4" true]]] [],
  .mk "s5" true [] [.irq "a5" true]]⟩
example : exW.opens (fun i => i == "a1") = ["a2"] ∧ exW.done (fun i => i == "a1") = false := by decide
example : exW.opens (fun i => i == "a1" || i == "a2") = ["a5"] := by decide

/-- non-vacuity with `needs`: the workflow is well-formed, `b2` waits for `b1`; nothing answered → the open interrupt is `a1`; after it `a2` -/
def exN : RWorkflow := ⟨"w", [.mk "s1" true [.mk "b1" (.cond true) [.mk "s2" true [] [.irq "a1" true]],
  .mk "b2" (.needs ["b1"]) [.mk "s3" true [] [.irq "a2" true]]] []]⟩
example : exN.wf = true ∧ exN.opens (fun _ => false) = ["a1"] ∧ exN.opens (fun i => i == "a1") = ["a2"] ∧
    exN.done (fun i => i == "a1" || i == "a2") = true := by decide

/-- the hypothesis of `progress` is needed: a `needs` list that names no condition branch strands the interpretation as it strands the engine
(the recorded wait-cycle finding) -/
example : (⟨"w", [.mk "s1" true [.mk "b1" .otherwise [], .mk "b2" (.needs ["b1"]) []] []]⟩ : RWorkflow).wf = false ∧
    (⟨"w", [.mk "s1" true [.mk "b1" .otherwise [], .mk "b2" (.needs ["b1"]) []] []]⟩ : RWorkflow).done (fun _ => true) = false ∧
    (⟨"w", [.mk "s1" true [.mk "b1" .otherwise [], .mk "b2" (.needs ["b1"]) []] []]⟩ : RWorkflow).opens (fun _ => true) = [] := by decide

end Acts.C01
