"""C17 — retention: finished processes leave exactly what the configuration says"""
import json

from .. import gen
from ..core import obs_of
from ..rng import Rng

ASSUMPTIONS = [
    "row sets are read through the registered collections after every operation (verif store accessor), on both back ends",
    "a process is 'finished' when its complete/error event has been delivered on the default channel",
]

TERMINAL = {"completed", "submitted", "backed", "cancelled", "error", "aborted", "skipped", "removed"}


def small_wf(rng, mid):
    g = gen.WfGen(rng, depth=1, max_steps=2, max_branches=2, max_acts=2, p_if=5, p_branches=40, needs=False, act_kinds=((gen.IRQ, 5), (gen.MSG, 2)))
    w = g.workflow(mid)
    # node ids must be unique per model only; prefix them to tell the models apart in the rows
    text = json.dumps(w)
    for k in ("s", "b", "a"):
        for n in range(40, 0, -1):
            text = text.replace(f'"{k}{n}"', f'"{mid}{k}{n}"').replace(f'"k{k}{n}"', f'"{mid}k{k}{n}"')
    w = json.loads(text)
    if rng.chance(1, 4):
        # a process that ends itself from inside a running act (acts.core.action on the act's own step): task events of the act and its step
        # still arrive after the process has ended
        last = w["steps"][-1]
        last.pop("branches", None)
        last.setdefault("acts", []).append({"id": f"{mid}ax", "uses": "acts.core.action", "params": {"action": rng.pick(["next", "abort", "error"]),
                                                                                                      "options": {"ecode": "e9", "message": "from inside"}}})
    if rng.chance(1, 2):
        w["on"] = [{"id": f"ev{j}", "uses": "acts.event.manual"} for j in range(rng.range(1, 2))]
    return w, g.exprs


def many_events_scenario(seed, i, store):
    """models with many registered start events (`on` entries), deployed, removed and deployed again: removal takes every one of them"""
    rng = Rng(seed * 49979693 + i)
    models = []
    for j, n in enumerate([rng.range(45, 130), rng.range(0, 70)]):
        models.append({"id": f"m{j}", "on": [{"id": f"ev{k}", "uses": "acts.event.manual"} for k in range(n)],
                       "steps": [{"id": f"m{j}s1", "acts": [{"id": f"m{j}a1", "uses": "acts.core.irq", "key": "k"}]}]})
    ops = [["deploy", 0], ["deploy", 1], ["start", "m0", {"pid": "p0"}], ["runall"]]
    order = rng.shuffle([["rm_model", "m0"], ["rm_model", "m1"], ["act", "next", "p0", {"open": 0}, {}]])
    for op in order:
        ops += [op, ["runall"]]
    ops += [["deploy", 0], ["rm_model", "m0"]]
    cfg = {"keep": rng.chance(1, 2), "store": store, "rows_each": ["procs", "tasks", "messages", "events", "models"]}
    return {"id": f"c17-{seed}-{i}-{store}-events", "config": cfg, "models": models, "ops": ops, "exprs": {}, "pids": ["p0"]}


def parallel_end_scenario(seed, i, store):
    """a process with several branches waiting at once is ended from one of them (abort, error, skip) or answered to its end, and is kept:
    every row it leaves is in a terminal state; a second process goes on meanwhile"""
    rng = Rng(seed * 49979693 + i)
    brs = [{"id": f"m0b{j}", "if": "(x == 0)", "steps": [{"id": f"m0s1{j}", "acts": [{"id": f"m0a{j}", "uses": gen.IRQ, "key": f"m0ka{j}"}] +
                                                        ([{"id": f"m0c{j}", "uses": gen.IRQ, "key": f"m0kc{j}"}] if rng.chance(1, 3) else [])}]} for j in range(rng.range(2, 3))]
    w = {"id": "m0", "steps": [{"id": "m0s1", "branches": brs}, {"id": "m0s2", "acts": [{"id": "m0z", "uses": gen.IRQ, "key": "m0kz"}]}]}
    ops = [["chan_open", {"id": "ackc", "ack": True}], ["deploy", 0], ["start", "m0", {"pid": "p0", "x": 0, "y": 0}], ["start", "m0", {"pid": "p1", "x": 0, "y": 0}], ["runall"]]
    if rng.chance(1, 2):
        ops += [["act", "next", "p0", {"open": 0}, {}], ["runall"]]
    how = rng.pick(["abort", "abort", "error", "skip", "abort"])
    ops += [["act", how, "p0", {"open": rng.below(2)}, {"ecode": "e1", "message": "x"}], ["runall", rng.pick(["fifo", "lifo"]), rng.below(1 << 30)]]
    for _ in range(4):
        ops += [["act", "next", "p1", {"open": 0}, {}], ["runall"], ["act", "next", "p0", {"open": 0}, {}], ["runall"]]
    cfg = {"keep": rng.chance(3, 4), "store": store, "rows_each": ["procs", "tasks", "messages", "events", "models"]}
    return {"id": f"c17-{seed}-{i}-{store}-parallel", "config": cfg, "models": [w], "ops": ops, "exprs": {"(x == 0)": ["bin", "==", ["var", "x"], ["lit", 0]]}, "pids": ["p0", "p1"]}


def big_process_scenario(seed, i, store):
    """a process that owns more task rows than any page of a listing (100 and more: a long chain of steps, or a generator over a long list)
    ends by completion, abort, error or skip while a small process stays open: nothing of it is left, nothing of the other one is taken"""
    rng = Rng(seed * 49979693 + i)
    n = rng.pick([rng.range(99, 131), rng.range(195, 260), rng.range(301, 330)])
    if rng.chance(1, 2):
        steps = [{"id": f"m0s{j}"} for j in range(n)] + [{"id": "m0sz", "acts": [{"id": "m0az", "uses": gen.IRQ, "key": "m0kz"}]}]
        shape = "chain"
    else:
        m = max(34, n // 3)
        steps = [{"id": "m0s1", "acts": [{"id": "m0g", "uses": "acts.core.parallel", "params": {"in": list(range(m)), "acts": [
            {"id": "m0ga", "uses": gen.IRQ, "key": "m0kg"}, {"id": "m0gb", "uses": gen.MSG, "key": "m0km"}]}}]}]
        shape = "generator"
    w0 = {"id": "m0", "steps": steps}
    w1 = {"id": "m1", "steps": [{"id": "m1s1", "acts": [{"id": "m1a1", "uses": gen.IRQ, "key": "m1k1"}]}]}
    how = rng.pick(["next", "abort", "error", "skip"] if shape == "chain" else ["abort", "error", "abort"])
    ops = [["chan_open", {"id": "ackc", "ack": True}], ["deploy", 0], ["deploy", 1], ["start", "m1", {"pid": "p1"}], ["start", "m0", {"pid": "p0"}], ["runall"],
           ["act", how, "p0", {"open": rng.below(3)}, {"ecode": "e1", "message": "x"}], ["runall", rng.pick(["fifo", "lifo"]), rng.below(1 << 30)],
           ["act", "next", "p0", {"open": 0}, {}], ["runall"], ["act", "next", "p1", {"open": 0}, {}], ["runall"]]
    cfg = {"keep": rng.chance(1, 4), "store": store, "rows_each": ["procs", "tasks", "messages", "events", "models"]}
    return {"id": f"c17-{seed}-{i}-{store}-big-{shape}", "config": cfg, "models": [w0, w1], "ops": ops, "exprs": {}, "pids": ["p0", "p1"]}


def gen_scenario(seed, i, store):
    if i % 10 == 8:
        return big_process_scenario(seed, i, store)
    if i % 10 == 6:
        return many_events_scenario(seed, i, store)
    if i % 10 == 3:
        return parallel_end_scenario(seed, i, store)
    rng = Rng(seed * 49979693 + i)
    keep = rng.chance(1, 2)
    models, exprs = [], {}
    for j in range(rng.range(1, 3)):
        w, e = small_wf(rng.fork("m%d" % j), f"m{j}")
        models.append(w)
        exprs.update(e)
    ops = [["chan_open", {"id": "ackc", "ack": True}]]
    for j in range(len(models)):
        ops.append(["deploy", j])
    pids = []
    for k in range(rng.range(2, 4)):
        pid = f"p{k}"
        pids.append(pid)
        ops.append(["start", f"m{rng.below(len(models))}", {"pid": pid, "x": rng.below(4), "y": rng.below(4)}])
    ops.append(["runall"])
    for _ in range(rng.range(6, 16)):
        pid = rng.pick(pids)
        r = rng.below(100)
        if r < 55:
            ops.append(["act", "next", pid, {"open": rng.below(3)}, {}])
        elif r < 65:
            ops.append(["act", "abort", pid, {"open": 0}, {}])
        elif r < 75:
            ops.append(["act", "error", pid, {"open": 0}, {"ecode": "e1", "message": "x"}])
        elif r < 82:
            ops.append(["act", "skip", pid, {"open": 0}, {}])
        elif r < 88:
            ops.append(["rm_model", f"m{rng.below(len(models))}"])
        else:
            ops.append(["act", "next", pid, {"term": rng.below(3)}, {}])
        ops.append(["runall", rng.pick(["fifo", "lifo"]), rng.below(1 << 30)])
    for pid in pids:
        for _ in range(4):
            ops.append(["act", "next", pid, {"open": 0}, {}])
            ops.append(["runall"])
    cfg = {"keep": keep, "store": store, "rows_each": ["procs", "tasks", "messages", "events", "models"]}
    return {"id": f"c17-{seed}-{i}-{store}", "config": cfg, "models": models, "ops": ops, "exprs": exprs, "pids": pids}


def run(ctx):
    ctx.check_theorems("ActsModel.Props.C17")
    n = 100 if ctx.tier == "quick" else 2500
    scs = []
    for i in range(n):
        for store in ("mem", "sqlite"):
            scs.append(gen_scenario(ctx.seed, i, store))
    def batches():
        # the rows of five collections after every operation are large: a batch of observations is dropped before the next one is run
        for lo in range(0, len(scs), 400):
            part = scs[lo:lo + 400]
            for pair in zip(part, ctx.harness("run", part, tag="h%d" % (lo // 400))):
                yield pair
    stats = {"finished": 0, "endings": {}, "keep_runs": 0, "default_runs": 0, "refused_after_removal": 0, "rm_model": 0, "max_events_of_a_removed_model": 0, "max_task_rows_of_a_process": 0}
    for sc, res in batches():
        ctx.cov["evaluations"] += 1
        if res.get("panic") or res.get("crashed"):
            ctx.violation("C17|engine-panic", f"engine panicked: {str(res.get('panic'))[:100]}", {"scenario": sc})
            continue
        keep = sc["config"]["keep"]
        stats["keep_runs" if keep else "default_runs"] += 1
        finished = {}          # pid -> ending state
        bad = None
        mon_reqs = []
        msg_ids = set()
        deployed = {}          # mid -> event ids
        for st in res.get("steps", []):
            i = st["op"]
            op = sc["ops"][i] if i < len(sc["ops"]) else ["?"]
            obs = st["obs"]
            if any(o.get("k") in ("stuck", "dead") for o in obs):
                break
            for o in obs:
                if o.get("k") == "pev" and o.get("chan") == "default" and o.get("ev") in ("complete", "error"):
                    finished[o["pid"]] = o["state"]
                    stats["endings"][o["state"]] = stats["endings"].get(o["state"], 0) + 1
            rows = {o["coll"]: (o.get("rows") or []) for o in obs if o.get("k") == "rows"}
            if not rows:
                continue
            if op[0] == "deploy":
                w = sc["models"][op[1]]
                deployed[w["id"]] = {f"{w['id']}:{a['id']}" for a in w.get("on", [])}
            if op[0] == "rm_model":
                stats["rm_model"] += 1
                stats["max_events_of_a_removed_model"] = max(stats["max_events_of_a_removed_model"], len(deployed.get(op[1], ())))
                deployed.pop(op[1], None)
            # model events: exactly the 'on' entries of the deployed models
            want_ev = set().union(*deployed.values()) if deployed else set()
            got_ev = {r["id"] for r in rows.get("events", [])}
            if got_ev != want_ev:
                bad = ("events-after-rm-model", f"op {i} {op[:2]}: {len(got_ev)} events registered, expected {len(want_ev)}; "
                                                f"left over {sorted(got_ev - want_ev)[:3]} missing {sorted(want_ev - got_ev)[:3]}")
            if {r["id"] for r in rows.get("models", [])} != set(deployed):
                bad = ("model-rows", f"op {i}: model rows {sorted(r['id'] for r in rows.get('models', []))} deployed {sorted(deployed)}")
            prow = {r["id"]: r for r in rows.get("procs", [])}
            trow = {}
            for r in rows.get("tasks", []):
                trow.setdefault(r["pid"], []).append(r)
            stats["max_task_rows_of_a_process"] = max([stats["max_task_rows_of_a_process"]] + [len(v) for v in trow.values()])
            # the retention predicate itself is `Ret.retentionCheck`, evaluated by the Lean driver on these rows (collected here, judged below)
            # (kept rows: the processes that ended before this operation — the last task events of an ending may still be on their way
            # while the operation that ended it is observed)
            ended_now = {o["pid"] for o in obs if o.get("k") == "pev" and o.get("chan") == "default" and o.get("ev") in ("complete", "error")}
            mon_reqs.append((i, {"cmd": "c17.monitor", "keep": keep, "finished": sorted(finished), "procs": sorted(prow),
                                 "tasks": [[r["id"], r["pid"]] for r in rows.get("tasks", [])],
                                 "settled": sorted(set(finished) - ended_now),
                                 "states": [[r["pid"], r["state"] in TERMINAL] for r in rows.get("tasks", [])]}))
            for pid in sc["pids"]:
                if pid in finished:
                    if keep and pid in prow and prow[pid]["state"] not in TERMINAL:
                        bad = ("kept-process-not-terminal", f"op {i}: kept process row {pid} has state {prow[pid]['state']}")
                else:
                    # a live process is never collateral damage of another one's removal
                    started = any(o2.get("k") == "new" and o2.get("pid") == pid for st2 in res["steps"][: res["steps"].index(st) + 1] for o2 in st2["obs"])
                    if started and pid not in prow:
                        bad = ("live-process-row-missing", f"op {i}: live process {pid} has no row")
            # messages are never deleted by process removal
            now_ids = {r["id"] for r in rows.get("messages", [])}
            lost = msg_ids - now_ids
            if lost:
                bad = ("message-record-deleted", f"op {i} {op[:2]}: message records {sorted(lost)[:3]} disappeared")
            msg_ids |= now_ids
            # every action on a removed process is refused
            if op[0] == "act" and op[2] in finished and not keep:
                r = [o for o in obs if o.get("k") == "res"]
                # the action may be the one that ended it in this very op
                ended_now = any(o.get("k") == "pev" and o.get("pid") == op[2] and o.get("ev") in ("complete", "error") for o in obs)
                if r and not ended_now:
                    stats["refused_after_removal"] += 1
                    if r[0].get("ok") or r[0].get("err") != "no-process":
                        bad = ("action-on-removed-process", f"op {i}: action on removed {op[2]} answered {r[0].get('ok')}/{r[0].get('err')}")
            if bad:
                break
        stats["finished"] += len(finished)
        if mon_reqs:
            verdicts = ctx.driver([r for _, r in mon_reqs], tag="dr")
            for (i, rq), vd in zip(mon_reqs, verdicts):
                stats["rows_judged"] = stats.get("rows_judged", 0) + 1
                if isinstance(vd, dict) and vd.get("ok") is False:
                    # the earliest failure of the run wins
                    ntasks = sum(1 for t in rq["tasks"] if t[1] == vd.get("pid"))
                    cand = (vd["why"], f"op {i}: process {vd.get('pid')} (ended {finished.get(vd.get('pid'))}): {'a process row and ' if vd.get('pid') in rq['procs'] else ''}{ntasks} task rows in the store")
                    if vd["why"] == "kept-task-row-not-terminal":
                        nopen = sum(1 for t in rq["states"] if t[0] == vd.get("pid") and not t[1])
                        cand = (f"kept-task-row-not-terminal|{finished.get(vd.get('pid'))}", f"op {i}: process {vd.get('pid')} has ended ({finished.get(vd.get('pid'))}) and is kept, "
                                f"{nopen} of its task rows are not in a terminal state")
                    if bad is None or i < int(bad[1].split(":")[0].split()[1]):
                        bad = cand
                    break
        if bad:
            ctx.cov["monitor_failures"] += 1
            ctx.violation(f"C17|{bad[0]}|{'keep' if keep else 'default'}", f"{bad[1]} ({sc['config']['store']})", {"scenario": sc})
        elif len(finished) >= 2:
            ctx.nontrivial([sc["models"], sc["ops"], sc["config"]])
    ctx.sample({"scenario": scs[0]["id"], "config": scs[0]["config"], "ops": scs[0]["ops"][:8]}, limit=1)
    ctx.cov["correspondence"] = {"distribution": stats, "streams_compared": ["rows of procs/tasks/messages/events/models after every operation vs the retention rule", "action results on removed processes"]}
    ctx.cov["rule"] = ("2-4 interleaved processes of 1-3 models ending by completion, error, abort or skip, rm_model in between (one scenario in ten: models with 45-130 registered start events removed and redeployed), keep_processes on and off, in-memory and SQLite; "
                       "non-trivial = at least two processes finished; distinct by (models, ops, config)")
    ctx.cov["clauses_proved"] = ["removeProc deletes exactly the rows of that pid and no message (all stores)", "removal iff !keep_processes (K1)", "removals commute",
                                 "actions on a removed process are refused first (admission order)", "rm_model removes exactly its events",
                                 "kept rows of a settled process are in terminal states when the Lean check passes (check_implies_kept_rows_terminal)"]
    ctx.cov["clauses_not_proved"] = ["that the back ends' pid query selects exactly the pid's rows (C10 query theorem + differential)"]


def replay(ctx, data):
    print("re-run: python3 tools/check.py C17; the replay file holds the scenario")
    return 0
