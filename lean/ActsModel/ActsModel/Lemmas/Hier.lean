import ActsModel.Spec.Hier

/-!
Helper lemmas about the C03 monitor (`Spec/Hier.lean`): what a stream that the monitor accepts looks like.
The property theorems built from these are in `Props/C03.lean`.
-/
namespace Acts.Spec
open Acts.Gen

/-- the state the monitor is in after a list of events (verdicts ignored) -/
def hierRun : HState → Nat → List HEv → HState
  | st, _, [] => st
  | st, i, e :: es => hierRun (hierStep st i e).1 (i + 1) es

def isStartEv : HEv → Bool
  | .pev k => k == "start"
  | _ => false

def isTerminalEv : HEv → Bool
  | .pev k => !(k == "start")
  | _ => false

def startCount (evs : List HEv) : Nat := (evs.filter isStartEv).length
def terminalCount (evs : List HEv) : Nat := (evs.filter isTerminalEv).length

theorem hierStep_starts (st : HState) (i : Nat) (e : HEv) :
    (hierStep st i e).1.starts = st.starts + (if isStartEv e then 1 else 0) := by
  cases e with
  | new t => simp [hierStep, isStartEv]
  | hook tid => simp [hierStep, isStartEv]
  | tr tid s =>
    simp only [hierStep, isStartEv]
    split
    · split <;> simp
    · simp
  | pev kind =>
    simp only [hierStep, isStartEv]
    by_cases hk : (kind == "start") = true
    · simp [hk]
    · have hk' : (kind == "start") = false := by simpa using hk
      simp only [hk', Bool.false_eq_true, ↓reduceIte]
      repeat' split
      all_goals simp_all
  | quiescent ps =>
    simp only [hierStep, isStartEv]
    split
    · split
      · simp
      · split
        · split <;> simp
        · split
          · simp
          · split <;> simp
    · simp

theorem hierStep_terminals (st : HState) (i : Nat) (e : HEv) :
    (hierStep st i e).1.terminals = st.terminals + (if isTerminalEv e then 1 else 0) := by
  cases e with
  | new t => simp [hierStep, isTerminalEv]
  | hook tid => simp [hierStep, isTerminalEv]
  | tr tid s =>
    simp only [hierStep, isTerminalEv]
    split
    · split <;> simp
    · simp
  | pev kind =>
    simp only [hierStep, isTerminalEv]
    by_cases hk : (kind == "start") = true
    · simp [hk]
    · have hk' : (kind == "start") = false := by simpa using hk
      simp only [hk', Bool.false_eq_true, ↓reduceIte]
      repeat' split
      all_goals simp_all
  | quiescent ps =>
    simp only [hierStep, isTerminalEv]
    split
    · split
      · simp
      · split
        · split <;> simp
        · split
          · simp
          · split <;> simp
    · simp

/-- a step that the monitor lets pass keeps both counters at most one, and a terminal event it lets pass has a start before it -/
theorem hierStep_pass_bounds (st : HState) (i : Nat) (e : HEv) (h : (hierStep st i e).2 = none)
    (hs : st.starts ≤ 1) (ht : st.terminals ≤ 1) :
    (hierStep st i e).1.starts ≤ 1 ∧ (hierStep st i e).1.terminals ≤ 1 ∧ (isTerminalEv e = true → st.starts ≥ 1) := by
  rw [hierStep_starts, hierStep_terminals]
  cases e with
  | new t => simp [isStartEv, isTerminalEv]; omega
  | hook tid => simp [isStartEv, isTerminalEv]; omega
  | tr tid s => simp [isStartEv, isTerminalEv]; omega
  | quiescent ps => simp [isStartEv, isTerminalEv]; omega
  | pev kind =>
    simp only [isStartEv, isTerminalEv]
    by_cases hk : (kind == "start") = true
    · simp only [hierStep, hk, ↓reduceIte] at h
      simp only [hk, ↓reduceIte, Bool.not_true, Bool.false_eq_true, Nat.add_zero, false_implies, and_true]
      by_cases h1 : st.starts + 1 > 1
      · simp [h1] at h
      · omega
    · simp only [hierStep, hk, Bool.false_eq_true, ↓reduceIte] at h
      simp only [hk, Bool.false_eq_true, ↓reduceIte, Nat.add_zero, Bool.not_false, true_implies]
      by_cases h1 : st.terminals + 1 > 1
      · simp [h1] at h
      · simp only [h1, ↓reduceIte] at h
        by_cases h2 : (st.starts == 0) = true
        · simp [h2] at h
        · have : st.starts ≠ 0 := by simpa using h2
          omega

theorem hierMonitor_none_cons (st : HState) (i : Nat) (e : HEv) (es : List HEv) (h : hierMonitor st i (e :: es) = none) :
    (hierStep st i e).2 = none ∧ hierMonitor (hierStep st i e).1 (i + 1) es = none := by
  unfold hierMonitor at h
  split at h
  · exact absurd h (by simp)
  · rename_i st' heq
    rw [heq]
    exact ⟨rfl, h⟩

/-- counters of an accepted stream -/
theorem hierMonitor_accepts_bounds (evs : List HEv) : ∀ (st : HState) (i : Nat), hierMonitor st i evs = none →
    st.starts ≤ 1 → st.terminals ≤ 1 →
    st.starts + startCount evs ≤ 1 ∧ st.terminals + terminalCount evs ≤ 1 := by
  induction evs with
  | nil => intro st i _ hs ht; simp [startCount, terminalCount]; omega
  | cons e es ih =>
    intro st i h hs ht
    obtain ⟨h1, h2⟩ := hierMonitor_none_cons st i e es h
    obtain ⟨b1, b2, _⟩ := hierStep_pass_bounds st i e h1 hs ht
    have := ih _ _ h2 b1 b2
    rw [hierStep_starts, hierStep_terminals] at this
    simp only [startCount, terminalCount, List.filter_cons]
    cases hse : isStartEv e <;> cases hte : isTerminalEv e <;> simp [hse, hte, startCount, terminalCount] at this ⊢ <;> omega

/-- in an accepted stream no terminal event comes before the start event -/
theorem hierMonitor_terminal_after_start (evs : List HEv) : ∀ (st : HState) (i : Nat), hierMonitor st i evs = none →
    st.starts ≤ 1 → st.terminals ≤ 1 →
    ∀ (pre : List HEv) (e : HEv) (post : List HEv), evs = pre ++ e :: post → isTerminalEv e = true →
      st.starts + startCount pre ≥ 1 := by
  induction evs with
  | nil => intro st i _ _ _ pre e post h; simp at h
  | cons x xs ih =>
    intro st i h hs ht pre e post heq hte
    obtain ⟨h1, h2⟩ := hierMonitor_none_cons st i x xs h
    obtain ⟨b1, b2, b3⟩ := hierStep_pass_bounds st i x h1 hs ht
    cases pre with
    | nil =>
      simp only [List.nil_append, List.cons.injEq] at heq
      obtain ⟨rfl, _⟩ := heq
      have := b3 hte
      simp [startCount]; omega
    | cons p ps =>
      simp only [List.cons_append, List.cons.injEq] at heq
      obtain ⟨rfl, rfl⟩ := heq
      have := ih _ _ h2 b1 b2 ps e post rfl hte
      rw [hierStep_starts] at this
      simp only [startCount, List.filter_cons] at this ⊢
      cases hse : isStartEv x <;> simp [hse] at this ⊢ <;> omega

/-- what the monitor demands at a `completed` write: stated on the state after the write -/
def openBeneath (tasks : List HTask) (tid : Nat) : Option HTask :=
  tasks.find? fun t => !t.state.isCompleted && !t.hook && hHasAncestor tasks tid t

theorem hierStep_completed_pass (st : HState) (i : Nat) (tid : Nat) (h : (hierStep st i (.tr tid .completed)).2 = none) :
    openBeneath (hierStep st i (.tr tid .completed)).1.tasks tid = none := by
  simp only [hierStep, beq_self_eq_true, ↓reduceIte] at h ⊢
  split at h
  · simp at h
  · rename_i hnone
    simpa [openBeneath] using hnone

/-- what the monitor demands at a quiescent point -/
theorem hierStep_quiescent_pass (st : HState) (i : Nat) (ps : TaskState) (r : HTask)
    (hr : st.tasks.find? (·.tid == 0) = some r) (h : (hierStep st i (.quiescent ps)).2 = none) :
    (r.state = ps ∨ (r.state = .none ∧ ps = .running)) ∧
    (st.nonErrorEnd = true → ∀ t ∈ st.tasks, t.state.isCompleted = true ∨ t.hook = true) ∧
    (r.state.isCompleted = true → st.nonErrorEnd = true ∨ st.terminals ≥ 1) := by
  simp only [hierStep, hr] at h
  split at h
  · simp at h
  · rename_i hb
    have hstate : r.state = ps ∨ (r.state = .none ∧ ps = .running) := by
      cases hrs : r.state <;> cases ps <;> simp_all
    refine ⟨hstate, ?_, ?_⟩
    · intro hne
      simp only [hne, ↓reduceIte] at h
      split at h
      · simp at h
      · rename_i hnone
        intro t ht
        have := List.find?_eq_none.mp hnone t ht
        cases h1 : t.state.isCompleted <;> cases h2 : t.hook <;> simp_all
    · intro hc
      by_cases hne : st.nonErrorEnd = true
      · exact Or.inl hne
      · right
        simp only [hne, Bool.false_eq_true, ↓reduceIte] at h
        split at h
        · simp at h
        · rename_i hx
          simp only [hc, Bool.true_and, beq_iff_eq] at hx
          omega

/-- the monitor has seen a non-error ending iff a `complete` event was delivered -/
theorem hierStep_nonErrorEnd (st : HState) (i : Nat) (e : HEv) :
    (hierStep st i e).1.nonErrorEnd = (st.nonErrorEnd || (match e with | .pev k => k == "complete" | _ => false)) := by
  cases e with
  | new t => simp [hierStep]
  | hook tid => simp [hierStep]
  | tr tid s =>
    simp only [hierStep]
    repeat' split
    all_goals simp
  | pev kind =>
    simp only [hierStep]
    by_cases hk : (kind == "start") = true
    · have : kind = "start" := by simpa using hk
      subst this
      simp
    · have hk' : (kind == "start") = false := by simpa using hk
      simp only [hk', Bool.false_eq_true, ↓reduceIte]
      repeat' split
      all_goals simp_all
  | quiescent ps =>
    simp only [hierStep]
    repeat' split
    all_goals simp

/-- an accepted stream is accepted piece by piece -/
theorem hierMonitor_append (a : List HEv) : ∀ (st : HState) (i : Nat) (b : List HEv), hierMonitor st i (a ++ b) = none →
    hierMonitor st i a = none ∧ hierMonitor (hierRun st i a) (i + a.length) b = none := by
  induction a with
  | nil => intro st i b h; simpa [hierMonitor, hierRun] using h
  | cons x xs ih =>
    intro st i b h
    obtain ⟨h1, h2⟩ := hierMonitor_none_cons st i x (xs ++ b) h
    obtain ⟨h3, h4⟩ := ih _ _ b h2
    refine ⟨?_, ?_⟩
    · unfold hierMonitor
      split
      · rename_i v heq; rw [heq] at h1; simp at h1
      · rename_i st' heq; rw [heq] at h3; exact h3
    · simp only [hierRun, List.length_cons]
      rw [show i + (xs.length + 1) = i + 1 + xs.length by omega]
      exact h4

theorem hierRun_append (a : List HEv) : ∀ (st : HState) (i : Nat) (b : List HEv),
    hierRun st i (a ++ b) = hierRun (hierRun st i a) (i + a.length) b := by
  induction a with
  | nil => intro st i b; simp [hierRun]
  | cons x xs ih =>
    intro st i b
    simp only [List.cons_append, hierRun, List.length_cons]
    rw [ih, show i + (xs.length + 1) = i + 1 + xs.length by omega]

def isCompleteEv : HEv → Bool
  | .pev k => k == "complete"
  | _ => false

theorem hierRun_nonErrorEnd (evs : List HEv) : ∀ (st : HState) (i : Nat),
    (hierRun st i evs).nonErrorEnd = (st.nonErrorEnd || evs.any isCompleteEv) := by
  induction evs with
  | nil => intro st i; simp [hierRun]
  | cons e es ih =>
    intro st i
    simp only [hierRun, List.any_cons]
    rw [ih, hierStep_nonErrorEnd]
    cases e <;> simp [isCompleteEv, Bool.or_assoc]

end Acts.Spec
