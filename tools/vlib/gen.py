"""type-directed, mostly-valid generators of workflows and operation histories"""
import json

IRQ = "acts.core.irq"
MSG = "acts.core.msg"
SET = "acts.transform.set"
CODE = "acts.transform.code"


# ------------------------------------------------------------------ expressions (both sides evaluate them)

def js(e):
    t = e[0]
    if t == "lit":
        return json.dumps(e[1])
    if t == "var":
        return e[1]
    if t == "not":
        return "!(" + js(e[1]) + ")"
    if t == "bin":
        return "(" + js(e[2]) + " " + e[1] + " " + js(e[3]) + ")"
    if t == "get":
        return '$get("%s")' % e[1]
    raise ValueError(e)


def ev(e, env):
    """python reference evaluation (used by generators to steer, never as an oracle)"""
    t = e[0]
    if t == "lit":
        return e[1]
    if t == "var":
        return env[e[1]]
    if t == "not":
        return not ev(e[1], env)
    if t == "bin":
        a, b = ev(e[2], env), ev(e[3], env)
        return {"==": a == b, "!=": a != b, "<": a < b, "<=": a <= b, ">": a > b, ">=": a >= b,
                "&&": a and b, "||": a or b, "+": a + b}[e[1]]
    raise ValueError(e)


def gen_cond(rng, vars_=("x", "y"), depth=1):
    k = rng.below(10)
    if depth > 0 and k < 2:
        return ["bin", rng.pick(["&&", "||"]), gen_cond(rng, vars_, depth - 1), gen_cond(rng, vars_, depth - 1)]
    if depth > 0 and k == 2:
        return ["not", gen_cond(rng, vars_, depth - 1)]
    op = rng.pick(["==", "!=", "<", "<=", ">", ">="])
    a = ["var", rng.pick(list(vars_))]
    if rng.chance(1, 3):
        b = ["var", rng.pick(list(vars_))]
    else:
        b = ["lit", rng.below(4)]
    if rng.chance(1, 6):
        a = ["bin", "+", a, ["lit", rng.below(3)]]
    return ["bin", op, a, b]


# ------------------------------------------------------------------ workflows

class WfGen:
    """control-flow workflows: steps, acts (irq/msg/set), branches with if/else/needs, conditional steps and acts"""

    def __init__(self, rng, depth=2, max_steps=3, max_branches=3, max_acts=3, p_branches=35, p_if=25,
                 act_kinds=((IRQ, 6), (MSG, 2)), else_pos="any", needs=True, vars_=("x", "y"),
                 catches=False, empty_branch=True, two_else=False, mixed=False):
        self.rng = rng
        self.depth = depth
        self.max_steps = max_steps
        self.max_branches = max_branches
        self.max_acts = max_acts
        self.p_branches = p_branches
        self.p_if = p_if
        self.act_kinds = list(act_kinds)
        self.else_pos = else_pos
        self.needs = needs
        self.vars = vars_
        self.exprs = {}
        self.n = {"s": 0, "b": 0, "a": 0}
        self.features = set()
        self.empty_branch = empty_branch
        self.two_else = two_else
        self.mixed = mixed
        self.catches = catches
        self.catch_depth = 0

    def fresh(self, k):
        self.n[k] += 1
        return f"{k}{self.n[k]}"

    def cond(self):
        e = gen_cond(self.rng, self.vars)
        text = js(e)
        self.exprs[text] = e
        return text

    def act(self):
        uses = self.rng.weighted(self.act_kinds)
        a = {"id": self.fresh("a"), "uses": uses}
        if uses in (IRQ, MSG):
            a["key"] = "k" + a["id"]
        if uses == SET:
            a["params"] = {"v" + a["id"]: self.rng.below(5)}
        if self.rng.chance(self.p_if, 100):
            a["if"] = self.cond()
            self.features.add("act-if")
        if self.catches and self.catch_depth < 2 and self.rng.chance(1, 4):
            a["catches"] = self.catch_list()
        return a

    def catch_list(self):
        self.catch_depth += 1
        out = []
        for _ in range(self.rng.range(1, 3)):
            c = {}
            on = self.rng.pick([None, "e1", "e2", "e1", "e3"])
            if on:
                c["on"] = on
            n = self.rng.weighted([(0, 1), (1, 4), (2, 1)])
            c["steps"] = [{"id": self.fresh("s"), "acts": [self.plain_act() for _ in range(self.rng.range(1, 2))]} for _ in range(n)]
            out.append(c)
        self.features.add("catch")
        self.catch_depth -= 1
        return out

    def plain_act(self):
        uses = self.rng.weighted([(IRQ, 2), (MSG, 3)])
        a = {"id": self.fresh("a"), "uses": uses, "key": "kc"}
        a["key"] = "k" + a["id"]
        if self.catches and self.catch_depth < 2 and self.rng.chance(1, 6):
            a["catches"] = self.catch_list()
        return a

    def step(self, depth):
        s = {"id": self.fresh("s")}
        if self.rng.chance(self.p_if, 100):
            s["if"] = self.cond()
            self.features.add("step-if")
        if self.catches and self.catch_depth < 2 and self.rng.chance(1, 5):
            s["catches"] = self.catch_list()
        use_br = depth > 0 and self.rng.chance(self.p_branches, 100)
        if use_br:
            s["branches"] = self.branches(depth - 1)
            self.features.add("branches")
            if self.mixed and self.rng.chance(1, 3):
                s["acts"] = [self.act() for _ in range(self.rng.range(1, 2))]
                self.features.add("mixed")
        else:
            s["acts"] = [self.act() for _ in range(self.rng.range(0 if self.rng.chance(1, 8) else 1, self.max_acts))]
        return s

    def steps(self, depth, lo=1):
        return [self.step(depth) for _ in range(self.rng.range(lo, self.max_steps))]

    def branches(self, depth):
        n = self.rng.range(1, self.max_branches)
        brs = []
        for _ in range(n):
            b = {"id": self.fresh("b"), "if": self.cond()}
            lo = 0 if (self.empty_branch and self.rng.chance(1, 8)) else 1
            b["steps"] = self.steps(depth, lo) if lo else []
            brs.append(b)
        # else branch
        if n >= 1 and self.rng.chance(1, 2):
            i = {"first": 0, "last": n - 1}.get(self.else_pos, self.rng.below(n))
            b = brs[i]
            b.pop("if", None)
            b["else"] = True
            self.features.add("else")
            if i == n - 1 and n > 1:
                self.features.add("else-last")
            if self.two_else and n >= 2 and self.rng.chance(1, 4):
                j = (i + 1) % n
                brs[j].pop("if", None)
                brs[j]["else"] = True
                self.features.add("two-else")
        # needs
        if self.needs and n >= 2 and self.rng.chance(1, 3):
            i = self.rng.below(n)
            if not brs[i].get("else"):
                others = [b["id"] for j, b in enumerate(brs) if j != i and not b.get("needs") and (self.needs != "cond" or b.get("if"))]
                if others:
                    brs[i].pop("if", None)
                    k = self.rng.range(1, min(2, len(others)))
                    brs[i]["needs"] = self.rng.shuffle(others)[:k]
                    self.features.add("needs")
        return brs

    def workflow(self, mid="m1"):
        w = {"id": mid, "steps": self.steps(self.depth)}
        return w


def count_nodes(w):
    n = 0
    stack = [w]
    while stack:
        x = stack.pop()
        if isinstance(x, dict):
            if "id" in x:
                n += 1
            stack.extend(x.values())
        elif isinstance(x, list):
            stack.extend(x)
    return n


def all_ids(w, kind=None):
    out = []

    def walk_steps(steps):
        for s in steps:
            if kind in (None, "step"):
                out.append(s["id"])
            for b in s.get("branches", []):
                if kind in (None, "branch"):
                    out.append(b["id"])
                walk_steps(b.get("steps", []))
            for a in s.get("acts", []):
                if kind in (None, "act"):
                    out.append(a["id"])
                for c in a.get("catches", []):
                    walk_steps(c.get("steps", []))
                for c in a.get("timeout", []):
                    walk_steps(c.get("steps", []))
            for c in s.get("catches", []):
                walk_steps(c.get("steps", []))
            for c in s.get("timeout", []):
                walk_steps(c.get("steps", []))
    walk_steps(w.get("steps", []))
    return out


# ------------------------------------------------------------------ histories

ACTIONS = ["next", "submit", "back", "cancel", "abort", "skip", "error", "push", "remove", "set_process_vars"]


def answer_all_ops(rng, pid="p1", rounds=12, policy=None):
    """answer every open irq with `next` until nothing is open (rounds bounds the history)"""
    ops = []
    for _ in range(rounds):
        ops.append(["runall"] if policy is None else ["runall", policy, rng.below(1 << 30)])
        ops.append(["act", "next", pid, {"open": rng.below(4)}, {}])
    ops.append(["runall"] if policy is None else ["runall", policy, rng.below(1 << 30)])
    return ops


def random_history(rng, pid="p1", n=10, actions=None, stepped_p=30, opts_fn=None):
    """mixed valid/invalid actions against open / terminal / arbitrary tasks, with partial queue releases"""
    actions = actions or ACTIONS
    ops = []
    for _ in range(n):
        r = rng.below(100)
        if r < stepped_p:
            ops.append(["run", rng.below(4)])
            continue
        if r < stepped_p + 15:
            ops.append(["runall", rng.pick(["fifo", "lifo", "rand"]), rng.below(1 << 30)])
            continue
        ev = rng.pick(actions)
        cls = rng.weighted([("open", 6), ("term", 2), ("any", 2), ("acts", 1)])
        tref = {cls: rng.below(5)}
        if rng.chance(1, 25):
            tref = "nosuchtask"
        opts = opts_fn(rng, ev) if opts_fn else default_opts(rng, ev)
        ops.append(["act", ev, pid if not rng.chance(1, 40) else "nopid", tref, opts])
    ops.append(["runall"])
    return ops


def default_opts(rng, ev):
    if ev == "error":
        return {"ecode": rng.pick(["e1", "e2", "e3"]), "message": "boom"} if not rng.chance(1, 10) else {}
    if ev == "back":
        return {"to": "s" + str(rng.range(1, 3))} if not rng.chance(1, 10) else {}
    if ev == "push":
        return {"uses": rng.pick([IRQ, MSG]), "key": "pushed"} if not rng.chance(1, 8) else {}
    if ev == "set_process_vars":
        return {"pv": rng.below(9)}
    return {}
