import ActsModel.Model.Timeout
import ActsModel.Lemmas.Timeout

/-!
# C19 — Timeout rules fire once, never early, and only for open tasks
Every theorem quantifies over all rule lists, all start times and all event sequences with
arbitrary (not even monotone) clocks.
-/
namespace Acts.C19
open Acts.Gen Acts.Tmo

/-- K1: the comparison and the constants read from the source -/
theorem source_constants : timeoutFiresAtEqual = true ∧ timeoutMillisPerSec = 1000 ∧ tickVisitsOnlyOpen = true ∧
    TimeoutUnit.secs .second = 1 ∧ TimeoutUnit.secs .minute = 60 ∧ TimeoutUnit.secs .hour = 3600 ∧
    TimeoutUnit.secs .day = 86400 ∧ timeoutRegexUnits = ['s', 'm', 'h', 'd'] := by decide

/-- K1: the unit letters -/
theorem unit_letters : TimeoutUnit.ofChar 's' = some .second ∧ TimeoutUnit.ofChar 'm' = some .minute ∧
    TimeoutUnit.ofChar 'h' = some .hour ∧ TimeoutUnit.ofChar 'd' = some .day ∧
    ∀ c, c ∉ timeoutRegexUnits → TimeoutUnit.ofChar c = none := by
  refine ⟨by decide, by decide, by decide, by decide, ?_⟩
  intro c hc
  simp [timeoutRegexUnits] at hc
  simp [TimeoutUnit.ofChar, hc]

theorem due_iff (t : Timed) (now : Int) (r : Rule) : due t now r = true ↔ now - t.start ≥ r.secs * 1000 := by
  simp [due, timeoutFiresAtEqual, timeoutMillisPerSec]

-- ------------------------------------------------------------------ one tick

theorem tickRules_start (now : Int) (rs : List Rule) : ∀ t, (tickRules now t rs).1.start = t.start ∧
    (tickRules now t rs).1.isOpen = t.isOpen := by
  induction rs with
  | nil => intro t; simp [tickRules]
  | cons r rs ih =>
    intro t; unfold tickRules
    split
    · exact ih t
    · split
      · have := ih { t with fired := r.on :: t.fired }; simpa using this
      · exact ih t

/-- never early: a rule that fires at a tick has been open for its whole duration -/
theorem tick_never_early (now : Int) (rs : List Rule) : ∀ t, ∀ k ∈ (tickRules now t rs).2,
    ∃ r ∈ rs, r.on = k ∧ now - t.start ≥ r.secs * 1000 := by
  induction rs with
  | nil => intro t k hk; simp [tickRules] at hk
  | cons r rs ih =>
    intro t k hk
    unfold tickRules at hk
    split at hk
    · obtain ⟨r', hr', h⟩ := ih t k hk; exact ⟨r', List.mem_cons_of_mem _ hr', h⟩
    · split at hk
      · rename_i hdue
        rcases List.mem_cons.mp hk with rfl | hk'
        · exact ⟨r, List.mem_cons_self .., rfl, (due_iff t now r).mp hdue⟩
        · obtain ⟨r', hr', h⟩ := ih _ k hk'; exact ⟨r', List.mem_cons_of_mem _ hr', by simpa using h⟩
      · obtain ⟨r', hr', h⟩ := ih t k hk; exact ⟨r', List.mem_cons_of_mem _ hr', h⟩

/-- a key fired in this tick was not flagged before, and is flagged afterwards; flags are never cleared -/
theorem tick_flags (now : Int) (rs : List Rule) : ∀ t,
    (∀ k ∈ (tickRules now t rs).2, k ∉ t.fired ∧ k ∈ (tickRules now t rs).1.fired) ∧
    (∀ k ∈ t.fired, k ∈ (tickRules now t rs).1.fired) ∧ ((tickRules now t rs).2).Nodup := by
  induction rs with
  | nil => intro t; simp [tickRules]
  | cons r rs ih =>
    intro t
    unfold tickRules
    split
    · exact ih t
    · rename_i hnf
      have hnf' : r.on ∉ t.fired := by simpa using hnf
      split
      · obtain ⟨h1, h2, h3⟩ := ih { t with fired := r.on :: t.fired }
        refine ⟨?_, ?_, ?_⟩
        · intro k hk
          rcases List.mem_cons.mp hk with rfl | hk'
          · exact ⟨hnf', h2 _ (List.mem_cons_self ..)⟩
          · have := h1 k hk'
            exact ⟨fun hc => this.1 (List.mem_cons_of_mem _ hc), this.2⟩
        · intro k hk; exact h2 k (List.mem_cons_of_mem _ hk)
        · refine List.nodup_cons.mpr ⟨?_, h3⟩
          intro hc; exact (h1 _ hc).1 (List.mem_cons_self ..)
      · exact ih t

/-- no later than the first tick after the limit: an unflagged due rule fires (or another rule with the same key does) -/
theorem tick_fires_due (now : Int) (rs : List Rule) : ∀ t, ∀ r ∈ rs, r.on ∉ t.fired → now - t.start ≥ r.secs * 1000 →
    r.on ∈ (tickRules now t rs).2 := by
  induction rs with
  | nil => intro t r hr; cases hr
  | cons x xs ih =>
    intro t r hr hnf hdue
    unfold tickRules
    rcases List.mem_cons.mp hr with rfl | hr'
    · simp [hnf, (due_iff t now r).mpr hdue]
    · split
      · exact ih t r hr' hnf hdue
      · split
        · by_cases hk : r.on = x.on
          · rw [hk]; exact List.mem_cons_self ..
          · refine List.mem_cons_of_mem _ (ih _ r hr' ?_ (by simpa using hdue))
            simp only [List.mem_cons, not_or]; exact ⟨hk, hnf⟩
        · exact ih t r hr' hnf hdue

-- ------------------------------------------------------------------ whole histories

theorem step_tick (rules : List Rule) (t : Timed) (now : Int) :
    step rules t (.tick now) = if t.isOpen = true then tickRules now t rules else (t, []) := by
  simp [step, tickVisitsOnlyOpen]

theorem step_start (rules : List Rule) (t : Timed) (e : Ev) : (step rules t e).1.start = t.start := by
  cases e with
  | tick now =>
    rw [step_tick]; split
    · exact (tickRules_start now rules t).1
    · rfl
  | close => rfl

/-- **never early**, for every history: each firing `(key, now)` belongs to a rule whose duration had elapsed at `now` -/
theorem never_early (rules : List Rule) (es : List Ev) : ∀ t, ∀ f ∈ (run rules t es).2,
    ∃ r ∈ rules, r.on = f.1 ∧ f.2 - t.start ≥ r.secs * 1000 := by
  induction es with
  | nil => intro t f hf; simp [run] at hf
  | cons e es ih =>
    intro t f hf
    simp only [run, List.mem_append, List.mem_map] at hf
    rcases hf with ⟨k, hk, rfl⟩ | hf
    · cases e with
      | tick now =>
        rw [step_tick] at hk
        split at hk
        · exact tick_never_early now rules t k hk
        · cases hk
      | close => simp [step] at hk
    · obtain ⟨r, hr, h1, h2⟩ := ih _ f hf
      exact ⟨r, hr, h1, by rw [step_start] at h2; exact h2⟩

theorem step_flags_mono (rules : List Rule) (t : Timed) (e : Ev) : ∀ k ∈ t.fired, k ∈ (step rules t e).1.fired := by
  intro k hk
  cases e with
  | tick now =>
    rw [step_tick]; split
    · exact (tick_flags now rules t).2.1 k hk
    · exact hk
  | close => exact hk

/-- **at most once** per task instance and rule key, for every history (the list of fired keys has no duplicates) -/
theorem at_most_once (rules : List Rule) (es : List Ev) : ∀ t,
    ((run rules t es).2.map (·.1)).Nodup ∧ ∀ f ∈ (run rules t es).2, f.1 ∉ t.fired := by
  induction es with
  | nil => intro t; simp [run]
  | cons e es ih =>
    intro t
    obtain ⟨ih1, ih2⟩ := ih (step rules t e).1
    have hstep : (∀ k ∈ (step rules t e).2, k ∉ t.fired ∧ k ∈ (step rules t e).1.fired) ∧ ((step rules t e).2).Nodup := by
      cases e with
      | tick now =>
        rw [step_tick]; split
        · exact ⟨(tick_flags now rules t).1, (tick_flags now rules t).2.2⟩
        · simp
      | close => simp [step]
    constructor
    · simp only [run, List.map_append, List.map_map]
      rw [List.nodup_append]
      refine ⟨?_, ih1, ?_⟩
      · have : ∀ (n : Int), ((fun x : String × Int => x.1) ∘ fun k => (k, n)) = id := by
          intro n; funext k; rfl
        rw [this, List.map_id]; exact hstep.2
      · intro a ha b hb hab
        subst hab
        simp only [List.mem_map, Function.comp] at ha
        obtain ⟨k, hk, rfl⟩ := ha
        obtain ⟨f, hf, hfk⟩ := List.mem_map.mp hb
        exact ih2 f hf (hfk ▸ (hstep.1 k hk).2)
    · intro f hf
      simp only [run, List.mem_append, List.mem_map] at hf
      rcases hf with ⟨k, hk, rfl⟩ | hf
      · exact (hstep.1 k hk).1
      · intro hc; exact ih2 f hf (step_flags_mono rules t e _ hc)

/-- **only for open tasks**: once the task has reached a terminal state no rule fires any more -/
theorem not_after_terminal (rules : List Rule) (es : List Ev) : ∀ t, t.isOpen = false → (run rules t es).2 = [] := by
  induction es with
  | nil => intro t _; rfl
  | cons e es ih =>
    intro t ht
    have h1 : (step rules t e).2 = [] ∧ (step rules t e).1.isOpen = false := by
      cases e with
      | tick now => simp [step, ht, tickVisitsOnlyOpen]
      | close => simp [step]
    simp [run, h1.1, ih _ h1.2]

/-- in particular a task that ends before its limit never triggers the rule -/
theorem closed_before_limit_never_fires (rules : List Rule) (t : Timed) (es : List Ev) :
    (run rules t (.close :: es)).2 = [] := by
  simp [run, step, not_after_terminal rules es { t with isOpen := false } rfl]

/-- **firing does not close the task** -/
theorem firing_keeps_open (rules : List Rule) (t : Timed) (now : Int) : (step rules t (.tick now)).1.isOpen = t.isOpen := by
  rw [step_tick]; split
  · exact (tickRules_start now rules t).2
  · rfl

/-- **within one tick**: the first tick at or after the limit fires the rule of an open task -/
theorem within_one_tick (rules : List Rule) (t : Timed) (r : Rule) (hr : r ∈ rules) (ho : t.isOpen = true)
    (hnf : r.on ∉ t.fired) (now : Int) (hdue : now - t.start ≥ r.secs * 1000) : r.on ∈ (step rules t (.tick now)).2 := by
  rw [step_tick]; simp only [ho, ↓reduceIte]
  exact tick_fires_due now rules t r hr hnf hdue

-- ------------------------------------------------------------------ the monitor accepts every model history

theorem hasDup_false_of_nodup (ks : List String) (h : ks.Nodup) : hasDup ks = false := by
  induction ks with
  | nil => rfl
  | cons k ks ih =>
    obtain ⟨h1, h2⟩ := List.nodup_cons.mp h
    simp [hasDup, ih h2, h1]

theorem tick_fired_subset (now : Int) (rs : List Rule) : ∀ t, ∀ k ∈ (tickRules now t rs).1.fired,
    k ∈ t.fired ∨ k ∈ (tickRules now t rs).2 := by
  induction rs with
  | nil => intro t k hk; exact Or.inl hk
  | cons r rs ih =>
    intro t k hk
    unfold tickRules at hk ⊢
    split
    · rename_i h; simp only [h, ↓reduceIte] at hk; exact ih t k hk
    · rename_i h; simp only [h, Bool.false_eq_true, ↓reduceIte] at hk
      split
      · rename_i hd; simp only [hd, ↓reduceIte] at hk
        rcases ih _ k hk with h1 | h1
        · rcases List.mem_cons.mp h1 with rfl | h2
          · exact Or.inr (List.mem_cons_self ..)
          · exact Or.inl h2
        · exact Or.inr (List.mem_cons_of_mem _ h1)
      · rename_i hd; simp only [hd, Bool.false_eq_true, ↓reduceIte] at hk; exact ih t k hk

/-- **the specification monitor accepts every history of the model**: what the driver evaluates on the engine's
observations is a predicate every run of the model satisfies, for all rules, start times, clocks and histories -/
theorem monitor_accepts_model (rules : List Rule) (es : List Ev) : ∀ (t : Timed) (m : Mon) (i : Nat),
    m.isOpen = t.isOpen → (∀ k, k ∈ m.fired ↔ k ∈ t.fired) →
    monitor rules t.start m i (obsOfRun rules t es) = none := by
  induction es with
  | nil => intro t m i _ _; rfl
  | cons e es ih =>
    intro t m i ho hf
    cases e with
    | close =>
      simp only [obsOfRun, monitor, step, List.isEmpty_nil, Bool.not_true, Bool.false_eq_true, ↓reduceIte]
      exact ih { t with isOpen := false } { m with isOpen := false } (i + 1) rfl hf
    | tick now =>
      simp only [obsOfRun]
      rw [step_tick]
      by_cases hopen : t.isOpen = true
      · simp only [hopen, ↓reduceIte]
        have hmo : m.isOpen = true := by rw [ho]; exact hopen
        obtain ⟨hfl1, hfl2, hfl3⟩ := tick_flags now rules t
        unfold monitor
        have c1 : (!m.isOpen && !(tickRules now t rules).2.isEmpty) = false := by simp [hmo]
        have c2 : ((tickRules now t rules).2.any fun k => m.fired.contains k) = false := by
          rw [Bool.eq_false_iff]; intro hc
          obtain ⟨k, hk, hkm⟩ := List.any_eq_true.mp hc
          exact (hfl1 k hk).1 ((hf k).mp (by simpa using hkm))
        have c3 : hasDup (tickRules now t rules).2 = false := hasDup_false_of_nodup _ hfl3
        have c4 : ((tickRules now t rules).2.any fun k =>
            !(rules.any fun r => r.on == k && decide (now - t.start ≥ r.secs * 1000))) = false := by
          rw [Bool.eq_false_iff]; intro hc
          obtain ⟨k, hk, hkn⟩ := List.any_eq_true.mp hc
          obtain ⟨r, hr, h1, h2⟩ := tick_never_early now rules t k hk
          have : (rules.any fun r => r.on == k && decide (now - t.start ≥ r.secs * 1000)) = true :=
            List.any_eq_true.mpr ⟨r, hr, by simp [h1, h2]⟩
          simp [this] at hkn
        have c5 : (m.isOpen && rules.any (fun r => !m.fired.contains r.on && decide (now - t.start ≥ r.secs * 1000)
            && !(tickRules now t rules).2.contains r.on)) = false := by
          rw [Bool.eq_false_iff]; intro hc
          simp only [Bool.and_eq_true, List.any_eq_true, Bool.not_eq_true', decide_eq_true_eq] at hc
          obtain ⟨_, r, hr, ⟨hnf, hdue⟩, hnot⟩ := hc
          have hnf' : r.on ∉ t.fired := by
            intro h; have := (hf r.on).mpr h; simp [this] at hnf
          have := tick_fires_due now rules t r hr hnf' hdue
          simp [this] at hnot
        simp only [c1, c2, c3, c4, c5, Bool.false_eq_true, ↓reduceIte]
        have hstart : (tickRules now t rules).1.start = t.start := (tickRules_start now rules t).1
        rw [← hstart]
        apply ih
        · simp [(tickRules_start now rules t).2, hmo, hopen]
        · intro k
          simp only [List.mem_append]
          constructor
          · rintro (h | h)
            · exact (hfl1 k h).2
            · exact hfl2 k ((hf k).mp h)
          · intro h
            rcases tick_fired_subset now rules t k h with h1 | h1
            · exact Or.inr ((hf k).mpr h1)
            · exact Or.inl h1
      · have hopen' : t.isOpen = false := by simpa using hopen
        have hmo : m.isOpen = false := by rw [ho]; exact hopen'
        simp only [hopen', Bool.false_eq_true, ↓reduceIte]
        unfold monitor
        simp only [hmo, List.isEmpty_nil, Bool.not_true, Bool.and_false, Bool.false_eq_true, ↓reduceIte, List.any_nil,
          hasDup, Bool.false_and, List.nil_append]
        exact ih _ _ _ (by simp [hmo, hopen']) hf

/-- **what an accepted history guarantees** (K3, every observed history, any clocks): if the specification monitor accepts the
observations of a task that starts open with no rule fired, then over the whole history (a) no rule key fires twice, (b) every firing
happens at a tick at which a rule with that key has reached its limit (`now - start ≥ secs·1000`: never early), and (c) nothing fires at
the event that closes the task or at any later event. This is the soundness direction of the run-time verdict; `monitor_accepts_model`
is the other direction. -/
theorem accepted_history_sound (rules : List Rule) (start : Int) (obs : List ObsEv)
    (h : monitor rules start ⟨true, []⟩ 0 obs = none) :
    (firings obs).Nodup ∧
    (∀ e fs, (e, fs) ∈ obs → ∀ k ∈ fs, ∃ now, e = .tick now ∧ ∃ r ∈ rules, r.on = k ∧ now - start ≥ r.secs * 1000) ∧
    (∀ pre fs0 post, obs = pre ++ (.close, fs0) :: post → fs0 = [] ∧ firings post = []) := by
  refine ⟨(monitor_once rules start obs _ _ h List.nodup_nil).1, monitor_never_early rules start obs _ _ h, ?_⟩
  intro pre fs0 post heq
  subst heq
  exact monitor_silent_after_close rules start pre _ _ fs0 post h

/-- **a due rule of an open task fires at the next tick** (K3): at every tick of an accepted history at which the task is still open,
every rule that has reached its limit and has not fired before is among the firings of that tick -/
theorem accepted_fires_within_one_tick (rules : List Rule) (start : Int) (m : Mon) (i : Nat) (now : Int) (fs : List String)
    (rest : List ObsEv) (h : monitor rules start m i ((.tick now, fs) :: rest) = none) (ho : m.isOpen = true) :
    ∀ r ∈ rules, r.on ∉ m.fired → now - start ≥ r.secs * 1000 → r.on ∈ fs :=
  (monitor_tick_pass rules start m i now fs rest h).1.withinOneTick ho

/-- non-vacuity of the two theorems above: an accepted history with a firing, and a rejected one that fires early -/
example : monitor [⟨"2s", 2⟩, ⟨"5s", 5⟩] 1000 ⟨true, []⟩ 0 [(.tick 2999, []), (.tick 3000, ["2s"]), (.close, []), (.tick 9000, [])] = none := by
  decide
example : monitor [⟨"2s", 2⟩] 1000 ⟨true, []⟩ 0 [(.tick 2999, ["2s"])] = some (0, "fires-early") := by decide

/-- duration parsing on samples (tests of the transcription, not the unbounded claim) -/
example : parseLimit "2s".toList = some (2, .second) ∧ parseLimit "15m".toList = some (15, .minute) ∧
    parseLimit "1h".toList = some (1, .hour) ∧ parseLimit "3d".toList = some (3, .day) ∧ parseLimit "s".toList = none ∧
    parseLimit "5".toList = none ∧ parseLimit "1.5s".toList = none ∧ parseLimit "".toList = none ∧
    asSecs (2, .hour) = 7200 := by decide

/-- non-vacuity: two rules, ticks before / at / after the limits, the task is answered after the first rule fired -/
example : (run [⟨"2s", 2⟩, ⟨"5s", 5⟩] ⟨1000, true, []⟩ [.tick 2999, .tick 3000, .tick 3001, .close, .tick 9000]).2 = [("2s", 3000)] := by
  decide

end Acts.C19
