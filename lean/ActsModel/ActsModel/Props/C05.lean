import ActsModel.Model.Admit
import ActsModel.Spec.Lifecycle

/-!
# C05 — Client actions: admission rules and at-most-once effect
-/
namespace Acts.C05
open Acts.Gen Acts.Admit Acts.Spec

/-- the admission predicate of the property text -/
def Admissible (a : EventAction) (t : Target) : Prop :=
  t.procLive = true ∧ t.taskExists = true ∧ t.kind = (if a = .push then .step else .act) ∧
  t.outputsSatisfied = true ∧ (a ∈ [.next, .submit, .skip, .remove, .abort, .error, .back] → stage t.state ≠ 3)

/-- K1 (kind rule and guard table from the source): an action is handed to its arm only if it is admissible -/
theorem admission_sound (a : EventAction) (t : Target) (h : admission a t = none) : Admissible a t := by
  unfold admission at h
  obtain ⟨pl, te, k, st, os⟩ := t
  cases pl <;> cases te <;> cases os <;> cases a <;> cases k <;> cases st <;> simp_all [Admissible, requiredKind, guardedArm, stage, TaskState.isCompleted]

/-- K1: and every admissible terminal action is handed to its arm (nothing else is checked before the arm) -/
theorem admission_complete (a : EventAction) (t : Target) (h : Admissible a t)
    (hterm : a ∈ [.next, .submit, .skip, .remove, .abort, .error, .back]) : admission a t = none := by
  unfold admission
  obtain ⟨pl, te, k, st, os⟩ := t
  obtain ⟨h1, h2, h3, h4, h5⟩ := h
  simp only at h1 h2 h3 h4 h5
  subst h1 h2 h4
  have h5' := h5 hterm
  cases a <;> cases k <;> cases st <;> simp_all [requiredKind, guardedArm, stage, TaskState.isCompleted]

/-- K1: **once an act is terminal every one of the seven actions on it is rejected** -/
theorem terminal_rejects (a : EventAction) (ha : a ∈ [.next, .submit, .skip, .remove, .abort, .error, .back])
    (t : Target) (hl : t.procLive = true) (he : t.taskExists = true) (hk : t.kind = .act) (ho : t.outputsSatisfied = true)
    (hs : stage t.state = 3) : admission a t = some .alreadyCompleted := by
  unfold admission
  obtain ⟨pl, te, k, st, os⟩ := t
  simp only at hl he hk ho hs
  subst hl he hk ho
  cases a <;> cases st <;> simp_all [requiredKind, guardedArm, stage, TaskState.isCompleted]

/-- the rejection reasons are reported in the order lookup, kind, outputs, state -/
theorem reject_order (a : EventAction) (t : Target) :
    (t.procLive = false → admission a t = some .noProcess) ∧
    (t.procLive = true → t.taskExists = false → admission a t = some .noTask) ∧
    (t.procLive = true → t.taskExists = true → t.kind ≠ requiredKind a → admission a t = some .wrongKind) := by
  unfold admission
  refine ⟨fun h => by simp [h], fun h1 h2 => by simp [h1, h2], fun h1 h2 h3 => ?_⟩
  simp [h1, h2, h3]

/-- K1: the admission checks precede the call of `update`, and every guarded arm returns before its first write
(`guardedArm` is computed as "the early return precedes the first mutating call of the arm") -/
theorem checks_precede_writes : admissionOrder = ["task", "kind", "outputs"] ∧
    ∀ a ∈ [EventAction.next, .submit, .skip, .remove, .abort, .error, .back], guardedArm a = true := by decide

-- ------------------------------------------------------------------ at-most-once

theorem serial_closed_rejects (w : TaskState) (cs : List Nat) : ∀ (r : Race), r.state.isCompleted = true → r.passed = [] →
    (raceRun w r (serial cs)).accepted = r.accepted := by
  induction cs with
  | nil => intro r _ _; simp [raceRun, serial]
  | cons d ds ih =>
    intro r hr hp
    have h1 : raceStep w r (.guard d) = r := by simp [raceStep, hr]
    have h2 : raceStep w r (.effect d) = r := by simp [raceStep, hp]
    simp only [raceRun, serial, List.flatMap_cons, List.foldl_append, List.foldl_cons, List.foldl_nil] at ih ⊢
    rw [h1, h2]
    exact ih r hr hp

/-- **serial clients (guard and effect not interleaved): exactly one of n identical terminal actions on an open act is
accepted — the first — whatever the number of clients** (`w` is the terminal state the arm writes) -/
theorem serial_exactly_one (w : TaskState) (hw : w.isCompleted = true) (s0 : TaskState) (h0 : s0.isCompleted = false)
    (c : Nat) (cs : List Nat) :
    (raceRun w ⟨s0, [], []⟩ (serial (c :: cs))).accepted = [c] := by
  have hfirst : raceStep w (raceStep w ⟨s0, [], []⟩ (.guard c)) (.effect c) = ⟨w, [], [c]⟩ := by
    simp [raceStep, h0]
  have := serial_closed_rejects w cs ⟨w, [], [c]⟩ hw rfl
  simp only [raceRun, serial, List.flatMap_cons, List.foldl_append, List.foldl_cons, List.foldl_nil] at this ⊢
  rw [hfirst]
  exact this

/-- K1 (`Process::do_action` read from the source on this run): the guard and the effect of one client action are one critical section
of the process — the lock is taken unconditionally, bound to a name, before the task is looked up, for every action kind. This is the
hypothesis "serial" of `serial_exactly_one`; without it `interleaved_two_succeed` applies. -/
theorem actions_serialised : actionSerialised = true := by decide

/-- W: the model-level reason the clause needs the lock (the defect repaired by `089e2ab`) — without it the interleaving
guard₁ guard₂ effect₁ effect₂ accepts both clients -/
theorem interleaved_two_succeed :
    (raceRun .completed ⟨.interrupt, [], []⟩ [.guard 1, .guard 2, .effect 1, .effect 2]).accepted = [2, 1] := by decide

end Acts.C05
