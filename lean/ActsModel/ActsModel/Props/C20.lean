import ActsModel.Lemmas.Tree
import ActsModel.Model.Deploy

/-!
# C20 — Models survive serialisation; deployment and tree building are faithful
The tree theorems quantify over every workflow (any nesting of steps, branches, acts, catches and
timeouts), by mutual structural induction over the AST.
-/
namespace Acts.C20
open Acts Acts.Tree

/-- every id the builder is going to register, in visiting order: the `on` events, the workflow, then the steps -/
def declaredIds (w : Workflow) : List String := w.on.map (·.id) ++ w.id :: idsSteps w.steps

theorem buildEvents_check (evs : List Act) (hne : ∀ a ∈ evs, a.id.isEmpty = false) : ∀ built,
    sndOf (buildEvents built evs) = checkIds built (evs.map (·.id)) ∧
    ∀ n b, buildEvents built evs = .ok (n, b) → n.map (·.id) = evs.map (·.id) := by
  induction evs with
  | nil => intro built; simp [buildEvents, checkIds, sndOf]
  | cons a rest ih =>
    intro built
    have ha := hne a (List.mem_cons_self ..)
    obtain ⟨ih1, ih2⟩ := ih (fun x hx => hne x (List.mem_cons_of_mem _ hx)) (built ++ [a.id])
    simp only [buildEvents, ha, Bool.false_eq_true, ↓reduceIte, List.map_cons, checkIds]
    by_cases hc : built.contains a.id = true
    · have hm : a.id ∈ built := by simpa using hc
      simp [hm, sndOf]
    · simp only [hc, Bool.false_eq_true, ↓reduceIte]
      rw [← ih1]
      cases hbe : buildEvents (built ++ [a.id]) rest with
      | error e => simp [sndOf]
      | ok p =>
        obtain ⟨rn, b⟩ := p
        refine ⟨by simp [sndOf], ?_⟩
        intro n b' h; simp at h; obtain ⟨rfl, rfl⟩ := h
        simp [ih2 rn b hbe]

/-- **every declared step, branch and act exactly once, in declaration order**: a successful build returns one node per
declared element, with the ids in the order of declaration (pre-order) -/
theorem nodes_exactly_once (w : Workflow) (hne : ∀ a ∈ w.on, a.id.isEmpty = false) (nodes : List Node)
    (h : build w = .ok nodes) : nodes.map (·.id) = declaredIds w := by
  unfold build at h
  cases hbe : buildEvents [] w.on with
  | error e => simp [hbe] at h
  | ok p =>
    obtain ⟨en, built0⟩ := p
    have hev := (buildEvents_check w.on hne []).2 en built0 hbe
    simp only [hbe] at h
    split at h
    · cases h
    · cases hbs : buildSteps w.id 1 true none (built0 ++ [w.id]) w.steps with
      | error e => simp [hbs] at h
      | ok q =>
        obtain ⟨sn, b⟩ := q
        simp only [hbs] at h
        cases h
        obtain ⟨h1, _⟩ := buildSteps_ids w.id 1 true none (built0 ++ [w.id]) w.steps sn b hbs
        simp [declaredIds, hev, h1]

/-- on the bookkeeping side the whole build is the id check of the declared ids -/
theorem build_isOk_iff_check (w : Workflow) (hne : ∀ a ∈ w.on, a.id.isEmpty = false) :
    (∃ nodes, build w = .ok nodes) ↔ (∃ b, checkIds [] (declaredIds w) = .ok b) := by
  unfold build declaredIds
  rw [checkIds_append, ← (buildEvents_check w.on hne []).1]
  cases hbe : buildEvents [] w.on with
  | error e => simp [sndOf, bindB]
  | ok p =>
    obtain ⟨en, built0⟩ := p
    simp only [sndOf, bindB, checkIds]
    by_cases hc : built0.contains w.id = true
    · have hm : w.id ∈ built0 := by simpa using hc
      simp [hm]
    · simp only [hc, Bool.false_eq_true, ↓reduceIte]
      rw [← buildSteps_check w.id 1 true none (built0 ++ [w.id]) w.steps]
      cases hbs : buildSteps w.id 1 true none (built0 ++ [w.id]) w.steps with
      | error e => simp [sndOf]
      | ok q => obtain ⟨sn, b⟩ := q; simp [sndOf]

/-- **duplicate ids are rejected, and nothing else is**: the build succeeds exactly when no declared id repeats -/
theorem build_ok_iff_nodup (w : Workflow) (hne : ∀ a ∈ w.on, a.id.isEmpty = false) :
    (∃ nodes, build w = .ok nodes) ↔ (declaredIds w).Nodup := by
  have hall := checkIds_ok_iff (declaredIds w) [] List.nodup_nil
  simp only [List.nil_append] at hall
  rw [build_isOk_iff_check w hne]
  constructor
  · rintro ⟨b, hb⟩
    have := hall.2.1 b hb
    rw [this] at hb
    exact hall.1.mp hb
  · intro hnd; exact ⟨_, hall.1.mpr hnd⟩

/-- so the nodes of a built tree have pairwise distinct ids -/
theorem built_ids_nodup (w : Workflow) (hne : ∀ a ∈ w.on, a.id.isEmpty = false) (nodes : List Node)
    (h : build w = .ok nodes) : (nodes.map (·.id)).Nodup := by
  rw [nodes_exactly_once w hne nodes h]
  exact (build_ok_iff_nodup w hne).mp ⟨nodes, h⟩

/-- an `on` event without id is rejected -/
theorem empty_event_id_rejected (w : Workflow) (a : Act) (rest : List Act) (h : w.on = a :: rest) (ha : a.id.isEmpty = true) :
    build w = .error .eventIdEmpty := by
  simp [build, h, buildEvents, ha]

/-- the children of a step node are, in this order: its branches, its first act, the first step of each catch and of each
timeout rule — each list under its own key (the shared-cursor defect chained later lists behind the first) -/
theorem step_children_declared (s : Step) (h : s.next = none) :
    stepChildren s = s.branches.map (fun b => (OutKind.normal, none, b.id)) ++ firstActEntry s.acts ++
      (s.catches.flatMap (fun c => firstStepEntry .catch c.on c.steps) ++
       s.timeouts.flatMap (fun t => firstStepEntry .timeout (some t.on) t.steps)) := by
  simp [stepChildren, h, hookEntries]

/-- each catch that has steps is reachable under its own error code: `children_in(Catch, on)` of the owner starts with the
first step of that catch -/
theorem catch_first_step_registered (catches : List Catch) (timeouts : List Timeout) (c : Catch) (hc : c ∈ catches)
    (s : Step) (rest : List Step) (hs : c.steps = s :: rest) :
    (OutKind.catch, c.on, s.id) ∈ hookEntries catches timeouts := by
  simp only [hookEntries, List.mem_append, List.mem_flatMap]
  exact Or.inl ⟨c, hc, by simp [firstStepEntry, hs]⟩

theorem timeout_first_step_registered (catches : List Catch) (timeouts : List Timeout) (t : Timeout) (ht : t ∈ timeouts)
    (s : Step) (rest : List Step) (hs : t.steps = s :: rest) :
    (OutKind.timeout, some t.on, s.id) ∈ hookEntries catches timeouts := by
  simp only [hookEntries, List.mem_append, List.mem_flatMap]
  exact Or.inr ⟨t, ht, by simp [firstStepEntry, hs]⟩

end Acts.C20

namespace Acts.C20
open Acts.Deploy

theorem deployModel_ver (ms : List ModelRow) (id : String) (data : Nat) :
    ((deployModel ms id data).find? (·.id == id)).map (·.ver) =
      some (match (ms.find? (·.id == id)).map (·.ver) with | some v => v + 1 | none => 1) ∧
    ((deployModel ms id data).find? (·.id == id)).map (·.data) = some data := by
  unfold deployModel
  cases hf : ms.find? (·.id == id) with
  | none =>
    simp only [Option.map_none]
    rw [List.find?_append, hf]; simp
  | some m =>
    simp only [Option.map_some]
    induction ms with
    | nil => simp at hf
    | cons x xs ih =>
      simp only [List.find?_cons] at hf
      by_cases hx : (x.id == id) = true
      · simp only [hx] at hf; cases hf
        have hid : m.id = id := by simpa using hx
        simp [List.find?_cons, hid]
      · have hx' : (x.id == id) = false := by simpa using hx
        simp only [hx'] at hf
        simp only [List.map_cons, hx', Bool.false_eq_true, ↓reduceIte, List.find?_cons]
        exact ih hf

/-- deploy raises the version by exactly one per deploy: after `n` deploys of a fresh id the version is `n`, and the stored
text is the last one given -/
theorem ver_counts (n : Nat) (s : St) (id : String) (hfresh : verOf s id = none) (datas : List Nat) (hlen : datas.length = n)
    (ons : List String) (ver : Nat) :
    verOf (datas.foldl (fun st d => deploy st id d ons ver) s) id = if n = 0 then none else some n := by
  subst hlen
  suffices h : ∀ (ds : List Nat) (st : St) (k : Nat), verOf st id = (if k = 0 then none else some k) →
      verOf (ds.foldl (fun st d => deploy st id d ons ver) st) id = (if k + ds.length = 0 then none else some (k + ds.length)) by
    have := h datas s 0 (by simpa using hfresh)
    simpa using this
  intro ds
  induction ds with
  | nil => intro st k hk; simpa using hk
  | cons d ds ih =>
    intro st k hk
    simp only [List.foldl_cons, List.length_cons]
    have hstep : verOf (deploy st id d ons ver) id = (if k + 1 = 0 then none else some (k + 1)) := by
      have := (deployModel_ver st.models id d).1
      simp only [verOf, deploy] at this hk ⊢
      rw [this, hk]
      by_cases hk0 : k = 0 <;> simp [hk0]
    have := ih _ (k + 1) hstep
    rw [this]
    have : k + 1 + ds.length = k + (ds.length + 1) := by omega
    rw [this]

/-- deleting a model removes exactly its registered events and its row: rows of other models stay -/
theorem rm_exact (s : St) (id : String) :
    (∀ e ∈ (rm s id).events, e.mid ≠ id ∧ e ∈ s.events) ∧ (∀ e ∈ s.events, e.mid ≠ id → e ∈ (rm s id).events) ∧
    (∀ m ∈ (rm s id).models, m.id ≠ id ∧ m ∈ s.models) ∧ (∀ m ∈ s.models, m.id ≠ id → m ∈ (rm s id).models) := by
  simp only [rm, List.mem_filter, bne_iff_ne, ne_eq]
  exact ⟨fun e h => ⟨h.2, h.1⟩, fun e h hne => ⟨h, hne⟩, fun m h => ⟨h.2, h.1⟩, fun m h hne => ⟨h, hne⟩⟩

/-- one `on` entry registers exactly one event, keyed by model id and act id -/
theorem deployEvent_registers (es : List EventRow) (mid aid : String) (ver : Nat) :
    ∃ e ∈ deployEvent es mid aid ver, e.id = eventId mid aid := by
  unfold deployEvent
  simp only
  cases hf : es.find? (·.id == eventId mid aid) with
  | none => exact ⟨⟨eventId mid aid, mid, ver⟩, by simp, rfl⟩
  | some e =>
    have hmem := List.mem_of_find?_eq_some hf
    have hid : e.id = eventId mid aid := by simpa using List.find?_some hf
    simp only
    split
    · exact ⟨e, hmem, hid⟩
    · refine ⟨⟨eventId mid aid, mid, ver⟩, ?_, rfl⟩
      simp only [List.mem_map]
      exact ⟨e, hmem, by simp [hid]⟩

end Acts.C20
