import ActsModel.Gen.State
import ActsModel.Gen.Action

/-!
Task lifecycle of property C02, stated over the *generated* state enum but with the stage function
written out from the property text (it does not use the generated predicate classes; the K1
theorems of `Props/C02.lean` relate the two).
-/
namespace Acts.Spec
open Acts.Gen

/-- none → created (ready, pending, interrupted) → running → terminal -/
def stage : TaskState → Nat
  | .none => 0
  | .ready | .pending | .interrupt => 1
  | .running => 2
  | .completed | .submitted | .backed | .cancelled | .error | .aborted | .skipped | .removed => 3

/-- a legal write: same state, a later stage, or the refinement of `ready` -/
def legal (o n : TaskState) : Bool :=
  n == o || stage o < stage n || (o == .ready && (n == .pending || n == .interrupt))

/-- one observed state write of a task (key = pid:tid) -/
structure Tr where
  key : String
  old : TaskState
  new : TaskState
  deriving Repr

/-- the single exception: an error taken by a catch puts the task back to running, once -/
def isRevive (t : Tr) : Bool := t.old == .error && t.new == .running

/-- index of the first illegal write of a trace (revived: tasks that used their one revive) -/
def firstIllegal : List String → Nat → List Tr → Option Nat
  | _, _, [] => none
  | revived, i, t :: ts =>
    if legal t.old t.new then firstIllegal revived (i + 1) ts
    else if isRevive t && !revived.contains t.key then firstIllegal (t.key :: revived) (i + 1) ts
    else some i

def legalTrace (ts : List Tr) : Bool := (firstIllegal [] 0 ts).isNone

/-- the trace is consistent with itself: each write starts from the state the previous write of the same task left -/
def firstGap : List (String × TaskState) → Nat → List Tr → Option Nat
  | _, _, [] => none
  | cur, i, t :: ts =>
    match cur.lookup t.key with
    | some s => if s == t.old then firstGap ((t.key, t.new) :: cur) (i + 1) ts else some i
    | none => if t.old == .none then firstGap ((t.key, t.new) :: cur) (i + 1) ts else some i

end Acts.Spec
