"""C12 — restart / reload transparency at quiescent points"""
import copy
import json

from .. import gen
from ..core import obs_of
from ..rng import Rng
from . import c07

ASSUMPTIONS = [
    "cut points are quiescent points with an empty scheduler queue (a restart with tasks still queued loses them by construction of the queue; the property quantifies over quiescent points)",
    "eviction = dropping the process from the cache (verif hook); restart = a new engine on the same SQLite file",
    "messages are compared up to ids and timestamps; lifecycle-hook acts and sub-processes are not generated here",
]


def gen_base(seed, i):
    rng = Rng(seed * 15485867 + i)
    kind = rng.below(3)
    if i % 12 == 2:
        # timeout rules: the clock keeps running for a process that waits in the store only
        from . import c19
        sc, _ = c19.gen_scenario(seed, 4 * i)      # (4*i is never in c19's own evict/restart family)
        return sc["models"][0], {}, sc["ops"], rng
    if i % 12 == 4:
        # the process env is written at run time, over a value the model declares; the process is dropped from the cache, and a tick (the refill of
        # the cache from the store) may come before the client's next action
        nsteps = rng.range(2, 3)
        steps = []
        for j in range(1, nsteps + 1):
            acts = []
            if rng.chance(2, 3):
                acts.append({"id": f"m{j}", "uses": gen.CODE, "params": f'$env.stage = "st{j}"; $env.n{j} = {j * 10};'})
            acts.append({"id": f"a{j}", "uses": gen.IRQ, "key": f"k{j}", "inputs": {"stage": "{{ $env.stage }}", "e1": "{{ $env.e1 }}"}})
            steps.append({"id": f"s{j}", "acts": acts})
        w = {"id": "m1", "env": {"stage": "draft", "e1": rng.below(9)}, "outputs": {"stage": "{{ $env.stage }}"}, "steps": steps}
        ops = [["deploy", 0], ["start", "m1", {"pid": "p1"}], ["runall"]]
        for j in range(nsteps + 1):
            if rng.chance(1, 2):
                ops.append(["tick", 1000])
                ops.append(["runall"])
            ops.append(["act", "next", "p1", {"open": 0}, {"n1": rng.below(90)}])
            ops.append(["runall"])
        return w, {}, ops, rng
    if i % 12 == 9:
        # chains of generated acts with three and more links (sequence over 3..5 values, 1..3 acts per group), reloaded at every quiescent point
        nv = rng.range(3, 5)
        acts = [{"uses": gen.IRQ, "key": "g0"}] + [{"uses": rng.pick([gen.IRQ, gen.MSG]), "key": f"g{q}"} for q in range(1, rng.range(1, 3))]
        if rng.chance(1, 2):
            # explicit ids inside the generator: every group then has nodes of the same ids
            for q, a in enumerate(acts):
                a["id"] = f"x{q}"
        w = {"id": "m1", "steps": [{"id": "s1", "acts": [{"id": "a1", "uses": rng.pick(["acts.core.sequence", "acts.core.sequence", "acts.core.parallel"]),
                                                          "params": {"in": [f"u{q}" for q in range(nv)], "acts": acts}},
                                                         {"id": "a2", "uses": gen.IRQ, "key": "ka2"}]}]}
        ops = [["deploy", 0], ["start", "m1", {"pid": "p1"}], ["runall"]]
        for _ in range(nv * len(acts) + 3):
            ops.append(["act", "next", "p1", {"open": 0}, {"n1": rng.below(90)}])
            ops.append(["runall"])
        return w, {}, ops, rng
    if i % 6 == 5:
        # a catch takes an error, the process is reloaded while the handler waits, the handler fails (or ends): the once-only marks of catches
        # and everything else a revived task carries have to come back from the store
        g = gen.WfGen(rng.fork("wf"), depth=1, max_steps=2, max_branches=2, max_acts=2, p_if=0, needs=False, act_kinds=((gen.IRQ, 8), (gen.MSG, 1)), catches=True)
        w = g.workflow("m1")
        first = w["steps"][0]
        first.pop("branches", None)
        first["acts"] = [{"id": "ax", "uses": gen.IRQ, "key": "kax", "catches": [{"on": "e1", "steps": [{"id": "sx", "acts": [{"id": "cx", "uses": gen.IRQ, "key": "kcx"}]}]}]}]
        if rng.chance(1, 2):
            first["catches"] = [{"steps": [{"id": "sy", "acts": [{"id": "cy", "uses": gen.IRQ, "key": "kcy"}]}]}]
        ops = [["deploy", 0], ["start", "m1", {"pid": "p1", "x": rng.below(4), "y": rng.below(4)}], ["runall"]]
        for _ in range(rng.range(5, 9)):
            if rng.chance(1, 2):
                ops.append(["act", "error", "p1", {"open": rng.below(2)}, {"ecode": rng.pick(["e1", "e1", "e2"]), "message": "boom"}])
            else:
                ops.append(["act", "next", "p1", {"open": rng.below(2)}, {"n1": rng.below(90)}])
            ops.append(["runall"])
        for _ in range(4):
            ops.append(["act", "next", "p1", {"open": 0}, {}])
            ops.append(["runall"])
        return w, g.exprs, ops, rng
    if i % 20 == 7:
        # long processes: more task rows than one default page of a store query
        n = rng.range(26, 40)
        w = {"id": "m1", "steps": [{"id": f"s{j}", "acts": [{"id": f"a{j}", "uses": gen.IRQ, "key": f"k{j}"}]} for j in range(1, n + 1)]}
        ops = [["deploy", 0], ["start", "m1", {"pid": "p1"}], ["runall"]]
        for _ in range(n):
            ops.append(["act", "next", "p1", {"open": 0}, {"n1": rng.below(90)}])
            ops.append(["runall"])
        return w, {}, ops, rng
    if kind == 0:
        g = c07.DataGen(rng.fork("wf"))
        w = g.workflow("m1")
    else:
        g = gen.WfGen(rng.fork("wf"), depth=2, max_steps=3, max_branches=3, max_acts=2, p_if=15, needs=rng.chance(1, 4),
                      act_kinds=((gen.IRQ, 6), (gen.MSG, 2), (gen.SET, 2)), catches=rng.chance(1, 3))
        w = g.workflow("m1")
    if rng.chance(1, 2):
        w["env"] = {"e1": rng.below(9)}
    if i % 4 == 1:
        # generators: their acts are nodes that exist only at run time
        def walk(steps):
            for st in steps:
                for a in st.get("acts", []):
                    if a["uses"] == gen.IRQ and "catches" not in a and rng.chance(1, 2):
                        a["uses"] = rng.pick(["acts.core.parallel", "acts.core.sequence"])
                        key = a.pop("key")
                        a["params"] = {"in": [f"u{q}" for q in range(rng.range(0, 3))],
                                       "acts": [{"uses": gen.IRQ, "key": "g" + key}] + ([{"uses": gen.MSG, "key": "h" + key}] if rng.chance(1, 3) else [])}
                for b in st.get("branches", []):
                    walk(b.get("steps", []))
        walk(w["steps"])
    ops = [["deploy", 0], ["start", "m1", {"pid": "p1", "x": rng.below(4), "y": rng.below(4)}], ["runall"]]
    for _ in range(rng.range(4, 10)):
        r = rng.below(100)
        if r < 70:
            ops.append(["act", "next", "p1", {"open": rng.below(3)}, {"n1": rng.below(90), "n2": rng.below(90)}])
        elif r < 80:
            ops.append(["act", "error", "p1", {"open": rng.below(3)}, {"ecode": rng.pick(["e1", "e2"]), "message": "boom"}])
        elif r < 88:
            ops.append(["act", "skip", "p1", {"open": 0}, {}])
        elif r < 92:
            ops.append(["act", "set_process_vars", "p1", {"open": 0}, {"pv": rng.below(9)}])
        elif r < 95:
            ops.append(["act", "back", "p1", {"open": 0}, {"to": "s" + str(rng.range(1, 3))}])
        elif r < 97:
            ops.append(["act", "cancel", "p1", {"term": rng.below(3)}, {}])
        else:
            ops.append(["act", "submit", "p1", {"open": 0}, {}])
        ops.append(["runall"])
    for _ in range(6):
        ops.append(["act", "next", "p1", {"open": 0}, {}])
        ops.append(["runall"])
    return w, g.exprs, ops, rng


def with_cuts(ops, cuts, store):
    out, idx = [], []
    for i, op in enumerate(ops):
        out.append(op)
        idx.append(i)
        if i in cuts:
            out.append(["restart"] if store == "sqlite" else ["evict", "p1"])
            idx.append(None)
    return out, idx


def norm(o):
    k = o.get("k")
    if k == "gen":
        return ("gen", o["pid"], o["tid"], o["nid"], o["type"], o["state"], o["key"], o["uses"], json.dumps(o.get("inputs"), sort_keys=True), json.dumps(o.get("outputs"), sort_keys=True))
    if k == "pev" and o.get("chan") == "default":
        return ("pev", o["ev"], o["pid"], o["state"], json.dumps(o.get("outputs"), sort_keys=True))
    if k == "res":
        return ("res", bool(o.get("ok")), None if o.get("ok") else o.get("err"))
    if k == "new":
        return ("new", o["pid"], o["nid"], o["kind"], o.get("prev"))
    if k == "tr":
        return ("tr", o["pid"], o["tid"], o["old"], o["new"])
    return None


def task_image(t):
    return (t["tid"], t["nid"], t["kind"], t["state"], t.get("prev"), {k: v for k, v in t["data"].items() if k != "$params"},
            (t.get("err") or {}).get("ecode"), json.dumps(t.get("hooks"), sort_keys=True))


def run(ctx):
    ctx.check_theorems("ActsModel.Props.C12")
    n = 120 if ctx.tier == "quick" else 2500
    scs, meta = [], []
    for i in range(n):
        w, exprs, ops, rng = gen_base(ctx.seed, i)
        store = "sqlite" if i % 2 else "mem"
        quiescent = [j for j, op in enumerate(ops) if op[0] == "runall" and j < len(ops) - 1]
        ncut = rng.range(1, 3) if ctx.tier == "quick" else rng.range(1, min(5, len(quiescent)))
        cuts = set(rng.shuffle(quiescent)[:ncut])
        if len(ops) > 40:
            cuts.add(quiescent[len(quiescent) - 1 - rng.below(5)])
        if i % 6 == 5 or i % 12 == 2 or i % 12 == 9 or i % 12 == 4:
            cuts = set(quiescent)      # the catch family and the timeout family are reloaded at every quiescent point
        cfg = {"keep": True, "store": store, "dump_each": True}
        a = {"id": f"c12-{i}-A", "config": cfg, "models": [w], "ops": ops, "exprs": exprs}
        bops, idx = with_cuts(ops, cuts, store)
        b = {"id": f"c12-{i}-B", "config": cfg, "models": [w], "ops": bops, "exprs": exprs}
        scs += [a, b]
        meta.append((cuts, idx, store))
    # in batches: an engine that is dropped does not give all its file handles back (reference cycles between the runtime and its handlers),
    # so a harness process is not asked to run thousands of restarts
    results = []
    for lo in range(0, len(scs), 240):
        results += ctx.harness("run", scs[lo:lo + 240], tag="h%d" % (lo // 240))
    stats = {"pairs": n, "cuts": 0, "evictions": 0, "restarts": 0, "messages_after_cut": 0, "finished_both": 0}
    for k, (cuts, idx, store) in enumerate(meta):
        a, b = scs[2 * k], scs[2 * k + 1]
        ra, rb = results[2 * k], results[2 * k + 1]
        ctx.cov["evaluations"] += 1
        if any(r.get("panic") or r.get("crashed") for r in (ra, rb)):
            ctx.violation("C12|engine-panic", f"engine panicked: {str(ra.get('panic') or rb.get('panic'))[:120]}", {"scenario": b})
            continue
        stats["cuts"] += len(cuts)
        stats["restarts" if store == "sqlite" else "evictions"] += len(cuts)
        sa = {st["op"]: st["obs"] for st in ra.get("steps", [])}
        sb = {}
        for st in rb.get("steps", []):
            j = st["op"]
            if j < len(idx) and idx[j] is not None:
                sb[idx[j]] = st["obs"]
            elif j < len(idx):
                # the cut itself must be silent: reloading produces no message and no event
                noisy = [o for o in st["obs"] if o.get("k") in ("gen", "pev", "dlv")]
                if noisy:
                    ctx.violation(f"C12|cut-is-not-silent|{store}", f"the {'restart' if store == 'sqlite' else 'eviction'} itself produced {noisy[0].get('k')} {noisy[0].get('state')}", {"scenario": b})
        bad = None
        first_cut = min(cuts)
        for i in range(len(a["ops"])):
            oa, ob = sa.get(i), sb.get(i)
            if oa is None or ob is None:
                if (oa is None) != (ob is None):
                    bad = (i, "one run stopped", "")
                break
            na = [x for x in map(norm, oa) if x]
            nb = [x for x in map(norm, ob) if x]
            if i > first_cut:
                stats["messages_after_cut"] += sum(1 for x in na if x[0] == "gen")
            for kind in ("res", "gen", "pev", "new", "tr"):
                xa = [x for x in na if x[0] == kind]
                xb = [x for x in nb if x[0] == kind]
                if xa != xb:
                    j = next((q for q in range(min(len(xa), len(xb))) if xa[q] != xb[q]), min(len(xa), len(xb)))
                    bad = (i, kind, f"uninterrupted {xa[j] if j < len(xa) else None} / continued {xb[j] if j < len(xb) else None}")
                    break
            if bad:
                break
            # task outcomes and data
            da = [o for o in oa if o.get("k") == "dump" and o.get("pid") == "p1"]
            db = [o for o in ob if o.get("k") == "dump" and o.get("pid") == "p1"]
            if da and db and not da[0].get("absent") and not db[0].get("absent"):
                ta = [task_image(t) for t in da[0]["tasks"]]
                tb = [task_image(t) for t in db[0]["tasks"]]
                if ta != tb:
                    d = next((x, y) for x, y in zip(ta + [None], tb + [None]) if x != y)
                    bad = (i, "tasks", f"uninterrupted {d[0]} / continued {d[1]}")
                    break
                if da[0]["env"] != db[0]["env"] or da[0]["state"] != db[0]["state"]:
                    bad = (i, "process", f"uninterrupted state={da[0]['state']} env={da[0]['env']} / continued state={db[0]['state']} env={db[0]['env']}")
                    break
        if bad:
            ctx.cov["monitor_failures"] += 1
            what = a["ops"][bad[0]][:3] if bad[0] < len(a["ops"]) else "?"
            ctx.violation(f"C12|{bad[1]}-differs|{store}", f"op {bad[0]} {what} after a cut at ops {sorted(cuts)} ({'restart on SQLite' if store == 'sqlite' else 'cache eviction'}): {bad[2][:300]}",
                          {"scenario": b, "uninterrupted": a["id"], "cuts": sorted(cuts), "op": bad[0]})
        else:
            ctx.nontrivial([a["models"], a["ops"], sorted(cuts), store])
            if any(o.get("k") == "pev" and o.get("ev") in ("complete", "error") for _, o in obs_of(ra)):
                stats["finished_both"] += 1
    ctx.sample({"uninterrupted": scs[0]["ops"][:6], "continued": scs[1]["ops"][:8]}, limit=1)
    ctx.cov["correspondence"] = {"distribution": stats, "streams_compared": ["action results, generated messages, process events, creations, transitions and task data/outcomes of run A (uninterrupted) vs run B (evicted / restarted), op by op"]}
    ctx.cov["rule"] = ("data-flow and control-flow workflows (set/irq/msg, branches, catches, env), client histories with errors, skips and process vars; 1-5 cut points per run chosen among "
                       "the quiescent points; eviction on the in-memory store, restart on SQLite; non-trivial = a pair whose whole continuation was compared; distinct by (model, ops, cuts, back end)")
    ctx.cov["clauses_proved"] = ["every item the scheduler reads of a task is written, stored and read back (K1 on into_data / columns / load_tasks)", "process state, error, env and model round-trip (K1)",
                                 "node re-binding by id (K1)"]
    ctx.cov["clauses_not_proved"] = ["observational equivalence of the continued run (decided by running both)"]


def replay(ctx, data):
    print("re-run: python3 tools/check.py C12; the replay file holds run B (with cuts) and the id of run A")
    return 0
