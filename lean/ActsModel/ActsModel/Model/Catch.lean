import ActsModel.Gen.Emit

/-!
Error propagation (`Context::emit_error`) and the catch hook (`StatementBatch::Catch`) on the chain
act → enclosing step / branch / workflow.
-/
namespace Acts.Catch
open Acts.Gen

/-- one member of the chain, nearest first -/
structure Member where
  tid : Nat
  catches : List (Option String)      -- the `on` of the catches registered on the task (declaration order)
  processed : Bool                    -- `$is_catch_processed`: the task has used its catch once
  closed : Bool                       -- already terminal: propagation stops below it
  deriving Repr, DecidableEq

/-- does a catch take the code? (`on` absent = catch-all) -/
def takes (on : Option String) (code : String) : Bool := on.isNone || on == some code

/-- first catch of the list that takes the code -/
def select (cs : List (Option String)) (code : String) : Option (Option String) := cs.find? (takes · code)

inductive Outcome where
  | caughtAt (tid : Nat) (on : Option String)   -- revived: its catch steps for `on` run
  | stoppedAt (tid : Nat)                       -- reached an ancestor that had already ended
  | uncaught                                    -- every member is in error, the process reports the error
  deriving Repr, DecidableEq

/-- walk up: a member that can catch takes the error; otherwise it is marked and the error climbs -/
def bubble (code : String) : List Member → List Nat × Outcome
  | [] => ([], .uncaught)
  | m :: ms =>
    if m.closed then ([], .stoppedAt m.tid)
    else match (if m.processed then none else select m.catches code) with
      | some on => ([], .caughtAt m.tid on)
      | none =>
        let (errs, out) := bubble code ms
        (m.tid :: errs, out)

/-! ## Histories of errors

The flags are per task and persist: `$is_catch_processed` is written into the catching task's data when its catch is used,
and the tasks the error passed through stay in `error` (terminal). A history is any sequence of errors, each raised on
some chain of tasks (nearest first, with the catches declared on them). -/

/-- the persistent part: which tasks have used their catch, which are closed by an error that passed through them -/
structure Hist where
  processed : List Nat := []
  closed : List Nat := []
  deriving Repr, DecidableEq

/-- a declared task: id and the `on` of its catches -/
abbrev Decl := Nat × List (Option String)

def member (h : Hist) (d : Decl) : Member :=
  { tid := d.1, catches := d.2, processed := h.processed.contains d.1, closed := h.closed.contains d.1 }

/-- one error: `bubble` on the chain as the history left it; the members the error passed through are closed, the catcher is flagged -/
def raise (h : Hist) (code : String) (chain : List Decl) : Hist × Outcome :=
  match bubble code (chain.map (member h)) with
  | (errs, .caughtAt tid on) => ({ processed := tid :: h.processed, closed := errs ++ h.closed }, .caughtAt tid on)
  | (errs, o) => ({ processed := h.processed, closed := errs ++ h.closed }, o)

/-- the outcomes of a whole history -/
def run (h : Hist) : List (String × List Decl) → List Outcome
  | [] => []
  | e :: rest => (raise h e.1 e.2).2 :: run (raise h e.1 e.2).1 rest

/-- the outcome is "caught by task `tid`" -/
def Outcome.isCaughtBy (tid : Nat) : Outcome → Bool
  | .caughtAt t _ => t == tid
  | _ => false

end Acts.Catch
