import Lean.Data.Json
import ActsModel.Driver.Util
import ActsModel.Spec.Needs
open Lean

namespace Acts.Driver
open Acts.Spec

/-- C04: the needs clause on a stream `[["new", tid, nid, prev|null], ["tr", tid, old, new], …]` with the table `needs: [[nid, [nid, …]], …]` -/
def needsCase (req : Lean.Json) : Lean.Json :=
  let tidN (s : String) : Nat :=
    if s == "$" then 0
    else if s.startsWith "@" then ((s.drop 1).toString.toNat?).getD 0
    else 1000000 + ((s.drop 1).toString.toNat?).getD 0
  let needs : List (String × List String) := (jarr req "needs").toList.map fun p =>
    let a := asArr p
    (asStr a[0]!, (asArr a[1]!).toList.map asStr)
  let evs : List NEv := (jarr req "events").toList.map fun e =>
    let a := asArr e
    match asStr a[0]! with
    | "new" => .new { tid := tidN (asStr a[1]!), nid := asStr a[2]!, prev := match a[3]! with | .str s => some (tidN s) | _ => none }
    | _ => .tr (tidN (asStr a[1]!)) (Acts.Gen.TaskState.ofStr (asStr a[2]!)) (Acts.Gen.TaskState.ofStr (asStr a[3]!))
  match needsMonitor needs [] 0 evs with
  | none => Lean.Json.mkObj [("ok", Lean.Json.bool true)]
  | some (i, tid) => Lean.Json.mkObj [("ok", Lean.Json.bool false), ("at", Lean.Json.num i), ("tid", Lean.Json.num tid)]

end Acts.Driver
