import Lean.Data.Json
import ActsModel.Driver.Util
import ActsModel.Spec.Lifecycle
import ActsModel.Driver.Store
import ActsModel.Driver.Msg
open Lean Acts Acts.Driver

/-- C02: evaluate the lifecycle monitor on a transition trace `[[key, old, new], …]` -/
def c02Monitor (req : Json) : Json :=
  let trs : List Spec.Tr := (jarr req "trace").toList.map fun t =>
    let a := asArr t
    { key := asStr a[0]!, old := Gen.TaskState.ofStr (asStr a[1]!), new := Gen.TaskState.ofStr (asStr a[2]!) }
  let bad := Spec.firstIllegal [] 0 trs
  let gap := Spec.firstGap [] 0 trs
  Json.mkObj [("ok", Json.bool (bad.isNone && gap.isNone)), ("illegal", optNat bad), ("gap", optNat gap)]

def dispatch (req : Json) : Json :=
  match jstr req "cmd" with
  | "c02.monitor" => c02Monitor req
  | "c10.run" => storeRun req
  | "c09.run" => msgRun req
  | "ping" => Json.mkObj [("pong", Json.bool true)]
  | c => Json.mkObj [("error", Json.str s!"unknown cmd {c}")]

partial def loop (h : IO.FS.Stream) (out : IO.FS.Stream) : IO Unit := do
  let line ← h.getLine
  if line.isEmpty then return ()
  if line.trimAscii.isEmpty then
    loop h out
  else
    match Json.parse line with
    | .ok j => out.putStrLn (dispatch j).compress
    | .error e => out.putStrLn (Json.mkObj [("error", Json.str s!"parse: {e}")]).compress
    loop h out

def main : IO Unit := do
  let out ← IO.getStdout
  loop (← IO.getStdin) out
  out.flush
