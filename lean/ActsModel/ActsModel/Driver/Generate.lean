import Lean.Data.Json
import ActsModel.Driver.Util
import ActsModel.Model.Generate
import ActsModel.Model.Subflow
open Lean

namespace Acts.Driver
open Acts.Generate Acts.Gen

def lifeCycleOf (s : String) : Option LifeCycle :=
  match s with
  | "created" => some .created
  | "completed" => some .completed
  | "before_update" => some .beforeUpdate
  | "updated" => some .updated
  | "step" => some .step
  | _ => none

/-- {"items": ["u0", "u1"], "acts": ["k1", "k2"]} -> the groups `expand` builds -/
def expandCase (req : Lean.Json) : Lean.Json :=
  let items := (jarr req "items").toList.map asStr
  let acts := (jarr req "acts").toList.map asStr
  let gs := expand items acts
  Lean.Json.mkObj [("groups", Lean.Json.arr (gs.map fun g =>
    Lean.Json.arr (g.map fun o => Lean.Json.arr #[Lean.Json.str o.key, Lean.Json.num o.index, Lean.Json.str o.value]).toArray).toArray)]

/-- {"hooks": [["created", "H1"], …], "own": ["ready", "running", "completed"], "acts": [...], "steps": [...]} -> keys fired, in order:
the task's own events, the events of the acts below it (nearest step / root), the events of steps (context step / root) -/
def firesCase (req : Lean.Json) : Lean.Json :=
  let hooks : List (LifeCycle × String) := (jarr req "hooks").toList.filterMap fun h =>
    let a := asArr h
    (lifeCycleOf (asStr a[0]!)).map fun l => (l, asStr a[1]!)
  let st (k : String) : List TaskState := (jarr req k).toList.map fun s => TaskState.ofStr (asStr s)
  let own := firesOwn hooks (st "own")
  let fromActs := firesFromActs hooks (st "acts")
  let fromSteps := (st "steps").flatMap fun s => fires hooks (stepLifeCycle s)
  Lean.Json.mkObj [("own", Lean.Json.arr (own.map Lean.Json.str).toArray), ("acts", Lean.Json.arr (fromActs.map Lean.Json.str).toArray),
    ("steps", Lean.Json.arr (fromSteps.map Lean.Json.str).toArray)]

/-- {"child": "error"} -> the state the return writes on the calling act -/
def actEndCase (req : Lean.Json) : Lean.Json :=
  Lean.Json.mkObj [("act", Lean.Json.str (Acts.Subflow.actEnd (TaskState.ofStr (jstr req "child"))).toStr)]

/-- {"slots": 2, "events": [["start", 0], ["ends", 0, "error"], ["ret", 0]]} -> the slots of the call/return machine after the events -/
def machineCase (req : Lean.Json) : Lean.Json :=
  let evs : List Acts.Subflow.Ev := (jarr req "events").toList.filterMap fun e =>
    let a := asArr e
    match asStr a[0]! with
    | "start" => some (.start (asNat a[1]!))
    | "ends" => some (.childEnds (asNat a[1]!) (TaskState.ofStr (asStr a[2]!)))
    | "ret" => some (.ret (asNat a[1]!))
    | _ => none
  let ss := Acts.Subflow.run (List.replicate (jnat req "slots") {}) evs
  let st (o : Option TaskState) : Lean.Json := match o with | some s => Lean.Json.str s.toStr | none => Lean.Json.null
  Lean.Json.mkObj [("slots", Lean.Json.arr (ss.map fun sl =>
      Lean.Json.mkObj [("started", Lean.Json.bool sl.started), ("child", st sl.childEnd), ("closed", st sl.closed)]).toArray),
    ("done", Lean.Json.bool (Acts.Subflow.parentDone ss))]

/-- {"seq": true, "n": 3, "finish": [0, 1]} -> after each finish event the groups that are open and unfinished, and whether the generator may complete -/
def schedCase (req : Lean.Json) : Lean.Json :=
  let g0 : Gen := { seq := jbool req "seq", n := jnat req "n", fin := [] }
  let ks := (jarr req "finish").toList.map asNat
  let step (acc : Gen × List Lean.Json) (k : Nat) : Gen × List Lean.Json :=
    let g := acc.1.finish k
    (g, acc.2 ++ [Lean.Json.mkObj [("active", Lean.Json.arr (g.active.map fun (x : Nat) => Lean.Json.num (x : Nat)).toArray), ("complete", Lean.Json.bool g.complete)]])
  let r := ks.foldl step (g0, [Lean.Json.mkObj [("active", Lean.Json.arr (g0.active.map fun (x : Nat) => Lean.Json.num (x : Nat)).toArray), ("complete", Lean.Json.bool g0.complete)]])
  Lean.Json.mkObj [("states", Lean.Json.arr r.2.toArray)]

end Acts.Driver
