import ActsModel.Spec.Stream
import ActsModel.Spec.Lifecycle

/-!
# C08 — Message stream is a faithful, ordered image of task lifecycles
-/
namespace Acts.C08
open Acts.Gen Acts.Spec

/-- K1 (`on_task` predicate read from the source): a message is generated iff the task is neither pending nor running and its
emission is not disabled -/
theorem emit_table (s : TaskState) (disabled : Bool) :
    emitPred s disabled = true ↔ (s ≠ .pending ∧ s ≠ .running ∧ disabled = false) := by
  cases s <;> cases disabled <;> decide

/-- K1: the message is sent only when the hooks left the state as it was (a task moved on by its own catch has been
reported by the hook's own path; without this test an empty catch produced the completion message twice) -/
theorem unchanged_state_required : emitNeedsUnchangedState = true := by decide

/-- K1: what a message says about the state: `created` for the created class (and only for it among the emitting states),
the task's own terminal state otherwise -/
theorem message_state_table (s : TaskState) :
    (stage s = 1 → (msgStateOf s).toStr = "created") ∧
    (stage s = 3 → (msgStateOf s).toStr = s.toStr) ∧
    (stage s = 3 → terminalMsgStates.contains (msgStateOf s).toStr = true) ∧
    (stage s = 1 → terminalMsgStates.contains (msgStateOf s).toStr = false) := by
  cases s <;> decide

/-- K1: a task in the created class or in a terminal state passes the predicate when enabled — so every start and every
ending of a reporting task is announced (pending is the one created-class state that stays silent: only branches take it) -/
theorem announce_table (s : TaskState) (h : s ≠ .pending) : (stage s = 1 ∨ stage s = 3) → emitPred s false = true := by
  cases s <;> simp_all [stage, emitPred, TaskState.isPending, TaskState.isRunning]

/-- the monitor lets no second terminal message of a task pass -/
theorem monitor_rejects_second_terminal (st : SState) (i : Nat) (m : SMsg) (t : STask)
    (hfind : st.tasks.find? (·.tid == m.tid) = some t) (hid : st.mids.contains m.mid = false) (hrep : (t.kind == "branch") = false)
    (hf : (m.pid != st.pid || m.nid != t.nid || m.type != t.kind || m.uses != t.uses) = false)
    (hs : (m.state != (msgStateOf t.state).toStr) = false) (hterm : terminalMsgStates.contains m.state = true)
    (hone : t.terminal ≥ 1) : (streamStep st i (.gen m)).2 = some (i, "second-terminal-message", m.tid) := by
  have h1 : decide (t.terminal + 1 > 1) = true := by simp; omega
  simp only [streamStep, hfind, hid, hrep, hf, hs, hterm, Bool.false_eq_true, ↓reduceIte, Bool.not_true, Bool.true_and, h1]

/-- the monitor lets no message with a reused id pass -/
theorem monitor_rejects_duplicate_id (st : SState) (i : Nat) (m : SMsg) (t : STask)
    (hfind : st.tasks.find? (·.tid == m.tid) = some t) (hid : st.mids.contains m.mid = true) :
    (streamStep st i (.gen m)).2 = some (i, "duplicate-message-id", m.tid) := by
  simp only [streamStep, hfind, hid, ↓reduceIte]

/-- non-vacuity: created then completed for a step is accepted; a second completed is not -/
def exNew : SEv := .new { tid := 1, nid := "s1", kind := "step", uses := "", level := 1, prev := some 0 }
def exRoot : SEv := .new { tid := 0, nid := "m", kind := "workflow", uses := "", level := 0, prev := none }
example : streamMonitor { pid := "p" } 0 [exRoot, .tr 0 .ready, .gen ⟨0, "m0", "created", "workflow", "m", "m", "", "p"⟩, exNew, .tr 1 .ready,
    .gen ⟨1, "m1", "created", "step", "s1", "s1", "", "p"⟩, .tr 1 .running, .tr 1 .completed,
    .gen ⟨1, "m2", "completed", "step", "s1", "s1", "", "p"⟩] = none := by decide
example : (streamMonitor { pid := "p" } 0 [exRoot, .tr 0 .ready, .gen ⟨0, "m0", "created", "workflow", "m", "m", "", "p"⟩, exNew, .tr 1 .completed,
    .gen ⟨1, "m2", "completed", "step", "s1", "s1", "", "p"⟩, .gen ⟨1, "m3", "completed", "step", "s1", "s1", "", "p"⟩]).isSome = true := by decide

end Acts.C08
