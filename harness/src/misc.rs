//! small differential oracles that do not need an engine: globset, regex, model (de)serialisation
use acts::Workflow;
use serde_json::{Value, json};

pub fn splitmix(x: u64) -> u64 {
    let mut z = x.wrapping_add(0x9E3779B97F4A7C15);
    z = (z ^ (z >> 30)).wrapping_mul(0xBF58476D1CE4E5B9);
    z = (z ^ (z >> 27)).wrapping_mul(0x94D049BB133111EB);
    z ^ (z >> 31)
}

pub fn silence_stderr() {
    // the engine prints every task error with eprintln!; redirect fd 2 to /dev/null
    use std::os::fd::AsRawFd;
    if let Ok(f) = std::fs::OpenOptions::new().write(true).open("/dev/null") {
        unsafe extern "C" {
            fn dup2(a: i32, b: i32) -> i32;
        }
        unsafe {
            dup2(f.as_raw_fd(), 2);
            dup2(f.as_raw_fd(), 1);
        }
    }
}

/// {"pat": "...", "s": "..."} -> {"valid": bool, "match": bool}
pub fn glob_case(sc: &Value) -> Value {
    let pat = sc["pat"].as_str().unwrap_or("");
    let s = sc["s"].as_str().unwrap_or("");
    match globset::Glob::new(pat) {
        Ok(g) => json!({"valid": true, "match": g.compile_matcher().is_match(s)}),
        Err(_) => json!({"valid": false, "match": false}),
    }
}

/// {"s": "..."} -> the engine's own template scanners (utils::get_expr / get_exprs) on s
pub fn regex_case(sc: &Value) -> Value {
    let s = sc["s"].as_str().unwrap_or("");
    let one = acts::verif::get_expr(s);
    let many: Vec<Value> = acts::verif::get_exprs(s)
        .into_iter()
        .map(|(a, b, t)| json!([a, b, t]))
        .collect();
    json!({"one": one, "many": many})
}

/// {"s": "..."} -> TimeoutLimit::parse
pub fn timeout_case(sc: &Value) -> Value {
    let s = sc["s"].as_str().unwrap_or("");
    match acts::TimeoutLimit::parse(s) {
        Ok(l) => {
            // as_secs multiplies in i64: guard the overflow instead of panicking
            let r = std::panic::catch_unwind(|| l.as_secs());
            match r {
                Ok(v) => json!({"ok": true, "secs": v}),
                Err(_) => json!({"ok": true, "overflow": true}),
            }
        }
        Err(_) => json!({"ok": false}),
    }
}

/// {"model": <workflow json>} -> serde round trips and the tree rendering
pub fn model_case(sc: &Value) -> Value {
    let text = serde_json::to_string(&sc["model"]).unwrap();
    let w = match Workflow::from_json(&text) {
        Ok(w) => w,
        Err(e) => return json!({"parse_err": e.to_string()}),
    };
    let j1 = w.to_json().unwrap();
    let j1v: Value = serde_json::from_str(&j1).unwrap();
    let yml = w.to_yml();
    let (yml_ok, j2v) = match &yml {
        Ok(y) => match Workflow::from_yml(y) {
            Ok(w2) => (true, serde_json::from_str::<Value>(&w2.to_json().unwrap()).unwrap()),
            Err(e) => (false, json!({"yml_parse_err": e.to_string()})),
        },
        Err(e) => (false, json!({"yml_err": e.to_string()})),
    };
    let w3 = Workflow::from_json(&j1).unwrap();
    let j3v: Value = serde_json::from_str(&w3.to_json().unwrap()).unwrap();
    let valid = w.valid();
    // Workflow::tree_output() indexes a map without a guard and panics for some valid shapes; the structural dump is used instead
    let tree = Value::Null;
    let dump = acts::verif::tree_dump(&w).unwrap_or_else(|e| json!({"build_err": crate::engine::classify(&e.to_string())}));
    // the model the tree keeps is what a process row stores: a tree rebuilt from it must have the same nodes
    let ids = |d: &Value| -> Vec<String> {
        let mut v: Vec<String> = d["nodes"].as_array().map(|a| a.iter().filter_map(|n| n["id"].as_str().map(|x| x.to_string())).collect()).unwrap_or_default();
        v.sort();
        v
    };
    let rebuilt = match dump.get("model") {
        Some(m) if !m.is_null() => match Workflow::from_json(&serde_json::to_string(m).unwrap()) {
            Ok(w4) => match acts::verif::tree_dump(&w4) {
                Ok(d4) => json!({"ids": ids(&d4), "same_ids": ids(&d4) == ids(&dump)}),
                Err(e) => json!({"build_err": crate::engine::classify(&e.to_string())}),
            },
            Err(e) => json!({"parse_err": e.to_string()}),
        },
        _ => Value::Null,
    };
    json!({
        "dump": dump,
        "rebuilt": rebuilt,
        "json": j1v, "json_again": j3v, "yml_ok": yml_ok, "via_yml": j2v,
        "valid": valid.is_ok(),
        "valid_err": valid.err().map(|e| crate::engine::classify(&e.to_string())),
        "tree": tree,
    })
}
