import ActsModel.Model.Subflow
import ActsModel.Gen.Generate

/-!
# C15 — Sub-process call and return
-/
namespace Acts.C15
open Acts.Gen Acts.Subflow

/-- K1: how a child's ending is reported to the calling act (table translated from `return_to_act` and the action arms) -/
theorem return_table :
    actEnd .completed = .completed ∧ actEnd .error = .error ∧ actEnd .aborted = .aborted ∧ actEnd .skipped = .skipped ∧
    actEnd .submitted = .completed ∧ actEnd .cancelled = .completed ∧ actEnd .backed = .completed ∧ actEnd .removed = .completed := by
  decide

/-- whatever the child's terminal state, the calling act ends in a terminal state -/
theorem return_is_terminal (s : TaskState) : (actEnd s).isCompleted = true := by
  cases s <;> decide

/-- invariant of one slot: a closed call has a child that has ended, and carries the state that ending maps to; a child that has
ended had been started -/
def SlotInv (sl : Slot) : Prop :=
  (∀ a, sl.closed = some a → ∃ s, sl.childEnd = some s ∧ a = actEnd s) ∧ (sl.childEnd.isSome = true → sl.started = true) ∧
  (∀ s, sl.childEnd = some s → s.isCompleted = true)

theorem slot_step_inv (sl : Slot) (e : Ev) (h : SlotInv sl) : SlotInv (sl.step e) := by
  obtain ⟨h1, h2, h3⟩ := h
  cases e with
  | start i =>
    simp only [Slot.step]
    split
    · exact ⟨h1, h2, h3⟩
    · exact ⟨h1, fun _ => rfl, h3⟩
  | childEnds i s =>
    simp only [Slot.step]
    split
    · rename_i hc
      simp only [Bool.and_eq_true, Option.isNone_iff_eq_none] at hc
      refine ⟨?_, fun _ => hc.1.1, ?_⟩
      · intro a ha
        obtain ⟨s', hs', _⟩ := h1 a ha
        rw [hc.1.2] at hs'; cases hs'
      · intro s' hs'; cases hs'; exact hc.2
    · exact ⟨h1, h2, h3⟩
  | ret i =>
    simp only [Slot.step]
    split
    · rename_i s hs hcl
      refine ⟨?_, h2, h3⟩
      intro a ha
      cases ha
      exact ⟨s, hs, rfl⟩
    · exact ⟨h1, h2, h3⟩

/-- a call is closed exactly once: once closed, no event changes what it was closed with -/
theorem slot_closed_stable (sl : Slot) (e : Ev) (a : TaskState) (h : sl.closed = some a) : (sl.step e).closed = some a := by
  cases e with
  | start i => simp only [Slot.step]; split <;> exact h
  | childEnds i s => simp only [Slot.step]; split <;> exact h
  | ret i =>
    simp only [Slot.step]
    split
    · rename_i hcl; rw [h] at hcl; cases hcl
    · exact h

/-- the child's recorded ending is stable too (a process ends once) -/
theorem slot_childEnd_stable (sl : Slot) (e : Ev) (s : TaskState) (h : sl.childEnd = some s) : (sl.step e).childEnd = some s := by
  cases e with
  | start i => simp only [Slot.step]; split <;> exact h
  | childEnds i s' =>
    simp only [Slot.step]
    split
    · rename_i hc; simp [h] at hc
    · exact h
  | ret i => simp only [Slot.step]; split <;> exact h

def Inv (ss : List Slot) : Prop := ∀ sl ∈ ss, SlotInv sl

theorem step_inv (ss : List Slot) (e : Ev) (h : Inv ss) : Inv (step ss e) := by
  intro sl hsl
  simp only [step, List.mem_mapIdx] at hsl
  obtain ⟨i, hi, rfl⟩ := hsl
  split
  · exact slot_step_inv _ e (h _ (List.getElem_mem hi))
  · exact h _ (List.getElem_mem hi)

theorem run_inv (ss : List Slot) (es : List Ev) (h : Inv ss) : Inv (run ss es) := by
  induction es generalizing ss with
  | nil => exact h
  | cons e es ih => exact ih (step ss e) (step_inv ss e h)

theorem init_inv (n : Nat) : Inv (List.replicate n {}) := by
  intro sl hsl
  rw [List.eq_of_mem_replicate hsl]
  refine ⟨?_, ?_, ?_⟩
  · intro a ha; simp at ha
  · intro h; simp at h
  · intro s hs; simp at hs

/-- **Call and return** (K3: every number of calls, every sequence of start / child-end / return events, in any order, with
repetitions).  In every reachable state a calling act that is closed has a child that has ended, and is closed with the state
that ending maps to — so it stayed open until then. -/
theorem closed_only_after_child_ended (n : Nat) (es : List Ev) (sl : Slot) (hsl : sl ∈ run (List.replicate n {}) es)
    (a : TaskState) (h : sl.closed = some a) : ∃ s, sl.childEnd = some s ∧ s.isCompleted = true ∧ a = actEnd s := by
  have hinv := run_inv _ es (init_inv n) sl hsl
  obtain ⟨s, hs, ha⟩ := hinv.1 a h
  exact ⟨s, hs, hinv.2.2 s hs, ha⟩

/-- a parent that waits for its calls cannot be done before every child has ended: its terminal event never precedes a child's -/
theorem parent_done_after_children (n : Nat) (es : List Ev) (h : parentDone (run (List.replicate n {}) es) = true) :
    ∀ sl ∈ run (List.replicate n {}) es, sl.childEnd.isSome = true ∧ sl.started = true := by
  intro sl hsl
  have hinv := run_inv _ es (init_inv n) sl hsl
  simp only [parentDone, List.all_eq_true] at h
  have hc := h sl hsl
  obtain ⟨a, ha⟩ := Option.isSome_iff_exists.1 hc
  obtain ⟨s, hs, _⟩ := hinv.1 a ha
  have : sl.childEnd.isSome = true := by rw [hs]; rfl
  exact ⟨this, hinv.2.1 this⟩

/-- the machine with client endings behaves as the plain one on histories without them -/
theorem run2_base (es : List Ev) : ∀ (ss : List Slot), run2 ss (es.map .base) = run ss es := by
  induction es with
  | nil => intro ss; rfl
  | cons e es ih =>
    intro ss
    simp only [List.map_cons, run2, run, List.foldl_cons] at ih ⊢
    have : step2 ss (.base e) = step ss e := rfl
    rw [this]
    exact ih _

/-- **the statement at full strength is false of model and engine** (open findings `C15|parent-ends-before-child|…`): a client
`error` on the calling act closes it, and with it the waiting parent, while the child has not ended. The same history on the engine
is the replay recorded with the finding. -/
theorem client_end_precedes_child :
    let ss := run2 (List.replicate 1 {}) [.base (.start 0), .client 0 .error]
    parentDone ss = true ∧ ss.all (fun sl => sl.childEnd.isNone) = true := by
  decide

/-- what is proved instead (`…_partial`): on every history in which no client ends a calling act directly — starts, child endings and
returns in any order and number — the parent is done only after every child has ended -/
theorem parent_done_after_children_partial (n : Nat) (es : List Ev)
    (h : parentDone (run2 (List.replicate n {}) (es.map .base)) = true) :
    ∀ sl ∈ run2 (List.replicate n {}) (es.map .base), sl.childEnd.isSome = true ∧ sl.started = true := by
  rw [run2_base] at h ⊢
  exact parent_done_after_children n es h

/-- a return is delivered: after the child has ended, one `ret` closes the call with the mapped state, whatever else happened before -/
theorem return_closes (sl : Slot) (s : TaskState) (hs : sl.childEnd = some s) (hopen : sl.closed = none) :
    (sl.step (.ret 0)).closed = some (actEnd s) := by
  simp [Slot.step, hs, hopen]

/-- K1: the call switches auto-completion off and hands the child the link back to the calling act -/
theorem call_tables : subflowAutoCompleteOff = true ∧ subflowPassesParentLink = true := by decide

/-- non-vacuity: two calls, events out of order and repeated -/
example : run (List.replicate 2 {}) [.ret 0, .start 0, .childEnds 0 .error, .childEnds 0 .completed, .ret 0, .ret 0, .start 1] =
    [{ started := true, childEnd := some .error, closed := some .error }, { started := true }] := by decide

end Acts.C15
