import ActsModel.Gen.Emit

/-!
# Sub-process call and return, as an abstract machine

One slot per calling act of a parent.  Events arrive in any order and any number of times (the engine spawns the return
action, clients and the scheduler interleave); the machine ignores what is not enabled, exactly as the engine's guards do
(`start` refuses a live pid, a terminal process does not end again, a completed act refuses a second action).
The state a return leaves on the calling act is `armWrites (returnAction childState)` from the translated tables.
-/
namespace Acts.Subflow
open Acts.Gen

structure Slot where
  started : Bool := false
  childEnd : Option TaskState := none
  closed : Option TaskState := none
  deriving Repr, DecidableEq

inductive Ev where
  | start (i : Nat)
  | childEnds (i : Nat) (s : TaskState)
  | ret (i : Nat)
  deriving Repr

/-- the state the return action writes on the calling act -/
def actEnd (child : TaskState) : TaskState := (armWrites (returnAction child)).getD .completed

def Slot.step (sl : Slot) : Ev → Slot
  | .start _ => if sl.started then sl else { sl with started := true }
  | .childEnds _ s => if sl.started && sl.childEnd.isNone && s.isCompleted then { sl with childEnd := some s } else sl
  | .ret _ =>
    match sl.childEnd, sl.closed with
    | some s, none => { sl with closed := some (actEnd s) }
    | _, _ => sl

def Ev.slot : Ev → Nat
  | .start i => i
  | .childEnds i _ => i
  | .ret i => i

def step (ss : List Slot) (e : Ev) : List Slot := ss.mapIdx (fun i sl => if i = e.slot then sl.step e else sl)

def run (ss : List Slot) (es : List Ev) : List Slot := es.foldl step ss

/-- a parent that waits for its calls is done when every call is closed -/
def parentDone (ss : List Slot) : Bool := ss.all (fun sl => sl.closed.isSome)

-- ------------------------------------------------------------------ the machine with client endings (open finding of C15)

/-- the same machine with the one event the engine also accepts: a client (or the error return of another child) ends the calling
act itself — `error` / `abort` are admissible on an open interrupt act whether or not its child still runs -/
inductive Ev2 where
  | base (e : Ev)
  | client (i : Nat) (s : TaskState)
  deriving Repr

def Ev2.slot : Ev2 → Nat
  | .base e => e.slot
  | .client i _ => i

def Slot.step2 (sl : Slot) : Ev2 → Slot
  | .base e => sl.step e
  | .client _ s => if sl.started && sl.closed.isNone && s.isCompleted then { sl with closed := some s } else sl

def step2 (ss : List Slot) (e : Ev2) : List Slot := ss.mapIdx (fun i sl => if i = e.slot then sl.step2 e else sl)

def run2 (ss : List Slot) (es : List Ev2) : List Slot := es.foldl step2 ss

end Acts.Subflow
