//! canonical names for the ids the engine generates
use regex::Regex;
use serde_json::Value;
use std::collections::HashMap;

#[derive(Default)]
pub struct Canon {
    tids: HashMap<String, Vec<(String, String)>>, // pid -> [(tid, nid)] in creation order
    tid_name: HashMap<String, String>,
    msgs: Vec<String>,
    msg_name: HashMap<String, String>,
    other: HashMap<String, String>,
    n_short: usize,
    n_long: usize,
}

impl Canon {
    pub fn on_new(&mut self, pid: &str, tid: &str, nid: &str) {
        let v = self.tids.entry(pid.to_string()).or_default();
        let idx = v.len();
        v.push((tid.to_string(), nid.to_string()));
        if tid != "$" {
            self.tid_name.insert(tid.to_string(), format!("@{idx}"));
        }
    }

    pub fn on_msg(&mut self, id: &str) {
        if !self.msg_name.contains_key(id) {
            self.msg_name
                .insert(id.to_string(), format!("m{}", self.msgs.len()));
            self.msgs.push(id.to_string());
        }
    }

    pub fn pids(&self) -> Vec<String> {
        let mut v: Vec<String> = self.tids.keys().cloned().collect();
        v.sort();
        v
    }

    pub fn tid_by_index(&self, pid: &str, i: i64) -> Option<String> {
        let v = self.tids.get(pid)?;
        let i = if i < 0 { v.len() as i64 + i } else { i };
        v.get(i as usize).map(|x| x.0.clone())
    }

    pub fn tid_by_nid(&self, pid: &str, nid: &str, k: i64) -> Option<String> {
        let v = self.tids.get(pid)?;
        let m: Vec<&(String, String)> = v.iter().filter(|x| x.1 == nid).collect();
        let k = if k < 0 { m.len() as i64 + k } else { k };
        m.get(k as usize).map(|x| x.0.clone())
    }

    pub fn msg_by_index(&self, i: i64) -> Option<String> {
        let i = if i < 0 { self.msgs.len() as i64 + i } else { i };
        self.msgs.get(i as usize).cloned()
    }

    fn name(&mut self, raw: &str) -> String {
        if let Some(n) = self.tid_name.get(raw) {
            return n.clone();
        }
        if let Some(n) = self.msg_name.get(raw) {
            return n.clone();
        }
        if let Some(n) = self.other.get(raw) {
            return n.clone();
        }
        let n = if raw.starts_with('v') {
            self.n_short += 1;
            format!("~{}", self.n_short - 1)
        } else {
            self.n_long += 1;
            format!("~w{}", self.n_long - 1)
        };
        self.other.insert(raw.to_string(), n.clone());
        n
    }

    fn text(&mut self, re: &Regex, s: &str) -> String {
        if !s.contains('v') && !s.contains('w') {
            return s.to_string();
        }
        let mut out = String::with_capacity(s.len());
        let mut last = 0;
        for m in re.find_iter(s) {
            out.push_str(&s[last..m.start()]);
            out.push_str(&self.name(m.as_str()));
            last = m.end();
        }
        out.push_str(&s[last..]);
        out
    }

    fn walk(&mut self, re: &Regex, v: &Value) -> Value {
        match v {
            Value::String(s) => Value::String(self.text(re, s)),
            Value::Array(a) => Value::Array(a.iter().map(|x| self.walk(re, x)).collect()),
            Value::Object(o) => {
                let mut m = serde_json::Map::new();
                for (k, x) in o {
                    m.insert(self.text(re, k), self.walk(re, x));
                }
                Value::Object(m)
            }
            x => x.clone(),
        }
    }

    pub fn apply(&mut self, v: &Value) -> Value {
        let re = Regex::new(r"v\d{7}|w\d{20}").unwrap();
        self.walk(&re, v)
    }
}
