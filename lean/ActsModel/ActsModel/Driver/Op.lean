import Lean.Data.Json
import ActsModel.Driver.Util
import ActsModel.Driver.Wf
import ActsModel.Model.Sys
open Lean

namespace Acts.Driver
open Acts Acts.Op

partial def exprOf (j : Lean.Json) : Acts.Expr :=
  let a := asArr j
  match asStr a[0]! with
  | "lit" => .lit (toModelJson a[1]!)
  | "var" => .var (asStr a[1]!)
  | "not" => .not (exprOf a[1]!)
  | "bin" =>
    let op : BinOp := match asStr a[1]! with
      | "==" => .eq | "!=" => .ne | "<" => .lt | "<=" => .le | ">" => .gt | ">=" => .ge | "&&" => .and | "||" => .or | _ => .add
    .bin op (exprOf a[2]!) (exprOf a[3]!)
  | _ => .lit .null

def tidStr (t : Nat) : String := if t == 0 then "$" else s!"@{t}"
def optTid : Option Nat → Lean.Json
  | some t => .str (tidStr t)
  | none => .null

def stateStr (s : Acts.Gen.TaskState) : String := s.toStr

def varsJson (vs : Acts.Vars) : Lean.Json := Lean.Json.mkObj (vs.map fun (k, v) => (k, fromModelJson v))

def msgJson (m : Msg) : List (String × Lean.Json) :=
  [("pid", .str m.pid), ("tid", .str (tidStr m.tid)), ("nid", .str m.nid), ("type", .str m.type), ("state", .str m.state),
   ("key", .str m.key), ("uses", .str m.uses), ("tag", .str m.tag), ("inputs", varsJson m.inputs), ("outputs", varsJson m.outputs)]

def obsJson : Obs → Lean.Json
  | .new pid tid nid kind prev => Lean.Json.mkObj [("k", "new"), ("pid", .str pid), ("tid", .str (tidStr tid)), ("nid", .str nid), ("kind", .str kind), ("prev", optTid prev)]
  | .tr pid tid o n => Lean.Json.mkObj [("k", "tr"), ("pid", .str pid), ("tid", .str (tidStr tid)), ("old", .str (stateStr o)), ("new", .str (stateStr n))]
  | .ptr pid o n => Lean.Json.mkObj [("k", "ptr"), ("pid", .str pid), ("old", .str (stateStr o)), ("new", .str (stateStr n))]
  | .gen m => Lean.Json.mkObj ([("k", Lean.Json.str "gen")] ++ msgJson m)
  | .pev _ ev m => Lean.Json.mkObj ([("k", Lean.Json.str "pev"), ("ev", Lean.Json.str ev)] ++ msgJson m)
  | .res ok err => Lean.Json.mkObj [("k", "res"), ("ok", .bool ok), ("err", .str err)]
  | .rm pid => Lean.Json.mkObj [("k", "rm"), ("pid", .str pid)]

def trefOf (j : Lean.Json) : TRef :=
  match j with
  | .num _ => .idx (asInt j)
  | .str s => .raw s
  | .obj _ =>
    match j.getObjVal? "nid" with
    | .ok (.str n) => .nid n (jint j "k")
    | _ =>
      let pick := ["open", "any", "term", "acts"].find? fun c => (j.getObjVal? c).isOk
      match pick with
      | some c => .cls c (jnat j c)
      | none => .raw "?"
  | _ => .raw "?"

def sopOf (j : Lean.Json) : SOp :=
  let a := asArr j
  match asStr a[0]! with
  | "deploy" => .deploy (asNat a[1]!)
  | "start" => .start (asStr a[1]!) (varsOf a[2]!)
  | "run" => .run (asNat a[1]!)
  | "runall" => .runall (if a.size > 1 then asStr a[1]! else "fifo") (if a.size > 2 then asNat a[2]! else 1)
  | "act" => .act (asStr a[1]!) (asStr a[2]!) (trefOf a[3]!) (varsOf (if a.size > 4 then a[4]! else .null))
  | n => .other n

def taskDump (t : Task) : Lean.Json :=
  Lean.Json.mkObj [("tid", .str (tidStr t.tid)), ("nid", .str t.nid), ("state", .str (stateStr t.state)), ("prev", optTid t.prev),
    ("data", varsJson t.data),
    ("err", match t.err with | some e => Lean.Json.mkObj [("ecode", .str e.ecode), ("message", .str e.message)] | none => .null)]

def procDump (p : Proc) : Lean.Json :=
  Lean.Json.mkObj [("k", "dump"), ("pid", .str p.pid), ("state", .str (stateStr p.state)), ("env", varsJson p.env),
    ("err", match p.err with | some e => Lean.Json.mkObj [("ecode", .str e.ecode), ("message", .str e.message)] | none => .null),
    ("tasks", Lean.Json.arr (p.tasks.map taskDump).toArray)]

/-- run a scenario on the operational model: one list of observations per op -/
def opRun (req : Lean.Json) : Lean.Json :=
  let models := (jarr req "models").toList.map parseWorkflow
  let exprs := match jget req "exprs" with
    | .obj kvs => kvs.toList.map fun (k, v) => (k, exprOf v)
    | _ => []
  let cfg := jget req "config"
  let s0 : Sys := { models := [], keep := jbool cfg "keep", exprs := exprs }
  let stepJ (st : Sys × List Lean.Json) (oj : Lean.Json) : Sys × List Lean.Json :=
    let (s, out) := st
    let op := sopOf oj
    let (s', obs) := match op with
      | .deploy i =>
        match models[i]? with
        | none => (s, [Obs.res false "bad-index"])
        | some w =>
          match Acts.Tree.build w with
          | .error (.dup _) => (s, [Obs.res false "dup-id"])
          | .error .eventIdEmpty => (s, [Obs.res false "event-id-empty"])
          | .ok _ => ({ s with models := (s.models.filter fun (x : Workflow) => x.id != w.id) ++ [w] }, [Obs.res true ""])
      | op => stepSys s op
    let q := Lean.Json.arr (s'.queue.map fun (p, t) => Lean.Json.arr #[Lean.Json.str p, Lean.Json.str (tidStr t)]).toArray
    let dumps := s'.procs.map procDump
    (s', out ++ [Lean.Json.mkObj [("obs", Lean.Json.arr ((obs.map obsJson) ++ [Lean.Json.mkObj [("k", "queue"), ("q", q)]] ++ dumps).toArray)]])
  let (_, out) := (jarr req "ops").toList.foldl stepJ (s0, [])
  Lean.Json.mkObj [("steps", Lean.Json.arr out.toArray)]

end Acts.Driver
