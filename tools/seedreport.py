#!/usr/bin/env python3
"""seeded/README.md from seeded/*/meta.json, confirm.json and checks.json"""
import glob
import json
import os

ROOT = os.path.dirname(os.path.dirname(os.path.abspath(__file__)))


def main():
    rows = []
    for d in sorted(glob.glob(os.path.join(ROOT, "seeded", "C*-*"))):
        name = os.path.basename(d)
        meta = json.load(open(os.path.join(d, "meta.json"))) if os.path.exists(os.path.join(d, "meta.json")) else {}
        conf = json.load(open(os.path.join(d, "confirm.json"))) if os.path.exists(os.path.join(d, "confirm.json")) else {}
        checks = json.load(open(os.path.join(d, "checks.json"))) if os.path.exists(os.path.join(d, "checks.json")) else {}
        caught, missed, nofail = [], [], []
        for tier, res in checks.items():
            for p, r in sorted(res.items()):
                if r["violations"]:
                    sig = (r["first"][0].get("signature") if r["first"] else None) or "proof/correspondence"
                    tag = f"{p}" + (" (thorough)" if tier != "quick" else "")
                    if r["first"] and all(f.get("no_failing_input") for f in r["first"]):
                        nofail.append(tag)
                    else:
                        caught.append(f"{tag}: `{sig}`")
                elif tier == "quick":
                    missed.append(p)
        if meta.get("status"):
            caught = [meta["status"]]
            missed = []
        rows.append((name, meta.get("title", ""), meta.get("trigger", ""), conf, caught, nofail, missed))
    L = ["# Seeded changes", "",
         "Each directory holds one change to `/repo` produced by a fresh sub-agent that saw only the text of one property and a scratch worktree",
         "(nothing from `/verif`): `patch.diff` (applies to `/repo` HEAD with `git -C /repo apply`), the agent's demonstration (`demo.rs`, `demo.md`),",
         "`meta.json`, `confirm.json` (my own confirmation in a scratch worktree: the demonstration passes on the original tree, fails on the changed",
         "tree, the whole existing suite passes on the changed tree) and `checks.json` (verdicts of the checks run against it with",
         "`python3 tools/seedcheck.py seeded/<dir> [Cnn …]`, which applies the patch, runs the checks and undoes it). None is ever committed to `/repo`.",
         "", "| change | what | confirmed | caught by (first signature) | only as broken proof | run and silent |", "|---|---|---|---|---|---|"]
    for name, title, trig, conf, caught, nofail, missed in rows:
        ok = "yes" if conf.get("demo_on_original") == "pass" and conf.get("demo_on_changed") == "fail" and conf.get("suite_ok") else "?"
        L.append(f"| {name} | {title[:140]} | {ok} | {'; '.join(caught) or '—'} | {', '.join(nofail) or '—'} | {', '.join(missed) or '—'} |")
    L.append("")
    open(os.path.join(ROOT, "seeded", "README.md"), "w").write("\n".join(L))
    print("\n".join(L[-len(rows) - 1:]))


if __name__ == "__main__":
    main()
