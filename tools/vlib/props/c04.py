"""C04 — control flow conforms to the YAML: order, branch selection, skips"""
import copy
import itertools
import json
import re

from .. import gen, opcorr
from ..core import obs_of
from ..rng import Rng

ASSUMPTIONS = [
    "the reference interpretation covers steps, sequential acts (irq/msg), branches with if / else / needs (needs lists over condition branches of the same step), "
    "conditional steps and acts; backward next and mixed steps are compared with the operational model only (interpretation notes in DESIGN C04)",
    "thread scheduling is exercised as (a) every release order the stepped harness draws and (b) free-running runs on 1..8 worker threads; it is not enumerated exhaustively",
]

TERMINAL = {"completed", "submitted", "backed", "cancelled", "error", "aborted", "skipped", "removed"}


def permute_branches(w, rng):
    """a copy of the workflow with the branches of every step permuted"""
    w = copy.deepcopy(w)

    def steps(ss):
        for s in ss:
            if s.get("branches"):
                s["branches"] = rng.shuffle(s["branches"])
                for b in s["branches"]:
                    steps(b.get("steps", []))
    steps(w["steps"])
    return w


def gen_base(seed, i, tier):
    rng = Rng(seed * 3267000013 + i)
    g = gen.WfGen(rng.fork("wf"), depth=rng.pick([1, 2, 2, 3]), max_steps=rng.range(1, 4), max_branches=3, max_acts=rng.range(1, 3), p_if=25,
                  p_branches=50, needs="cond" if i % 3 == 0 else False, mixed=(i % 4 == 1), two_else=False, act_kinds=((gen.IRQ, 5), (gen.MSG, 2)))
    return g.workflow("m1"), g.exprs, rng


def scenario(w, exprs, inputs, rng, sid, mode="stepped", workers=1):
    ops = [["deploy", 0], ["start", "m1", dict(pid="p1", **inputs)]]
    policy = rng.pick(["fifo", "lifo", "rand"])
    for _ in range(12):
        ops.append(["runall", policy, rng.below(1 << 30)])
        ops.append(["act", "next", "p1", {"open": rng.below(4)}, {}])
    ops.append(["runall", policy, rng.below(1 << 30)])
    cfg = {"keep": True, "dump_each": True}
    if mode == "free":
        cfg.update({"mode": "free", "workers": workers})
    return {"id": sid, "config": cfg, "models": [w], "ops": ops, "exprs": exprs, "inputs": inputs}


def points(sc, res):
    out = []
    for st in res.get("steps", []):
        d = [o for o in st["obs"] if o.get("k") == "dump" and o.get("pid") == "p1"]
        q = [o for o in st["obs"] if o.get("k") == "queue"]
        if d and not d[0].get("absent") and (not q or len(q[0]["q"]) == 0):
            out.append((st["op"], d[0]))
    return out


def order_violation(res):
    """successor of a step / act created while its predecessor is not terminal"""
    state = {}
    kind = {}
    for i, o in obs_of(res, {"new", "tr"}):
        if o["k"] == "tr":
            state[(o["pid"], o["tid"])] = o["new"]
        else:
            kind[(o["pid"], o["tid"])] = (o["kind"], o["nid"])
            p = o.get("prev")
            if p is not None and kind.get((o["pid"], p), (None,))[0] == o["kind"] and o["kind"] in ("step", "act"):
                if state.get((o["pid"], p)) not in TERMINAL:
                    return (i, o["nid"], kind[(o["pid"], p)][1], state.get((o["pid"], p)))
    return None


def needs_table(sc):
    needs = {}

    def walk(ss):
        for s_ in ss:
            for b in s_.get("branches", []):
                if b.get("needs"):
                    needs[b["id"]] = list(b["needs"])
                walk(b.get("steps", []))
    walk(sc["models"][0]["steps"])
    return needs


def needs_request(sc, res):
    """the clause 'a needs-branch starts after a needed sibling finished' on the engine's own trace, for every instance of the branch: the
    predicate is `Spec.needsMonitor` (Lean, with its soundness theorem in Props/C04), evaluated by the driver on this stream"""
    needs = needs_table(sc)
    if not needs:
        return None
    evs, where = [], []
    for i, o in obs_of(res, {"new", "tr"}):
        if o.get("pid") != "p1":
            continue
        if o["k"] == "new":
            evs.append(["new", o["tid"], o["nid"], o.get("prev")])
        else:
            evs.append(["tr", o["tid"], o["old"], o["new"]])
        where.append((i, o.get("nid"), o["tid"]))
    return {"cmd": "c04.needs", "needs": [[k, v] for k, v in sorted(needs.items())], "events": evs}, where


def reentry_scenario(rng, i):
    """the step that holds a needs-branch is entered twice in one process (a client `back`): the branch of the second pass waits for
    the needed sibling of the second pass"""
    two = rng.chance(1, 2)
    brs = [{"id": "bA", "if": "(x == 0)", "steps": [{"id": "sA", "acts": [{"id": "a", "uses": gen.IRQ, "key": "ka"}]}]},
           {"id": "bN", "needs": ["bA"], "steps": [{"id": "sN", "acts": [{"id": "n", "uses": gen.IRQ, "key": "kn"}]}]}]
    if two:
        brs.append({"id": "bM", "needs": ["bA"], "steps": [{"id": "sM", "acts": [{"id": "m", "uses": gen.IRQ, "key": "km"}]}]})
    brs = rng.shuffle(brs)
    w = {"id": "m1", "steps": [{"id": "s1", "acts": [{"id": "a0", "uses": gen.IRQ, "key": "ka0"}]}, {"id": "s2", "branches": brs},
                               {"id": "s3", "acts": [{"id": "z", "uses": gen.IRQ, "key": "kz"}]}]}
    pol = rng.pick(["fifo", "lifo", "rand"])
    ops = [["deploy", 0], ["start", "m1", {"pid": "p1", "x": 0, "y": 0}], ["runall", pol, rng.below(1 << 30)],
           ["act", "next", "p1", {"nid": "a0", "k": -1}, {}], ["runall", pol, rng.below(1 << 30)],
           ["act", "next", "p1", {"nid": "a", "k": -1}, {}], ["runall", pol, rng.below(1 << 30)],
           # the needed sibling of the first pass has ended, the needs-branch runs: back to the first step from inside it
           ["act", "back", "p1", {"nid": "n", "k": -1}, {"to": "s1"}], ["runall", pol, rng.below(1 << 30)],
           ["act", "next", "p1", {"nid": "a0", "k": -1}, {}], ["runall", pol, rng.below(1 << 30)]]
    # second pass: the other branches wait for the second instance of bA
    for nid in rng.shuffle(["a", "n"] + (["m"] if two else [])) + ["a", "n", "m", "z"]:
        ops += [["act", "next", "p1", {"nid": nid, "k": -1}, {}], ["runall", pol, rng.below(1 << 30)]]
    return {"id": f"c04-reentry-{i}", "config": {"keep": True, "dump_each": True}, "models": [w], "ops": ops,
            "exprs": {"(x == 0)": ["bin", "==", ["var", "x"], ["lit", 0]]}, "inputs": {"x": 0, "y": 0}, "no_ref": True}


def mixed_tail_scenario(rng, i):
    """a step with acts beside its branches whose branches end while a later act of the chain is still to come (scheduled but not yet
    initialised, or waiting): the step stays open until the acts have run"""
    inner = rng.pick([[], [{"id": "mi", "uses": gen.MSG, "key": "kmi"}], [{"id": "mi", "uses": gen.MSG, "key": "kmi"}, {"id": "mj", "uses": gen.MSG, "key": "kmj"}]])
    b1 = {"id": "b1", "if": "(x == 0)", "steps": [{"id": "s11", "acts": inner}] if (inner or rng.chance(1, 2)) else []}
    acts = [{"id": "a1", "uses": rng.pick([gen.MSG, gen.MSG, gen.IRQ]), "key": "ka1"}, {"id": "a2", "uses": rng.pick([gen.IRQ, gen.IRQ, gen.MSG]), "key": "ka2"}]
    if rng.chance(1, 3):
        acts.append({"id": "a3", "uses": gen.IRQ, "key": "ka3"})
    brs = [b1] + ([{"id": "b2", "if": "(x == 1)", "steps": []}] if rng.chance(1, 2) else [])
    w = {"id": "m1", "steps": [{"id": "s1", "branches": rng.shuffle(brs), "acts": acts}, {"id": "s2", "acts": [{"id": "z", "uses": gen.IRQ, "key": "kz"}]}]}
    pol = rng.pick(["fifo", "lifo", "rand"])
    ops = [["deploy", 0], ["start", "m1", {"pid": "p1", "x": 0, "y": 0}]]
    for _ in range(6):
        ops += [["runall", pol, rng.below(1 << 30)], ["act", "next", "p1", {"open": 0}, {}]]
    ops.append(["runall", pol, rng.below(1 << 30)])
    cfg = {"keep": True, "dump_each": True}
    if rng.chance(1, 4):
        cfg.update({"mode": "free", "workers": rng.pick([1, 2, 4])})
    return {"id": f"c04-mixedtail-{i}", "config": cfg, "models": [w], "ops": ops,
            "exprs": {"(x == 0)": ["bin", "==", ["var", "x"], ["lit", 0]], "(x == 1)": ["bin", "==", ["var", "x"], ["lit", 1]]}, "inputs": {"x": 0, "y": 0}}


def run_batch(ctx, bases, stats):
    scs = []
    groups = []          # scenarios of one base workflow (its permutations)
    for i in bases:
        w, exprs, rng = gen_base(ctx.seed, i, ctx.tier)
        vals = [(x, y) for x in range(4) for y in range(4)]
        pick = rng.shuffle(vals)[: (3 if ctx.tier == "quick" else 8)]
        variants = [w] + [permute_branches(w, rng.fork("p%d" % k)) for k in range(2 if ctx.tier == "quick" else 5)]
        grp = []
        for (x, y) in pick:
            for vi, wv in enumerate(variants):
                sid = f"c04-{i}-{x}{y}-v{vi}"
                mode, workers = "stepped", 1
                if rng.chance(1, 6):
                    mode, workers = "free", rng.pick([1, 2, 4, 8])
                scs.append(scenario(wv, exprs, {"x": x, "y": y}, rng.fork(sid), sid, mode, workers))
                grp.append(len(scs) - 1)
        groups.append(grp)
        r2 = Rng(ctx.seed * 7368787 + i)
        scs.append(reentry_scenario(r2.fork("re"), i))
        scs.append(mixed_tail_scenario(r2.fork("mt"), i))
    results = ctx.harness("run", scs)
    models = ctx.driver([opcorr.model_request(sc) for sc in scs], tag="dm")
    ref_reqs, ptsl = [], []
    for sc, res in zip(scs, results):
        pts = points(sc, res)
        ptsl.append(pts)
        answered = [sorted(t["nid"] for t in d["tasks"] if t["uses"] == gen.IRQ and t["state"] == "completed") for _, d in pts]
        ref_reqs.append({"cmd": "ref.eval", "model": sc["models"][0], "exprs": sc["exprs"], "inputs": sc["inputs"], "answered": answered})
    refs = ctx.driver(ref_reqs, tag="dr")
    stats["scenarios"] += len(scs)
    nreq, needs_where = [], {}
    for k, (sc, res) in enumerate(zip(scs, results)):
        rq = needs_request(sc, res)
        if rq:
            nreq.append((k, rq[0]))
            needs_where[k] = rq[1]
    needs_verdicts = dict(zip([k for k, _ in nreq], ctx.driver([r for _, r in nreq], tag="dn")))
    stats["needs_streams_judged"] = stats.get("needs_streams_judged", 0) + len(nreq)
    final_by_group = {}
    for k, (sc, res, pts, rf, mod) in enumerate(zip(scs, results, ptsl, refs, models)):
        ctx.cov["evaluations"] += 1
        if res.get("panic") or res.get("crashed"):
            ctx.violation("C04|engine-panic", f"engine panicked: {str(res.get('panic'))[:100]}", {"scenario": sc})
            continue
        free = sc["config"].get("mode") == "free"
        if free:
            stats["free_running"] += 1
        ov = order_violation(res)
        if ov:
            ctx.violation(f"C04|order|{ov[3]}", f"op {ov[0]}: {ov[1]} was started while its predecessor {ov[2]} was {ov[3]}", {"scenario": sc})
            continue
        nv = needs_verdicts.get(k)
        if isinstance(nv, dict) and nv.get("ok") is False:
            opi, _, tid = needs_where[k][nv["at"]] if nv.get("at", -1) < len(needs_where[k]) else (None, None, None)
            ctx.violation("C04|needs-branch-started-early", f"op {opi}: the needs-branch task {tid} left pending while none of the siblings it names (beneath the same task of the step) "
                          f"had ended (event {nv.get('at')} of the stream)", {"scenario": sc})
            continue
        if sc.get("no_ref"):
            stats["reentry_runs"] = stats.get("reentry_runs", 0) + 1
            ctx.nontrivial([sc["models"], sc["ops"]])
            continue
        if not isinstance(rf, dict) or not rf.get("in_fragment"):
            continue
        stats["in_fragment"] += 1
        if '"needs"' in json.dumps(sc["models"][0]):
            stats["with_needs"] += 1
        bad = False
        finished_run = bool(pts) and not any(t["state"] in ("interrupted", "running", "ready", "pending", "none") for t in pts[-1][1]["tasks"])
        for pi, ((i, d), pt) in enumerate(zip(pts, rf.get("points", []))):
            if rf.get("final_only") and not (finished_run and pi == len(pts) - 1):
                # a step with acts beside an else branch: when the else branch is decided depends on the schedule, the outcome does not
                stats["points_skipped_schedule_dependent"] = stats.get("points_skipped_schedule_dependent", 0) + 1
                continue
            stats["points"] += 1
            eng = sorted((t["nid"], t["state"]) for t in d["tasks"])
            want = sorted((a, b) for a, b in pt["states"])
            if eng != want:
                diff_e = [x for x in eng if x not in want][:4]
                diff_r = [x for x in want if x not in eng][:4]
                kind = "ran-but-not-expected" if any(x[0] not in dict(want) for x in diff_e) else ("expected-but-not-run" if any(x[0] not in dict(eng) for x in diff_r) else "state")
                ctx.violation(f"C04|conformance|{kind}", f"after op {i}: engine {diff_e} vs reference {diff_r} (inputs {sc['inputs']}, {'free ' + str(sc['config'].get('workers')) + ' workers' if free else 'stepped'})",
                              {"scenario": sc, "op": i, "engine": eng, "reference": want})
                bad = True
                break
        if bad:
            continue
        if pts:
            final = sorted((t["nid"], t["state"]) for t in pts[-1][1]["tasks"])
            stats["branches_taken"] += sum(1 for a, b in final if a.startswith("b") and b == "completed")
            needs_ids = set(re.findall(r'"id": "(b\d+)"[^{}]*?"needs"', json.dumps(sc["models"][0])))
            stats["needs_branch_ran"] += sum(1 for a, b in final if a in needs_ids and b == "completed")
            else_ids = set(re.findall(r'"id": "(b\d+)"[^{}]*?"else": true', json.dumps(sc["models"][0])))
            stats["else_taken"] += sum(1 for a, b in final if a in else_ids and b == "completed")
            key = sc["id"].rsplit("-v", 1)[0]
            # variants are compared on their outcome: a run whose answer budget ended with interrupts still open has none yet
            if not any(b in ("interrupted", "running", "ready", "pending", "none") for a, b in final):
                final_by_group.setdefault(key, []).append((sc, final))
            if any(a.startswith("b") and b == "completed" for a, b in final) and any(b == "skipped" for a, b in final):
                ctx.nontrivial([sc["models"], sc["inputs"]])
        if not free:
            r = opcorr.compare(sc, res, mod, ["new", "tr", "ptr", "res", "queue"], with_dump=True)
            if r and r[1] not in ("unsupported", "exec-after-removal", "engine-stuck"):
                ctx.proof_break("correspondence: Op model", f"{sc['id']} op {r[0]} stream {r[1]}: {r[2][:300]}")
            else:
                stats["op_model_agree"] += 1
    # ---- independence of branch declaration order and of the schedule: all variants of one (workflow, inputs) end alike
    for key, runs in final_by_group.items():
        base = runs[0][1]
        for sc, fin in runs[1:]:
            if fin != base:
                d = [x for x in fin if x not in base][:4]
                ctx.violation("C04|order-dependence", f"the outcome depends on branch order / schedule: {d} vs {[x for x in base if x not in fin][:4]}",
                              {"scenario": sc, "other": runs[0][0]["id"], "final": fin, "final_other": base})
                break
    return [{k: v for k, v in sc.items()} for sc in scs[:1]]


def run(ctx):
    ctx.check_theorems("ActsModel.Props.C04")
    n = 70 if ctx.tier == "quick" else 1200
    stats = {"scenarios": 0, "in_fragment": 0, "points": 0, "free_running": 0, "op_model_agree": 0, "branches_taken": 0, "else_taken": 0, "with_needs": 0, "needs_branch_ran": 0}
    first = None
    chunk = 60          # base workflows per batch: the observations of a batch are dropped before the next one is run
    for lo in range(0, n, chunk):
        scs = run_batch(ctx, range(lo, min(n, lo + chunk)), stats)
        if first is None and scs:
            first = scs[0]
    scs = [first]
    ctx.sample({"scenario": scs[0]["id"], "model": scs[0]["models"][0], "inputs": scs[0]["inputs"]}, limit=1)
    ctx.cov["correspondence"] = {"distribution": stats, "streams_compared": ["per-node states vs Ref.states at every quiescent point", "start order vs predecessor terminal (trace monitor)",
                                                                             "all branch permutations x schedules x worker counts of one (workflow, inputs) end alike", "stepped runs vs Op model"]}
    ctx.cov["rule"] = ("workflows of the bounded grammar (depth<=3, <=4 steps, <=3 branches, <=3 acts, conditions over x,y in 0..3), each with several input valuations, "
                       "branch permutations, FIFO/LIFO/random release orders and free-running runs on 1/2/4/8 workers; non-trivial = some branch ran and something was skipped; distinct by (model, inputs)")
    ctx.cov["clauses_proved"] = ["independence of branch declaration order (done / opens / states up to permutation)", "else runs iff no sibling condition held", "a needs-branch is pending until a needed sibling has ended, then runs (needs_branch_waits, needs_started_after_needed)",
                                 "the needs monitor is sound for every stream and every instance of the branch (accepted_needs_started_after_needed)",
                                 "step starts after predecessor is terminal; acts sequential; skipped step/act hands over", "determinism (by construction)"]
    ctx.cov["clauses_not_proved"] = ["the engine refines Ref (compared node by node at every quiescent point)", "backward next, needs lists that name waiting branches (Op model only)"]


def replay(ctx, data):
    ctx.build([])
    sc = data["replay"].get("scenario")
    if sc:
        res = ctx.harness("run", [sc])[0]
        for i, d in points(sc, res):
            print(i, [(t["nid"], t["state"]) for t in d["tasks"]])
    return 0
