"""C08 — message stream is a faithful, ordered image of task lifecycles"""
import json

from .. import gen, opcorr
from ..core import obs_of
from ..rng import Rng

ASSUMPTIONS = [
    "generation order is taken at Emitter::emit_message (verif hook); delivery to the default channel is compared as a multiset per op (dispatch tasks are spawned independently)",
    "message ids are nanoid(21) in production: uniqueness is monitored on every run, collision freedom of nanoid is trusted",
]


def uses_map(w):
    out = {w["id"]: ""}

    def walk(x):
        if isinstance(x, dict):
            if "id" in x:
                out.setdefault(x["id"], x.get("uses", ""))
            for v in x.values():
                walk(v)
        elif isinstance(x, list):
            for v in x:
                walk(v)
    walk(w.get("steps", []))
    return out


def late_child_scenario(rng, i):
    """a parent that has already ended is shown a child that ends later: an act revived by its catch is answered by the client while its catch
    steps are still open (the act and its step end), and the catch steps are answered afterwards; or a step ends over an open act"""
    handler = [{"id": "cs1", "acts": [{"id": "ca1", "uses": gen.IRQ, "key": "kca1"}] + ([{"id": "ca2", "uses": gen.MSG, "key": "kca2"}] if rng.chance(1, 2) else [])}]
    a1 = {"id": "a1", "uses": gen.IRQ, "key": "ka1"}
    s1 = {"id": "s1", "acts": [a1] + ([{"id": "a2", "uses": gen.IRQ, "key": "ka2"}] if rng.chance(1, 2) else [])}
    if rng.chance(2, 3):
        a1["catches"] = [{"on": "e1", "steps": handler}]
    else:
        s1["catches"] = [{"on": "e1", "steps": handler}]
    w = {"id": "m1", "steps": [s1, {"id": "s2", "acts": [{"id": "a9", "uses": gen.IRQ, "key": "ka9"}]}]}
    ops = [["deploy", 0], ["start", "m1", {"pid": "p1", "x": 0, "y": 0}], ["runall"],
           ["act", "error", "p1", {"nid": "a1", "k": 0}, {"ecode": "e1", "message": "x"}], ["runall"],
           ["act", rng.pick(["next", "next", "submit", "skip"]), "p1", {"nid": "a1", "k": 0}, {}], ["runall"]]
    for _ in range(6):
        ops.append(["act", "next", "p1", {"open": rng.below(2)}, {}])
        ops.append(["runall", rng.pick(["fifo", "lifo"]), rng.below(1 << 30)])
    return {"id": f"c08-late-{i}", "config": {"keep": rng.chance(1, 2), "dump_each": False}, "models": [w], "ops": ops, "exprs": {}, "features": ["catch", "late-child"]}


def second_error_scenario(rng, i):
    """a task whose catch has already taken one error is reached by a further error: raised inside the steps of the handler, or by a
    second `error` on the act its catch revived; that error is not caught again and must be reported like any other ending"""
    handler = [{"id": "cs1", "acts": [{"id": "ca1", "uses": gen.IRQ, "key": "kca1"}]}]
    if rng.chance(1, 3):
        handler.append({"id": "cs2", "acts": [{"id": "ca2", "uses": gen.IRQ, "key": "kca2"}]})
    a1 = {"id": "a1", "uses": gen.IRQ, "key": "ka1"}
    s1 = {"id": "s1", "acts": [a1]}
    c = {"steps": handler}
    if rng.chance(1, 2):
        c["on"] = "e1"
    on_act = rng.chance(1, 2)
    (a1 if on_act else s1)["catches"] = [c]
    steps = [s1, {"id": "s2", "acts": [{"id": "a9", "uses": gen.IRQ, "key": "ka9"}]}]
    if rng.chance(1, 3):
        # … beneath an outer step with a catch of its own
        steps = [{"id": "s0", "branches": [{"id": "b0", "if": "(x == 0)", "steps": [s1]}], "catches": [{"on": "e2", "steps": [{"id": "os1", "acts": [{"id": "oa1", "uses": gen.IRQ, "key": "koa1"}]}]}]}, steps[1]]
    w = {"id": "m1", "steps": steps}
    ops = [["deploy", 0], ["start", "m1", {"pid": "p1", "x": 0, "y": 0}], ["runall"],
           ["act", "error", "p1", {"nid": "a1", "k": 0}, {"ecode": "e1", "message": "first"}], ["runall"]]
    if rng.chance(1, 3):
        ops += [["act", "next", "p1", {"nid": "ca1", "k": 0}, {}], ["runall"]]
    target = rng.pick(["ca1", "ca1", "a1", "ca2"])
    ops += [["act", "error", "p1", {"nid": target, "k": 0}, {"ecode": rng.pick(["e1", "e2", "e3"]), "message": "second"}],
            ["runall", rng.pick(["fifo", "lifo"]), rng.below(1 << 30)]]
    for _ in range(6):
        ops.append(["act", "next", "p1", {"open": 0}, {}])
        ops.append(["runall"])
    return {"id": f"c08-err2-{i}", "config": {"keep": rng.chance(1, 2), "dump_each": False}, "models": [w], "ops": ops, "exprs": {"(x == 0)": ["bin", "==", ["var", "x"], ["lit", 0]]},
            "features": ["catch", "second-error"]}


def concurrent_scenario(rng, i):
    """several clients end one open act at the same time: the act reports one ending, with the state it ended in"""
    ev = rng.pick(["next", "abort", "skip", "submit", "error", "next"])
    n = rng.pick([2, 3, 4])
    w = {"id": "m1", "steps": [{"id": "s1", "acts": [{"id": "a1", "uses": gen.IRQ, "key": "ka1"}]}, {"id": "s2", "acts": [{"id": "a2", "uses": gen.IRQ, "key": "ka2"}]}]}
    if rng.chance(1, 2):
        w["steps"][0] = {"id": "s1", "branches": [{"id": "b1", "if": "(x == 0)", "steps": [{"id": "s11", "acts": [{"id": "a1", "uses": gen.IRQ, "key": "ka1"}]}]},
                                                  {"id": "b2", "if": "(x == 0)", "steps": [{"id": "s12", "acts": [{"id": "a3", "uses": gen.IRQ, "key": "ka3"}]}]}]}
    ops = [["deploy", 0], ["start", "m1", {"pid": "p1", "x": 0, "y": 0}], ["runall"],
           ["conc", n, ev, "p1", {"nid": "a1", "k": -1}, {"ecode": "e1", "message": "x"} if ev == "error" else {}], ["runall"]]
    for _ in range(3):
        ops += [["act", "next", "p1", {"open": 0}, {}], ["runall"]]
    return {"id": f"c08-conc-{i}", "config": {"keep": True, "dump_each": False}, "models": [w], "ops": ops,
            "exprs": {"(x == 0)": ["bin", "==", ["var", "x"], ["lit", 0]]}, "features": ["concurrent"], "no_op_model": True}


def runtime_act_reload_scenario(rng, i):
    """acts created at run time without an id of their own (a pushed act, the act of a lifecycle hook) are open when the process is
    reloaded, and are ended afterwards: their terminal message names the same node as their created message"""
    store = "sqlite" if i % 2 == 0 else "mem"
    cut = ["restart"] if (store == "sqlite" and rng.chance(1, 2)) else ["evict", "p1"]
    s1 = {"id": "s1", "acts": [{"id": "a1", "uses": gen.IRQ, "key": "ka1"}]}
    hook = rng.chance(1, 2)
    if hook:
        s1["setup"] = [{"uses": gen.IRQ, "key": "khook", "on": "created"}]
    w = {"id": "m1", "steps": [s1, {"id": "s2", "acts": [{"id": "a2", "uses": gen.IRQ, "key": "ka2"}]}]}
    ops = [["deploy", 0], ["start", "m1", {"pid": "p1", "x": 0, "y": 0}], ["runall"]]
    if not hook:
        ops += [["act", "push", "p1", {"nid": "s1", "k": -1}, {"uses": gen.IRQ, "key": "pushed"}], ["runall"]]
    ops.append(cut)
    for _ in range(5):
        ops += [["act", rng.pick(["next", "next", "skip"]), "p1", {"open": rng.below(2)}, {}], ["runall"]]
    return {"id": f"c08-rtact-{i}", "config": {"keep": True, "dump_each": False, "store": store}, "models": [w], "ops": ops, "exprs": {},
            "features": ["runtime-act", "reload"], "no_op_model": True, "runtime_uses": gen.IRQ}


def registered_package_scenario(rng, i):
    """message and interrupt acts of packages a client has registered (they exist in the store only): they report like the built-in ones"""
    acts = [{"id": "n1", "uses": "app.notify", "key": "kn1", "params": {"a": 1}}, {"id": "q1", "uses": "app.ask", "key": "kq1", "params": {}},
            {"id": "m1a", "uses": gen.MSG, "key": "km1"}]
    w = {"id": "m1", "steps": [{"id": "s1", "acts": rng.shuffle(acts)}, {"id": "s2", "acts": [{"id": "n2", "uses": "app.notify", "key": "kn2"}]}]}
    ops = [["deploy", 0], ["start", "m1", {"pid": "p1", "x": 0, "y": 0}], ["runall"]]
    for _ in range(3):
        ops += [["act", "next", "p1", {"open": 0}, {}], ["runall"]]
    return {"id": f"c08-pkg-{i}", "config": {"keep": True, "dump_each": False, "packages": [{"name": "app.notify", "run_as": "msg"}, {"name": "app.ask", "run_as": "irq"}]},
            "models": [w], "ops": ops, "exprs": {}, "features": ["registered-package"], "no_op_model": True,
            "uses_kind": {"app.notify": gen.MSG, "app.ask": gen.IRQ}}


def cancel_scenario(rng, i):
    """a cancel of a completed act after the steps behind it have made partial progress: some of their acts have ended, some are open"""
    nsteps = rng.range(2, 3)
    steps = []
    for j in range(1, nsteps + 1):
        acts = [{"id": f"a{j}{q}", "uses": gen.IRQ if rng.chance(3, 4) else gen.MSG, "key": f"k{j}{q}"} for q in range(rng.range(1, 3))]
        acts[0]["uses"] = gen.IRQ
        steps.append({"id": f"s{j}", "acts": acts})
    w = {"id": "m1", "steps": steps}
    ops = [["deploy", 0], ["start", "m1", {"pid": "p1", "x": 0, "y": 0}], ["runall"]]
    for _ in range(rng.range(1, 4)):
        ops.append(["act", "next", "p1", {"open": 0}, {}])
        ops.append(["runall"])
    ops.append(["act", "cancel", "p1", {"nid": "a10", "k": 0}, {}])
    ops.append(["runall", rng.pick(["fifo", "lifo"]), rng.below(1 << 30)])
    for _ in range(6):
        ops.append(["act", "next", "p1", {"open": 0}, {}])
        ops.append(["runall"])
    return {"id": f"c08-cancel-{i}", "config": {"keep": rng.chance(1, 2), "dump_each": False}, "models": [w], "ops": ops, "exprs": {}, "features": ["cancel"]}


def gen_scenario(seed, i):
    rng = Rng(seed * 472882027 + i)
    if i % 10 == 9:
        return late_child_scenario(rng, i)
    if i % 10 == 4:
        return cancel_scenario(rng, i)
    if i % 10 == 7:
        return second_error_scenario(rng, i)
    if i % 20 == 2:
        return concurrent_scenario(rng, i)
    if i % 20 == 12:
        return runtime_act_reload_scenario(rng, i)
    if i % 40 == 16:
        return registered_package_scenario(rng, i)
    g = gen.WfGen(rng.fork("wf"), depth=rng.pick([1, 2, 2]), max_steps=3, max_branches=3, max_acts=3, p_if=15, p_branches=40,
                  needs=rng.chance(1, 5), mixed=rng.chance(1, 6), act_kinds=((gen.IRQ, 5), (gen.MSG, 3), (gen.SET, 1)), catches=rng.chance(1, 3))
    w = g.workflow("m1")
    ops = [["deploy", 0], ["start", "m1", {"pid": "p1", "x": rng.below(4), "y": rng.below(4)}]]
    ops += gen.random_history(rng.fork("h"), n=rng.range(6, 16), stepped_p=15,
                              actions=["next", "next", "next", "submit", "skip", "remove", "abort", "error", "next", "set_process_vars"])
    for _ in range(6):
        ops.append(["act", "next", "p1", {"open": 0}, {}])
        ops.append(["runall"])
    return {"id": f"c08-{seed}-{i}", "config": {"keep": rng.chance(1, 2), "dump_each": False}, "models": [w], "ops": ops, "exprs": g.exprs,
            "features": sorted(g.features)}


def events_of(sc, res):
    um = uses_map(sc["models"][0])
    # packages a client registered report like the built-in kind they run as; acts created at run time (hook acts, pushed acts) are not
    # in the model: the scenario says what they use
    kind_of = sc.get("uses_kind", {})
    rt_uses = sc.get("runtime_uses", "")
    raw_uses = {}
    evs, where = [], []
    for st in res.get("steps", []):
        i = st["op"]
        for o in st["obs"]:
            k = o.get("k")
            if k == "new" and o["pid"] == "p1":
                u = um.get(o["nid"], rt_uses) if o["kind"] == "act" else ""
                raw_uses[o["tid"]] = u
                evs.append(["new", o["tid"], o["nid"], o["kind"], kind_of.get(u, u), o.get("level", 0), o.get("prev")])
                where.append(i)
            elif k == "tr" and o["pid"] == "p1":
                evs.append(["tr", o["tid"], o["new"]])
                where.append(i)
            elif k == "gen" and o["pid"] == "p1" and o.get("retry", 0) == 0:
                # the message names the package its act uses (compared raw); for the monitor a registered package counts as the kind it runs as
                mu = o["uses"] if raw_uses.get(o["tid"], o["uses"]) == o["uses"] else "uses-differs:" + o["uses"]
                evs.append(["gen", o["tid"], o["m"], o["state"], o["type"], o["nid"], o["key"], kind_of.get(mu, mu), o["pid"]])
                where.append(i)
    evs.append(["done"])
    where.append(len(sc["ops"]) - 1)
    return evs, where


def run(ctx):
    ctx.check_theorems("ActsModel.Props.C08")
    n = 1200 if ctx.tier == "quick" else 8000
    scs = [gen_scenario(ctx.seed, i) for i in range(n)]
    results = ctx.harness("run", scs)
    models = ctx.driver([opcorr.model_request(sc) for sc in scs], tag="dm")
    evl = [events_of(sc, res) for sc, res in zip(scs, results)]
    verdicts = ctx.driver([{"cmd": "c08.monitor", "pid": "p1", "events": e} for e, _ in evl], tag="dv")
    stats = {"messages": 0, "created": 0, "terminal": 0, "msg_act_messages": 0, "delivered": 0, "op_model_agree": 0}
    for sc, res, mod, (evs, where), vd in zip(scs, results, models, evl, verdicts):
        ctx.cov["evaluations"] += 1
        if res.get("panic") or res.get("crashed"):
            ctx.violation("C08|engine-panic", f"engine panicked: {str(res.get('panic'))[:100]}", {"scenario": sc})
            continue
        if any(True for _ in obs_of(res, {"stuck"})):
            continue
        gens = [e for e in evs if e[0] == "gen"]
        stats["messages"] += len(gens)
        stats["created"] += sum(1 for e in gens if e[3] == "created")
        stats["terminal"] += sum(1 for e in gens if e[3] != "created")
        stats["msg_act_messages"] += sum(1 for e in gens if e[7] == gen.MSG)
        if len(gens) >= 8:
            ctx.nontrivial([sc["models"], sc["ops"]])
        if isinstance(vd, dict) and vd.get("ok") is False:
            ctx.cov["monitor_failures"] += 1
            at = vd.get("at", 0)
            op = where[at] if at < len(where) else None
            why = vd.get("why")
            # the task concerned and what kind it is
            tk = next((e for e in evs if e[0] == "new" and e[1] == vd.get("tid")), None)
            kind = (tk[3] + (":" + tk[4].split(".")[-1] if tk[4] else "")) if tk else "?"
            trigger = sc["ops"][op][1] if op is not None and sc["ops"][op][0] == "act" else (sc["ops"][op][0] if op is not None else "?")
            ctx.violation(f"C08|{why}|{kind}|{trigger}", f"{why} for task {vd.get('tid')} ({kind}) at event {at} (op {op} {sc['ops'][op][:3] if op is not None else ''})",
                          {"scenario": sc, "op": op, "events": evs[max(0, at - 8): at + 1], "task_events": [e for e in evs if len(e) > 1 and e[1] == vd.get("tid")]})
            continue
        # deliveries on the default channel = generated messages, op by op (multiset)
        bad = None
        for st in res.get("steps", []):
            g = sorted(o["m"] for o in st["obs"] if o.get("k") == "gen")
            d = sorted(o["m"] for o in st["obs"] if o.get("k") == "dlv" and o.get("chan") == "default")
            stats["delivered"] += len(d)
            if g != d:
                bad = (st["op"], g, d)
                break
        if bad:
            ctx.violation("C08|delivered-differs-from-generated", f"op {bad[0]}: generated {bad[1][:6]} delivered {bad[2][:6]}", {"scenario": sc, "op": bad[0]})
            continue
        r = None if sc.get("no_op_model") else opcorr.compare(sc, res, mod, ["new", "tr", "res", "queue", "gen"], with_dump=False)
        if r and r[1] not in ("unsupported", "exec-after-removal", "engine-stuck"):
            ctx.proof_break("correspondence: Op model", f"{sc['id']} op {r[0]} stream {r[1]}: {r[2][:300]}")
        else:
            stats["op_model_agree"] += 1
    ctx.sample({"scenario": scs[0]["id"], "model": scs[0]["models"][0], "messages": [e for e in evl[0][0] if e[0] == "gen"][:6]}, limit=1)
    ctx.cov["correspondence"] = {"distribution": stats, "streams_compared": ["creation/transition/generation stream -> Lean monitor streamMonitor (multiplicity, order, fields, completeness)",
                                                                             "default-channel deliveries vs generated messages per op", "generated messages incl. inputs/outputs vs Op model"]}
    ctx.cov["rule"] = ("workflows with irq/msg/set acts, branches, catches; every action kind incl. invalid and duplicate ones; partial queue releases; non-trivial = at least 8 messages; "
                       "completeness (every started/ended reporting task has its message) is checked at the end of the run; distinct by (model, ops)")
    ctx.cov["clauses_proved"] = ["the monitor is sound for every stream: in an accepted stream message ids are pairwise distinct, every task has at most one created and at most one terminal message "
                                 "with the created one first, every message carries the pid / node id / type / uses / state of its task, a child's created message follows its reporting parent's, "
                                 "and at the end of the run no started task lacks its created message and no ended task its terminal one (K3)", "emit predicate table (K1)", "message state table: created for the created class, the task's own state for terminal states (K1)",
                                 "every start and ending of an enabled task passes the predicate (K1)", "monitor rejects second terminal message / reused id"]
    ctx.cov["clauses_not_proved"] = ["multiplicity across operations for the engine (monitor on the engine's stream)", "message fields (compared with the operational model's createMessage)"]


def replay(ctx, data):
    ctx.build([])
    sc = data["replay"].get("scenario")
    if sc:
        res = ctx.harness("run", [sc])[0]
        evs, where = events_of(sc, res)
        print(ctx.driver([{"cmd": "c08.monitor", "pid": "p1", "events": evs}])[0])
        for e, w in zip(evs, where):
            print(w, e)
    return 0
