import Lean.Data.Json
import ActsModel.Driver.Util
import ActsModel.Model.Store
open Lean

namespace Acts.Driver
open Acts.Store

def valOf : Json → Val
  | .null => .null
  | .bool b => .bool b
  | .str s => .str s
  | .num n => .int (if n.exponent == 0 then n.mantissa else (Json.num n).getInt?.toOption.getD 0)
  | _ => .null

def jsonOfVal : Val → Json
  | .null => .null
  | .bool b => .bool b
  | .int z => Json.num (JsonNumber.fromInt z)
  | .str s => .str s

def rowOf (j : Json) : Row :=
  match j with
  | .obj kvs => { id := jstr j "id", fields := kvs.toList.map fun (k, v) => (k, valOf v) }
  | _ => { id := "", fields := [] }

def jsonOfRow (r : Row) : Json := Json.mkObj (r.fields.map fun (k, v) => (k, jsonOfVal v))

def opOf : String → Op
  | "ne" => .ne | "lt" => .lt | "le" => .le | "gt" => .gt | "ge" => .ge | _ => .eq

def queryOf (j : Json) : Query :=
  { conds := (jarr j "conds").toList.map fun c =>
      { isAnd := jstr c "type" != "or",
        exprs := (jarr c "exprs").toList.map fun e =>
          let a := asArr e
          { op := opOf (asStr a[0]!), key := asStr a[1]!, value := valOf a[2]! } },
    order := (jarr j "order").toList.map fun o => let a := asArr o; (asStr a[0]!, (a[1]!.getBool?).toOption.getD false),
    offset := jnat j "offset",
    limit := match j.getObjValAs? Nat "limit" with | .ok n => n | _ => 100000 }

def jsonOfPage (p : Page) : Json :=
  Json.mkObj [("count", p.count), ("page_size", p.pageSize), ("page_num", p.pageNum), ("page_count", p.pageCount),
    ("rows", Json.arr (p.rows.map jsonOfRow).toArray)]

/-- replay a CRUD/query sequence on the model collection; answers one JSON per op -/
def storeRun (req : Json) : Json :=
  let init : List Row := ((jarr req "init").toList.map rowOf)
  let step (st : List Row × List Json) (op : Json) : List Row × List Json :=
    let (db, out) := st
    let a := asArr op
    let verb := asStr a[0]!
    let arg := a[1]!
    match verb with
    | "create" => (create db (rowOf arg), out ++ [Json.mkObj [("ok", true)]])
    | "update" => (update db (rowOf arg), out ++ [Json.mkObj [("ok", true)]])
    | "delete" => (delete db (asStr arg), out ++ [Json.mkObj [("ok", true)]])
    | "find" => (db, out ++ [match find db (asStr arg) with
        | some r => Json.mkObj [("ok", true), ("row", jsonOfRow r)]
        | none => Json.mkObj [("ok", false)]])
    | "exists" => (db, out ++ [Json.mkObj [("ok", true), ("ret", (find db (asStr arg)).isSome)]])
    | "query" =>
      let q := queryOf arg
      if keysPresent db q then
        (db, out ++ [Json.mkObj [("ok", true), ("mem", jsonOfPage (memQuery db q)), ("spec", jsonOfPage (specQuery db q)),
          ("wf", Json.bool (q.conds.all fun c => !c.exprs.isEmpty))]])
      else (db, out ++ [Json.mkObj [("ok", false)]])
    | _ => (db, out ++ [Json.mkObj [("ok", false), ("bad", verb)]])
  let (db, out) := (jarr req "ops").toList.foldl step (init, [])
  Json.mkObj [("answers", Json.arr out.toArray), ("final", Json.arr (db.map jsonOfRow).toArray)]

end Acts.Driver
