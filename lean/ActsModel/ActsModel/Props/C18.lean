import ActsModel.Model.Chan

/-!
# C18 — Channels deliver exactly the messages their filters select
-/
namespace Acts.C18
open Acts.Gen Acts.Glob Acts.Chan

-- ------------------------------------------------------------------ the matcher (K2: all patterns of a form, all strings)

theorem starLoop_of_suffix (f : List Char → Bool) (s : List Char) (h : f [] = true) : starLoop f s = true := by
  induction s with
  | nil => simpa [starLoop]
  | cons c s ih => simp [starLoop, ih]

/-- `*` matches every string: a channel with default options receives everything -/
theorem star_all (s : List Char) : matchFlat [.star] s = true := by
  simp only [matchFlat]
  exact starLoop_of_suffix _ s (by simp [matchFlat])

def lits (cs : List Char) : List FTok := cs.map .lit

/-- a literal pattern matches exactly itself -/
theorem literal_iff (cs s : List Char) : matchFlat (lits cs) s = true ↔ s = cs := by
  induction cs generalizing s with
  | nil => cases s <;> simp [lits, matchFlat]
  | cons c cs ih =>
    cases s with
    | nil => simp [lits, matchFlat]
    | cons d s =>
      simp only [lits, List.map_cons, matchFlat, Bool.and_eq_true, beq_iff_eq, List.cons.injEq]
      have := ih s
      simp only [lits] at this
      rw [this]
      constructor <;> (rintro ⟨rfl, rfl⟩; exact ⟨rfl, rfl⟩)

/-- `?` matches exactly the one-character strings -/
theorem question_one (s : List Char) : matchFlat [.any] s = true ↔ s.length = 1 := by
  cases s with
  | nil => simp [matchFlat]
  | cons c s => cases s <;> simp [matchFlat]

/-- a class matches exactly the single characters inside (or, negated, outside) its ranges -/
theorem class_member (neg : Bool) (rs : List (Char × Char)) (c : Char) :
    matchFlat [.cls neg rs] [c] = (inRanges c rs != neg) := by
  simp [matchFlat]

/-- literal prefix followed by `*`: exactly the strings with that prefix (`key1*`) -/
theorem prefix_star (cs s : List Char) : matchFlat (lits cs ++ [.star]) s = true ↔ cs.isPrefixOf s = true := by
  induction cs generalizing s with
  | nil => simp [lits, star_all]
  | cons c cs ih =>
    cases s with
    | nil => simp [lits, matchFlat]
    | cons d s =>
      have := ih s
      simp only [lits] at this
      simp only [lits, List.map_cons, List.cons_append, matchFlat, Bool.and_eq_true, beq_iff_eq, this,
        List.isPrefixOf_cons_cons]

/-- an alternation is the union of its alternatives -/
theorem alt_union (a b : List FTok) (s : List Char) :
    matchToks [.alt [a, b]] s = (matchFlat a s || matchFlat b s) := by
  simp [matchToks, expand]

/-- in general: a string matches `{a₁,…,aₙ}rest` iff it matches some `aᵢ rest` -/
theorem alt_any (alts : List (List FTok)) (rest : List FTok) (s : List Char) :
    matchToks (.alt alts :: rest.map .flat) s = alts.any (fun a => matchFlat (a ++ rest) s) := by
  have hexp : ∀ r : List FTok, expand (r.map .flat) = [r] := by
    intro r; induction r with
    | nil => rfl
    | cons t r ih => simp [expand, ih]
  simp [matchToks, expand, hexp, List.any_flatMap]

-- ------------------------------------------------------------------ the channel filter

/-- K1 over the shape read from `is_match`: type ∧ state ∧ (tag ∨ model tag) ∧ key ∧ uses -/
theorem match_iff (p : Pats) (m : MsgFields) :
    isMatch p m = (matchToks (patOf p "type") (fieldOf m "type") &&
      matchToks (patOf p "state") (fieldOf m "state") &&
      (matchToks (patOf p "tag") (fieldOf m "tag") || matchToks (patOf p "tag") (fieldOf m "model.tag")) &&
      matchToks (patOf p "key") (fieldOf m "key") &&
      matchToks (patOf p "uses") (fieldOf m "uses")) := by
  simp [isMatch, chanMatchShape, Bool.and_assoc]

/-- K1: the default options are `*` for all five patterns … -/
theorem defaults_are_star : chanDefaults = [("type", "*"), ("state", "*"), ("tag", "*"), ("key", "*"), ("uses", "*")] := by
  decide

def starPats : Pats := [("type", [.flat .star]), ("state", [.flat .star]), ("tag", [.flat .star]), ("key", [.flat .star]),
  ("uses", [.flat .star])]

/-- … so a channel with default options receives every message -/
theorem default_receives_all (m : MsgFields) : isMatch starPats m = true := by
  have h : ∀ s, matchToks [.flat .star] s = true := by
    intro s; simp [matchToks, expand, star_all]
  simp [match_iff, patOf, starPats, List.lookup, h]

-- ------------------------------------------------------------------ handler maps (K3)

variable {H : Type}

/-- ids of a map -/
def keys (m : HMap H) : List String := m.map (·.1)

/-- closing removes that id from a map and nothing else -/
theorem remove_only (m : HMap H) (k k' : String) :
    (m.remove k).lookup k = none ∧ (k' ≠ k → (m.remove k).lookup k' = m.lookup k') := by
  constructor
  · induction m with
    | nil => rfl
    | cons e m ih =>
      obtain ⟨e1, e2⟩ := e
      unfold HMap.remove at ih ⊢
      by_cases he : (e1 != k) = true
      · have : (k == e1) = false := by
          rw [Bool.eq_false_iff]; intro hc; have : k = e1 := by simpa using hc
          subst this; simp at he
        simp [List.filter_cons, he, List.lookup, this, ih]
      · simp only [List.filter_cons, he, Bool.false_eq_true, ↓reduceIte]; exact ih
  · intro hne
    have hkk : (k' == k) = false := by simpa using hne
    induction m with
    | nil => rfl
    | cons e m ih =>
      obtain ⟨e1, e2⟩ := e
      unfold HMap.remove at ih ⊢
      by_cases he : (e1 != k) = true
      · simp only [List.filter_cons, he, ↓reduceIte, List.lookup]
        cases (k' == e1) <;> simp [ih]
      · have hek : e1 = k := by simpa using he
        subst hek
        simp only [List.filter_cons, he, Bool.false_eq_true, ↓reduceIte, List.lookup, hkk]
        exact ih

/-- re-registering an id replaces the previous handler: afterwards the id has exactly one handler, the new one -/
theorem register_replaces (m : HMap H) (k : String) (h : H) :
    (m.register k h).lookup k = some h ∧ ((m.register k h).filter (·.1 == k)).length = 1 := by
  constructor
  · simp [HMap.register, List.lookup_append, (remove_only m k k).1, List.lookup]
  · have : (m.remove k).filter (·.1 == k) = [] := by
      rw [List.filter_eq_nil_iff]; intro x hx
      have := (List.mem_filter.mp hx).2
      simp at this ⊢; exact this
    simp [HMap.register, List.filter_append, this]

/-- registering one id leaves every other id's handler alone -/
theorem register_frame (m : HMap H) (k k' : String) (h : H) (hne : k' ≠ k) :
    (m.register k h).lookup k' = m.lookup k' := by
  have hkk : (k' == k) = false := by simpa using hne
  simp only [HMap.register, List.lookup_append, (remove_only m k k').2 hne, List.lookup, hkk]
  cases m.lookup k' <;> rfl

/-- a handler registered under an id stays the only one however often the id is registered again -/
theorem register_twice (m : HMap H) (k : String) (h1 h2 : H) :
    ((m.register k h1).register k h2).lookup k = some h2 ∧
    (((m.register k h1).register k h2).filter (·.1 == k)).length = 1 :=
  register_replaces _ k h2

/-- K1: `Emitter::remove` erases the id from all four maps -/
theorem remove_covers_all_maps : ∀ name ∈ ["messages", "starts", "completes", "errors"], removeMaps.contains name = true := by
  decide

theorem emitter_remove_all (e : Emitter H) (k : String) :
    (e.remove k).messages.lookup k = none ∧ (e.remove k).starts.lookup k = none ∧
    (e.remove k).completes.lookup k = none ∧ (e.remove k).errors.lookup k = none := by
  simp only [Emitter.remove, remove_covers_all_maps _ (by decide : "messages" ∈ _),
    remove_covers_all_maps _ (by decide : "starts" ∈ _), remove_covers_all_maps _ (by decide : "completes" ∈ _),
    remove_covers_all_maps _ (by decide : "errors" ∈ _), ↓reduceIte]
  exact ⟨(remove_only _ k k).1, (remove_only _ k k).1, (remove_only _ k k).1, (remove_only _ k k).1⟩

/-- K1: registration replaces (`and_modify(|v| *v = f)`) in all four maps -/
theorem register_table : registerReplaces = true ∧ registerMaps.length = 4 := by decide

/-- non-vacuity -/
example : matchToks [.alt [lits "act".toList, lits "step".toList]] "step".toList = true := by decide
example : matchFlat (lits "k".toList ++ [.star]) "k1".toList = true ∧ matchFlat (lits "k".toList ++ [.star]) "x".toList = false := by decide

end Acts.C18
