"""C15 — sub-process call and return"""
import json
from collections import Counter, defaultdict

from .. import gen
from ..core import obs_of
from ..rng import Rng

ASSUMPTIONS = [
    "the child's pid is fixed by the call's options (pid = <parent pid>-<act id>), so both processes can be followed by name",
    "how a child ending maps to the action on the calling act is the table translated from return_to_act (aborted -> abort, skipped -> skip, error -> error with the child's code and message, otherwise next)",
    "schedules are the release orders of the parked queue in the stepped harness; the spawned return action runs at the next quiescence",
]

SUB = "acts.core.subflow"
TERMINAL = {"completed", "submitted", "backed", "cancelled", "error", "aborted", "skipped", "removed"}


def child_model(rng, mid, depth, calls):
    steps = []
    n = [0]

    def aid():
        n[0] += 1
        return f"{mid}a{n[0]}"

    for si in range(rng.range(1, 2)):
        acts = []
        for _ in range(rng.range(0 if rng.chance(1, 6) else 1, 2)):
            r = rng.below(10)
            i = aid()
            if r < 6:
                acts.append({"id": i, "uses": gen.IRQ, "key": "k" + i, "outputs": {"r": None}})
            elif r < 8 or depth <= 0:
                acts.append({"id": i, "uses": gen.MSG, "key": "k" + i})
            else:
                to = f"g{rng.range(1, 2)}" if not rng.chance(1, 5) else "nomodel"      # a call that fails inside the child: the error has no code
                acts.append({"id": i, "uses": SUB, "params": {"to": to, "options": {"cin": rng.below(50), "pid": None}}})
                calls.append((mid, i, to))
        steps.append({"id": f"{mid}s{si + 1}", "acts": acts})
    w = {"id": mid, "steps": steps, "outputs": {"r": None, "cin": None}}
    return w


def gen_scenario(seed, i, tier):
    rng = Rng(seed * 87178291 + i)
    calls = []
    models = {}
    for g in ("g1", "g2"):
        models[g] = child_model(rng.fork(g), g, 0, calls)
    for c in ("c1", "c2"):
        models[c] = child_model(rng.fork(c), c, 1, calls)
    # the parent
    n = [0]

    def aid():
        n[0] += 1
        return f"a{n[0]}"

    def call():
        i = aid()
        to = rng.weighted([("c1", 4), ("c2", 4), ("g1", 1), ("nomodel", 1)])
        calls.append(("m1", i, to))
        a = {"id": i, "uses": SUB, "params": {"to": to, "options": {"cin": rng.below(50), "tag": f"t{i}", "pid": None}}}
        if rng.chance(1, 3):
            a["outputs"] = {"cin": None}      # the calling act declares outputs: every kind of return still has to get through
        return a

    def other():
        i = aid()
        return {"id": i, "uses": gen.IRQ, "key": "k" + i} if rng.chance(2, 3) else {"id": i, "uses": gen.MSG, "key": "k" + i}

    steps = []
    for si in range(rng.range(1, 3)):
        s = {"id": f"s{si + 1}"}
        if rng.chance(1, 2):
            s["branches"] = [{"id": f"b{si}x", "if": "true", "steps": [{"id": f"s{si + 1}x", "acts": [call()]}]},
                             {"id": f"b{si}y", "if": "true", "steps": [{"id": f"s{si + 1}y", "acts": [other() for _ in range(rng.range(1, 2))]}]}]
        else:
            s["acts"] = [call() if rng.chance(2, 3) else other() for _ in range(rng.range(1, 2))]
        steps.append(s)
    models["m1"] = {"id": "m1", "steps": steps}
    order = ["m1", "c1", "c2", "g1", "g2"]
    mlist = [models[k] for k in order]
    # child pids are derived from the caller's pid: fill them in statically for the parent; children get theirs at run time through the template
    for w in mlist:
        for s in all_steps(w["steps"]):
            for a in s.get("acts", []):
                if a["uses"] == SUB:
                    a["params"]["options"]["pid"] = "{{ pid }}-" + a["id"] if w["id"] != "m1" else "p1-" + a["id"]
    policy = rng.pick(["fifo", "fifo", "lifo", "rand"])
    ops = [["deploy", k] for k in range(len(mlist))] + [["start", "m1", {"pid": "p1"}], ["runall", policy, rng.below(1 << 30)]]
    pids = ["p1"] + [f"p1-{a}" for (m, a, to) in calls if m == "m1"]
    # grandchildren: <child pid>-<act id>
    for (m, a, to) in calls:
        if m == "m1":
            for (m2, a2, to2) in calls:
                if m2 == to:
                    pids.append(f"p1-{a}-{a2}")
    for _ in range(18):
        pid = rng.pick(pids)
        r = rng.below(100)
        if r < 68:
            ops.append(["act", "next", pid, {"open": rng.below(3)}, {"r": rng.below(90)}])
        elif r < 80:
            ops.append(["act", "error", pid, {"open": rng.below(3)}, {"ecode": rng.pick(["e1", "e2", ""]), "message": f"boom-{pid}"}])
        elif r < 88:
            ops.append(["act", "abort", pid, {"open": rng.below(3)}, {}])
        else:
            ops.append(["act", "skip", pid, {"open": rng.below(3)}, {}])
        if rng.chance(1, 4):
            ops.append(["run", rng.below(4)])
        ops.append(["runall", policy, rng.below(1 << 30)])
    # finish: answer everything that is still open, everywhere
    for _ in range(3):
        for pid in pids:
            ops.append(["act", "next", pid, {"open": 0}, {"r": 1}])
            ops.append(["runall", policy, rng.below(1 << 30)])
    return {"id": f"c15-{seed}-{i}", "config": {"keep": True, "dump_each": True}, "models": mlist, "ops": ops, "calls": calls, "pids": pids}


def all_steps(steps):
    for s in steps:
        yield s
        for b in s.get("branches", []):
            yield from all_steps(b.get("steps", []))


def analyse(sc, res):
    bad = []
    events = []
    for st in res.get("steps", []):
        for o in st["obs"]:
            events.append((st["op"], o))
    models = {w["id"]: w for w in sc["models"]}
    # terminal / start events per pid (position in the stream)
    term, start, tstate, toutputs = {}, {}, {}, {}
    # (the delivery log is appended after the trace of an operation: order is taken from the process transitions in the trace,
    #  which the terminal event follows immediately; state and outputs are taken from the delivered event)
    delivered = set()
    for pos, (op, o) in enumerate(events):
        if o.get("k") == "pev" and o.get("chan") == "default":
            if o["ev"] == "start":
                start.setdefault(o["pid"], pos)
            else:
                if o["pid"] in delivered:
                    bad.append(("second-terminal-event", f"process {o['pid']} delivered a second terminal event"))
                delivered.add(o["pid"])
                tstate.setdefault(o["pid"], o["state"])
                toutputs.setdefault(o["pid"], o.get("outputs") or {})
        if o.get("k") == "ptr" and o.get("new") in TERMINAL:
            term.setdefault(o["pid"], pos)
    for pid in list(term):
        if pid not in delivered:
            del term[pid]
    # last dump of every pid
    dumps = {}
    for pos, (op, o) in enumerate(events):
        if o.get("k") == "dump" and not o.get("absent"):
            dumps[o["pid"]] = o
    trs = defaultdict(list)
    for pos, (op, o) in enumerate(events):
        if o.get("k") == "tr":
            trs[(o["pid"], o["tid"])].append((pos, o["old"], o["new"]))
    wf_inputs = {}
    for pos, (op, o) in enumerate(events):
        if o.get("k") == "gen" and o.get("type") == "workflow" and o.get("state") == "created":
            wf_inputs.setdefault(o["pid"], o.get("inputs") or {})
    stats = Counter()
    # every call act instance
    for pid, d in dumps.items():
        mid = model_of(pid, sc)
        if mid is None:
            continue
        acts = {a["id"]: a for s in all_steps(models[mid]["steps"]) for a in s.get("acts", [])}
        for t in d["tasks"]:
            a = acts.get(t["nid"])
            if not a or a["uses"] != SUB:
                continue
            stats["calls"] += 1
            child = f"{pid}-{a['id']}"
            to = a["params"]["to"]
            seq = [new for _, old, new in trs[(pid, t["tid"])]]
            nterm = sum(1 for x in seq if x in TERMINAL)
            if len(seq) >= 2 and seq[0] == "ready" and seq[1] == "skipped":
                continue
            if to not in models:
                stats["missing_model"] += 1
                if t["state"] != "error":
                    bad.append(("missing-model-does-not-fail-the-act", f"call {a['id']} to the unknown model {to} is {t['state']}"))
                continue
            if child not in start:
                if t["state"] in ("running",) and pid not in term:
                    bad.append(("child-not-started", f"call {a['id']} of {pid} is {t['state']} but its child {child} never started"))
                continue
            stats["children"] += 1
            # inputs: exactly the call's options (plus the link to the caller)
            want = {k: v for k, v in a["params"]["options"].items()}
            want["pid"] = child
            got = {k: v for k, v in (wf_inputs.get(child) or {}).items() if not k.startswith("$parent")}
            if got != want:
                bad.append(("child-inputs", f"child {child} started with {got}, the call gave {want}"))
            link = wf_inputs.get(child) or {}
            if link.get("$parent_pid") != pid:
                bad.append(("child-link", f"child {child} is linked to {link.get('$parent_pid')}, called from {pid}"))
            if nterm > 1:
                bad.append(("call-closed-twice", f"call {a['id']} of {pid} entered a terminal state {nterm} times: {seq}"))
            if child not in term:
                # the child is still alive at the end: the call must be open, unless something else in the caller closed it
                if t["state"] in TERMINAL and pid not in term and t["state"] not in ("skipped", "aborted"):
                    bad.append(("call-closed-before-child-ended", f"call {a['id']} of {pid} is {t['state']} while its child {child} has not ended"))
                continue
            stats["returns"] += 1
            cstate = tstate[child]
            tpos = [p for p, old, new in trs[(pid, t["tid"])] if new in TERMINAL]
            closed_by_others = tpos and tpos[0] < term[child]
            if closed_by_others:
                stats["closed_by_caller_activity"] += 1
                continue
            expect = ACT_END.get(cstate, "completed")
            if t["state"] != expect:
                bad.append((f"return-state|child-{cstate}", f"child {child} ended {cstate} but call {a['id']} of {pid} is {t['state']} (expected {expect})"))
                continue
            if expect == "completed":
                outs = {k: v for k, v in toutputs[child].items()}
                data = t.get("data") or {}
                miss = {k: v for k, v in outs.items() if v is not None and data.get(k) != v}
                if miss:
                    bad.append(("return-outputs", f"child {child} completed with outputs {outs}; call {a['id']} holds {dict((k, data.get(k)) for k in outs)}"))
            if expect == "error":
                derr = (dumps.get(child) or {}).get("err") or {}
                terr = t.get("err") or {}
                if derr and (terr.get("ecode") != derr.get("ecode") or terr.get("message") != derr.get("message")):
                    bad.append(("return-error", f"child {child} failed with {derr}; call {a['id']} carries {terr}"))
    # the caller's terminal event never precedes the child's
    for child in start:
        if "-" not in child:
            continue
        parent = child.rsplit("-", 1)[0]
        if parent in term and (child not in term or term[parent] < term[child]):
            how = tstate.get(parent)
            # what ended the parent: the operation during which its terminal transition happened
            op = sc["ops"][events[term[parent]][0]]
            if op[0] == "act" and op[2] == parent:
                cause = "client-" + op[1]
            elif op[0] == "act":
                cause = "return-of-another-child"
            else:
                cause = "scheduler"
            bad.append((f"parent-ends-before-child|parent-{how}|{cause}", f"{parent} delivered its terminal event ({how}, {cause}) while its child {child} {'was still running' if child not in term else 'ended later'}"))
    # progress: everything was answered: every started process has ended
    if not bad:
        for pid in start:
            d = dumps.get(pid)
            if pid not in term and d and not any(t["state"] == "interrupted" for t in d["tasks"]):
                kids_alive = any(c.startswith(pid + "-") and c not in term for c in start)
                if not kids_alive:
                    bad.append(("call-hangs", f"{pid} neither ended nor waits for a client or a child: {[(t['nid'], t['state']) for t in d['tasks'] if t['state'] not in TERMINAL]}"))
    return bad, stats


# child's final state -> state written on the calling act; filled from the Lean definition `Subflow.actEnd` (translated return table)
ACT_END = {}


def load_act_end(ctx):
    states = ["completed", "submitted", "backed", "cancelled", "error", "aborted", "skipped", "removed"]
    for st, an in zip(states, ctx.driver([{"cmd": "c15.actend", "child": st} for st in states], tag="da")):
        ACT_END[st] = an["act"]


def model_of(pid, sc):
    if pid == "p1":
        return "m1"
    parent, act = pid.rsplit("-", 1)
    pm = model_of(parent, sc)
    if pm is None:
        return None
    for (m, a, to) in sc["calls"]:
        if m == pm and a == act:
            return to if to in {w["id"] for w in sc["models"]} else None
    return None


def run(ctx):
    ctx.check_theorems("ActsModel.Props.C15")
    load_act_end(ctx)
    n = 500 if ctx.tier == "quick" else 5000
    scs = [gen_scenario(ctx.seed, i, ctx.tier) for i in range(n)]
    results = ctx.harness("run", [{k: v for k, v in sc.items() if k not in ("calls", "pids")} for sc in scs])
    tot = Counter()
    for sc, res in zip(scs, results):
        ctx.cov["evaluations"] += 1
        if res.get("panic"):
            ctx.violation("C15|engine-panic", f"engine panicked: {str(res['panic'])[:120]}", {"scenario": sc})
            continue
        if any(o.get("k") in ("stuck", "dead") for st in res.get("steps", []) for o in st["obs"]):
            ctx.violation("C15|engine-stuck", "work never drains", {"scenario": sc})
            continue
        bad, stats = analyse(sc, res)
        tot.update(stats)
        if bad:
            ctx.cov["monitor_failures"] += 1
            sig, what = bad[0]
            ctx.violation(f"C15|{sig}", what, {"scenario": sc})
        elif stats.get("returns"):
            ctx.nontrivial([sc["models"], sc["ops"]])
    # ---- a calling act that declares a catch for the child's error: the call is closed once, after the child has ended — by the catch
    from . import c06
    ccs = [c06.call_catch_scenario(Rng(ctx.seed * 8191 + k), k) for k in range(40 if ctx.tier == "quick" else 500)]
    # ---- … or a timeout rule: the end of the rule's steps does not close the call while the child still runs
    for k in range(20 if ctx.tier == "quick" else 200):
        r = Rng(ctx.seed * 12289 + k)
        hacts = r.pick([[], [{"id": "t1a", "uses": gen.MSG, "key": "kt1a"}], [{"id": "t1a", "uses": gen.IRQ, "key": "kt1a"}]])
        call = {"id": "call1", "uses": SUB, "params": {"to": "c1", "options": {"pid": "p1-call1"}},
                "timeout": [{"on": "2s", "steps": [{"id": "t1", "acts": hacts}]}]}
        parent = {"id": "m1", "steps": [{"id": "s1", "acts": [call]}, {"id": "s2", "acts": [{"id": "z", "uses": gen.IRQ, "key": "kz"}]}]}
        child = {"id": "c1", "steps": [{"id": "cs1", "acts": [{"id": "ci", "uses": gen.IRQ, "key": "kci"}]}]}
        ops = [["deploy", 0], ["deploy", 1], ["clock", r.below(900)], ["start", "m1", {"pid": "p1"}], ["runall"],
               ["tick", r.pick([2000, 2500, 9000])], ["runall"], ["act", "next", "p1", {"open": 0}, {}], ["runall"], ["tick", 1000], ["runall"],
               ["act", r.pick(["next", "next", "skip"]), "p1-call1", {"nid": "ci", "k": -1}, {}], ["runall"]]
        for _ in range(3):
            ops += [["act", "next", "p1", {"open": 0}, {}], ["runall"]]
        ccs.append({"id": f"c15-call-timeout-{k}", "config": {"keep": True, "dump_each": True}, "models": [parent, child], "ops": ops, "exprs": {}})
    cres = ctx.harness("run", ccs, tag="cc")
    for sc, res in zip(ccs, cres):
        ctx.cov["evaluations"] += 1
        tot["call_catch_runs"] += 1
        if res.get("panic") or res.get("crashed"):
            ctx.violation("C15|engine-panic", f"engine panicked: {str(res.get('panic'))[:120]}", {"scenario": sc})
            continue
        call_tid, closes, child_end_at, k = None, [], None, 0
        last = None
        for _, o in obs_of(res, {"new", "tr", "ptr", "dump"}):
            k += 1
            if o.get("k") == "new" and o.get("pid") == "p1" and o.get("nid") == "call1":
                call_tid = o["tid"]
            elif o.get("k") == "tr" and o.get("pid") == "p1" and o.get("tid") == call_tid and o.get("new") in TERMINAL:
                closes.append((k, o["new"]))
            elif o.get("k") == "ptr" and o.get("pid") == "p1-call1" and o.get("new") in TERMINAL and child_end_at is None:
                # (the process transition in the trace: the delivery log of an operation comes after its trace records)
                child_end_at = k
            elif o.get("k") == "dump" and o.get("pid") == "p1" and not o.get("absent"):
                last = o
        # the error passes through the call (error, taken by its catch) and the call then ends once more, for good
        finals = [c for c in closes if c[1] != "error"]
        bad = None
        if child_end_at is None:
            bad = ("call-catch|child-did-not-end", "the child delivered no terminal event")
        elif any(c[0] < child_end_at for c in closes):
            bad = ("call-catch|closed-before-child-ended", f"the calling act was closed ({closes}) before the child's terminal event")
        elif len(finals) != 1 or finals[0][1] != "completed":
            bad = ("call-catch|call-not-closed-once", f"after the child had ended the calling act ended {[c[1] for c in finals]} (expected once, completed); all endings {[c[1] for c in closes]}")
        elif last is not None and last["state"] != "completed":
            bad = ("call-catch|caller-not-finished", f"every interrupt was answered, the caller is {last['state']}")
        if bad:
            ctx.cov["monitor_failures"] += 1
            ctx.violation(f"C15|{bad[0]}", bad[1], {"scenario": sc})
        else:
            ctx.nontrivial(["call-catch", sc["models"], sc["ops"]])
    # ---- (recorded finding, fixed scenario) a return the calling act cannot take: it declares an output the child does not deliver
    parent = {"id": "m1", "steps": [{"id": "s1", "acts": [{"id": "call1", "uses": SUB, "params": {"to": "c1", "options": {"pid": "p1-call1"}}, "outputs": {"r": None}}]},
                                    {"id": "s2", "acts": [{"id": "z", "uses": gen.IRQ, "key": "kz"}]}]}
    child = {"id": "c1", "steps": [{"id": "cs1", "acts": [{"id": "ci", "uses": gen.IRQ, "key": "kci"}]}]}
    fsc = {"id": "c15-return-refused", "config": {"keep": True, "dump_each": True}, "models": [parent, child], "exprs": {},
           "ops": [["deploy", 0], ["deploy", 1], ["start", "m1", {"pid": "p1"}], ["runall"], ["act", "next", "p1-call1", {"nid": "ci", "k": -1}, {}], ["runall"], ["runall"]]}
    fres = ctx.harness("run", [fsc], tag="rr")[0]
    ctx.cov["evaluations"] += 1
    last = {}
    for _, o in obs_of(fres, {"dump"}):
        if not o.get("absent"):
            last[o["pid"]] = o
    if last.get("p1-call1", {}).get("state") == "completed" and last.get("p1", {}).get("state") == "running" and \
            any(t["nid"] == "call1" and t["state"] == "running" for t in last["p1"]["tasks"]):
        ctx.violation("C15|return-refused|declared-output-missing", "the child has ended, the calling act (which declares an output the child does not deliver) "
                      "is still running and nothing is in flight: the return was refused", {"scenario": fsc})
    ctx.sample({"model": scs[0]["models"][0], "ops": scs[0]["ops"][:8]}, limit=1)
    ctx.cov["correspondence"] = {"distribution": dict(tot), "streams_compared": ["start / terminal events and root inputs of every child against the call that started it", "state, outputs and error of the calling act against the child's ending",
                                                                               "order of terminal events of caller and child"]}
    ctx.cov["rule"] = ("parents with 1..3 steps, calls in sequence and in a branch parallel to other interrupts, children with interrupts / messages / nested calls (depth 3), a missing target model; "
                       "children ended by next / error / abort / skip answers in seeded orders under FIFO / LIFO / random release orders; non-trivial = a run in which a child returned")
    ctx.cov["clauses_proved"] = ["the return action is a function of the child's final state (K1) and a call is closed by exactly one return in the abstract call/return machine (K3)",
                                 "a caller that waits for its calls cannot end before its children in that machine (K3)"]
    ctx.cov["clauses_not_proved"] = ["that the engine refines the machine (decided by the monitors)",
                                     "parent never ends before its children at full strength: false of model and engine when a client ends the calling act (witness client_end_precedes_child, recorded findings); "
                                     "proved for histories without such client endings (parent_done_after_children_partial)"]


def replay(ctx, data):
    ctx.build([])
    load_act_end(ctx)
    sc = data["replay"]["scenario"]
    res = ctx.harness("run", [{k: v for k, v in sc.items() if k not in ("calls", "pids")}])[0]
    print(analyse(sc, res))
    return 0
