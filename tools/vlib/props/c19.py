"""C19 — timeout rules fire once, never early, and only for open tasks"""
from .. import gen
from ..core import obs_of
from ..rng import Rng

ASSUMPTIONS = [
    "virtual clock and manual ticks (do_tick is driven by the harness, not by the production interval)",
    "rules with a parsable duration (an unparsable `on` aborts the remaining rules of the task at every tick; see DESIGN C19)",
]

CLOCK0 = 1_000_000
DUR = [("1s", 1), ("2s", 2), ("3s", 3), ("1m", 60), ("2m", 120), ("1h", 3600), ("1d", 86400), ("0s", 0)]

SAME_LENGTH = {"1m": "60s", "2m": "120s", "1h": "60m", "1d": "24h", "0s": "0m"}


def gen_both(seed, i):
    """a step and an act below it both carry rules, one duration text in common; the act opens later than the step (possibly after the step's
    rule has fired): the once-mark of a rule belongs to one task"""
    rng = Rng(seed * 49979687 + i)
    picks = rng.shuffle(DUR)[:2]
    common = picks[0]
    srules = [common] + ([picks[1]] if rng.chance(1, 3) else [])
    arules = [common] + ([picks[1]] if rng.chance(1, 2) else [])
    def mk(prefix, rs):
        rules, tsteps = [], {}
        for j, (on, secs) in enumerate(rs):
            sid = f"{prefix}{j}"
            rules.append({"on": on, "steps": [{"id": sid, "acts": [{"id": f"{sid}a", "uses": gen.MSG, "key": f"k{sid}"}]}]})
            tsteps[sid] = on
        return rules, tsteps
    sr, st = mk("ts", srules)
    ar, at = mk("us", arules)
    step = {"id": "s1", "timeout": sr, "acts": [{"id": "a0", "uses": gen.IRQ, "key": "k0"}, {"id": "a1", "uses": gen.IRQ, "key": "k1", "timeout": ar}]}
    w = {"id": "mt", "steps": [step, {"id": "s2", "acts": [{"id": "a2", "uses": gen.IRQ, "key": "k2"}]}]}
    ops = [["deploy", 0], ["clock", rng.below(1000)], ["start", "mt", {"pid": "p1"}], ["runall"]]
    limits = sorted(set(s for _, s in picks))
    stage = 0
    for _ in range(rng.range(5, 11)):
        r = rng.below(100)
        if r < 70:
            base = rng.pick(limits) * 1000
            ops.append(["tick", max(0, rng.pick([base - 1, base, base + 1, 500, 999, 1000, 1001, base // 2 + 1, 60_000]))])
            ops.append(["runall"])
        elif stage < 2:
            ops.append(["act", "next", "p1", {"nid": "a0" if stage == 0 else "a1", "k": 0}, {}])
            ops.append(["runall"])
            stage += 1
        else:
            ops.append(["clock", rng.pick([10, 1000, 5000])])
    ops.append(["tick", 90_000_000])
    ops.append(["runall"])
    sc = {"id": f"tm-{seed}-{i}", "config": {"keep": True}, "models": [w], "ops": ops}
    return sc, [{"timed_nid": "s1", "rules": [[on, secs] for on, secs in srules], "tsteps": st},
                {"timed_nid": "a1", "rules": [[on, secs] for on, secs in arules], "tsteps": at}]


def gen_scenario(seed, i):
    rng = Rng(seed * 49979687 + i)
    timed_kind = rng.pick(["act", "act", "step"])
    nrules = rng.range(1, 3)
    picks = rng.shuffle(DUR)[:nrules]
    if rng.chance(1, 8) and nrules >= 2:
        picks[1] = picks[0]          # two rules with the same duration text share the once-flag
    elif rng.chance(1, 6) and nrules >= 2 and picks[0][0] in SAME_LENGTH:
        picks[1] = (SAME_LENGTH[picks[0][0]], picks[0][1])      # same length, other text: two independent rules, each fires once
    rules = []
    tsteps = {}
    for j, (on, secs) in enumerate(picks):
        sid = f"ts{j}"
        # (a handler that waits for a client keeps the rule's steps open across later ticks, evictions and restarts)
        rules.append({"on": on, "steps": [{"id": sid, "acts": [{"id": f"ta{j}", "uses": gen.IRQ if i % 4 == 3 and rng.chance(1, 2) else gen.MSG, "key": f"tk{j}"}]}]})
        tsteps[sid] = on
    act = {"id": "a1", "uses": gen.IRQ, "key": "k1"}
    step = {"id": "s1", "acts": [act]}
    if timed_kind == "act":
        act["timeout"] = rules
    else:
        step["timeout"] = rules
    w = {"id": "mt", "steps": [step, {"id": "s2", "acts": [{"id": "a2", "uses": gen.IRQ, "key": "k2"}]}]}
    # the timed task opens anywhere inside a second, not on a full-second boundary of the clock
    ops = [["deploy", 0], ["clock", rng.below(1000)], ["start", "mt", {"pid": "p1"}], ["runall"]]
    limits = sorted(set(s for _, s in picks))
    answered = False
    for _ in range(rng.range(3, 9)):
        r = rng.below(100)
        if r < 75:
            base = rng.pick(limits) * 1000
            dt = rng.pick([base - 1, base, base + 1, 500, 999, 1000, 1001, 1, base // 2 + 1, 60_000, 3_600_000])
            ops.append(["tick", max(0, dt)])
            ops.append(["runall"])
        elif not answered:
            ops.append(["act", rng.pick(["next", "next", "skip"]), "p1", {"nid": "a1", "k": 0}, {}])
            ops.append(["runall"])
            answered = True
        else:
            ops.append(["clock", rng.pick([10, 1000, 5000])])
    ops.append(["tick", 90_000_000])
    ops.append(["runall"])
    cfg = {"keep": True}
    if i % 4 == 3:
        # the process waits in the store only: dropped from the cache (or the engine restarted) at quiescent points before ticks
        restart = (i % 8 == 7)
        if restart:
            cfg["store"] = "sqlite"
        out = []
        for op in ops:
            if op[0] == "tick" and out and out[-1][0] == "runall" and rng.chance(1, 2):
                out.append(["restart"] if restart else ["evict", "p1"])
            out.append(op)
        ops = out
    models = [w]
    if i % 6 == 1:
        # the timed process is not alone in the cache: kept processes that have already finished, and others that wait without any rule
        cfg["keep"] = True
        models.append({"id": "mq", "steps": [{"id": "q1", "acts": [{"id": "qa", "uses": gen.MSG, "key": "kq"}]}]})
        models.append({"id": "mw", "steps": [{"id": "w1", "acts": [{"id": "wa", "uses": gen.IRQ, "key": "kw"}]}]})
        pre = [["deploy", 1], ["deploy", 2]]
        for q in range(rng.range(4, 9)):
            pre.append(["start", "mq" if q % 3 else "mw", {"pid": f"q{q}"}])
        pre.append(["runall"])
        ops = ops[:1] + pre + ops[1:]
    sc = {"id": f"tm-{seed}-{i}", "config": cfg, "models": models, "ops": ops}
    return sc, {"timed_nid": "a1" if timed_kind == "act" else "s1", "rules": [[on, secs] for on, secs in picks], "tsteps": tsteps}


def revival_scenario(seed, i):
    """the timed task is revived by its own catch before the limit: the rule still counts from the moment the task was opened"""
    rng = Rng(seed * 49979687 + i)
    on, secs = rng.pick([("2s", 2), ("3s", 3), ("5s", 5)])
    tsteps = {"ts0": on}
    rule = {"on": on, "steps": [{"id": "ts0", "acts": [{"id": "ts0a", "uses": gen.MSG, "key": "kts0"}]}]}
    catch = {"on": "e1", "steps": [{"id": "cx", "acts": [{"id": "cxa", "uses": gen.IRQ, "key": "kcxa"}]}]}
    timed_step = rng.chance(1, 2)
    a0 = {"id": "a0", "uses": gen.IRQ, "key": "k0"}
    s1 = {"id": "s1", "acts": [a0]}
    if timed_step:
        s1["timeout"], s1["catches"] = [rule], [catch]
    else:
        # a container act that is timed and catches the error of its child
        s1["acts"] = [{"id": "blk", "uses": "acts.core.block", "params": {"mode": "sequence", "acts": [a0]}, "timeout": [rule], "catches": [catch]}]
    w = {"id": "mt", "steps": [s1, {"id": "s2", "acts": [{"id": "a2", "uses": gen.IRQ, "key": "k2"}]}]}
    before = rng.pick([500, 1000, 1500])
    ops = [["deploy", 0], ["clock", rng.below(1000)], ["start", "mt", {"pid": "p1"}], ["runall"],
           ["tick", before], ["runall"],
           ["act", "error", "p1", {"nid": "a0", "k": 0}, {"ecode": "e1", "message": "x"}], ["runall"],
           ["tick", secs * 1000 - before - 1], ["runall"], ["tick", 1], ["runall"], ["tick", 1000], ["runall"],
           ["tick", before], ["runall"], ["tick", 60_000], ["runall"]]
    sc = {"id": f"tm-rev-{seed}-{i}", "config": {"keep": True}, "models": [w], "ops": ops}
    return sc, {"timed_nid": "s1" if timed_step else "blk", "rules": [[on, secs]], "tsteps": tsteps}


def run(ctx):
    ctx.check_theorems("ActsModel.Props.C19")
    n = 200 if ctx.tier == "quick" else 5000
    base, base_metas = [], []
    for i in range(n):
        if i % 10 == 3:
            sc, meta = revival_scenario(ctx.seed, i)
            ms = [meta]
        elif i % 5 == 4:
            sc, ms = gen_both(ctx.seed, i)
        else:
            sc, meta = gen_scenario(ctx.seed, i)
            ms = [meta]
        base.append(sc)
        base_metas.append(ms)
    base_results = ctx.harness("run", base)
    # one evaluation per timed task
    scs, metas, results = [], [], []
    for sc, ms, res in zip(base, base_metas, base_results):
        for meta in ms:
            scs.append(sc)
            metas.append(meta)
            results.append(res)
    reqs, evmaps = [], []
    for sc, meta, res in zip(scs, metas, results):
        now = CLOCK0
        start = None
        events = []      # (op index, model event)
        closed = False
        for st in res.get("steps", []):
            i = st["op"]
            if i >= len(sc["ops"]):
                break
            op = sc["ops"][i]
            if op[0] in ("tick", "clock"):
                now += op[1]
            for o in st["obs"]:
                if o.get("k") == "tr" and start is None and o.get("new") == "ready":
                    pass
            # start time of the timed task: clock when it was created (its first `ready` write)
            for o in st["obs"]:
                if o.get("k") == "new" and o.get("pid") == "p1" and o.get("nid") == meta["timed_nid"] and start is None:
                    start = now
            if op[0] == "tick" and start is not None:      # ticks before the timed task exists are not its business
                events.append((i, ["tick", now]))
            # the timed task reaches a terminal state
            for o in st["obs"]:
                if o.get("k") == "tr" and not closed and o.get("new") in ("completed", "skipped", "submitted", "aborted", "error", "removed", "backed", "cancelled"):
                    # is it the timed task? match through the creation record
                    pass
            timed_tids = set()
            for st2 in res.get("steps", []):
                for o in st2["obs"]:
                    if o.get("k") == "new" and o.get("pid") == "p1" and o.get("nid") == meta["timed_nid"]:
                        timed_tids.add(o.get("tid"))
            # (the state the timed task is left in by the operation counts: a catch of its own may take an error and revive it at once)
            last_state = None
            for o in st["obs"]:
                if o.get("k") == "tr" and o.get("pid") == "p1" and o.get("tid") in timed_tids:
                    last_state = o.get("new")
            if not closed and last_state in ("completed", "skipped", "submitted", "aborted", "error", "removed", "backed", "cancelled"):
                closed = True
                events.append((i, ["close"]))
        evmaps.append(events)
        reqs.append({"cmd": "c19.run", "rules": meta["rules"], "start": start if start is not None else CLOCK0, "events": [e for _, e in events]})
    answers = ctx.driver(reqs)
    # engine firings per model event: a timeout step created at the tick op or at any later op before the next tick
    mon_reqs, eng_fired_all = [], []
    for sc, meta, res, events, rq in zip(scs, metas, results, evmaps, reqs):
        by_op = {st["op"]: st["obs"] for st in res.get("steps", [])}
        tick_ops = [i for i, e in events if e[0] == "tick"]
        fired = {i: [] for i in tick_ops}
        stray = []
        for i in sorted(by_op):
            keys = [meta["tsteps"][o["nid"]] for o in by_op[i] if o.get("k") == "new" and o.get("pid") == "p1" and o.get("nid") in meta["tsteps"]]
            if not keys:
                continue
            prev = [t for t in tick_ops if t <= i]
            if prev:
                fired[prev[-1]] += keys
            else:
                stray += keys
        # one key stands for all rules with that text (their steps are started together): count each key once
        evs = []
        eng_f = []
        for i, e in events:
            if e[0] == "tick":
                ks = sorted(set(fired[i]))
                evs.append(["tick", e[1], ks])
                eng_f.append(ks)
            else:
                evs.append(["close", 0, []])
                eng_f.append([])
        eng_fired_all.append((eng_f, stray, fired))
        mon_reqs.append({"cmd": "c19.monitor", "rules": meta["rules"], "start": rq["start"], "events": evs})
    verdicts = ctx.driver(mon_reqs, tag="dm")
    dist = {"fired": 0, "ticks": 0, "rules": {}}
    for sc, meta, res, events, an, vd, (eng_f, stray, fired) in zip(scs, metas, results, evmaps, answers, verdicts, eng_fired_all):
        ctx.cov["evaluations"] += 1
        if res.get("panic") or res.get("crashed"):
            ctx.violation("C19|engine-panic", f"engine panicked: {str(res.get('panic'))[:120]}", {"scenario": sc})
            continue
        nf = sum(len(x) for x in eng_f)
        dist["fired"] += nf
        dist["ticks"] += sum(1 for _, e in events if e[0] == "tick")
        for on, _ in meta["rules"]:
            dist["rules"][on] = dist["rules"].get(on, 0) + 1
        if nf >= 1 and any(e[0] == "close" for _, e in events):
            ctx.nontrivial([sc["models"], sc["ops"]])
        ctx.sample({"scenario": sc["id"], "rules": meta["rules"], "ops": sc["ops"][3:9]}, limit=3)
        # (1) the Lean property monitor on the engine's own observations
        bad = False
        if stray:
            ctx.violation("C19|fires-without-tick", f"timeout steps {stray} started before any tick", {"scenario": sc, "meta": meta})
            bad = True
        # every rule's steps are started exactly once when its key fires
        for i, keys in fired.items():
            for k in set(keys):
                want = sum(1 for on, _ in meta["rules"] if on == k)
                if keys.count(k) != want and not bad:
                    ctx.violation("C19|wrong-steps-for-rule", f"key {k} fired at op {i}: {keys.count(k)} timeout steps started, the rules with that key declare {want}",
                                  {"scenario": sc, "meta": meta, "op": i})
                    bad = True
        if isinstance(vd, dict) and vd.get("ok") is False and not bad:
            ctx.cov["monitor_failures"] += 1
            at = vd.get("at")
            ctx.violation("C19|" + vd.get("why", "?"), f"event {at} {mon_event(events, at)}: {vd.get('why')}; engine fired {eng_f[at] if at is not None and at < len(eng_f) else '?'}; rules {meta['rules']}",
                          {"scenario": sc, "meta": meta, "events": [e for _, e in events], "engine_fired": eng_f, "at": at})
            bad = True
        # (2) correspondence with the model
        fired_model = an.get("fired") if isinstance(an, dict) else None
        if fired_model is not None and not bad:
            mod = [sorted(set(x)) for x in fired_model]
            if mod != eng_f[:len(mod)]:
                j = next(k for k in range(len(mod)) if mod[k] != eng_f[k])
                ctx.proof_break("correspondence: timeout firings", f"scenario {sc['id']} event {j} {events[j][1]}: engine {eng_f[j]}, model {mod[j]}, rules {meta['rules']}")
    # ---- duration parser vs TimeoutLimit::parse
    prng = Rng(ctx.seed * 613)
    strs = ["2s", "15m", "1h", "3d", "0s", "-5s", "+7m", "s", "", "5", "1.5s", "10x", " 1s", "1s ", "1 s", "007h", "99999999999999999999s",
            "9223372036854775807s", "-9223372036854775808s", "1S", "ms", "1ms", "12\ns", "١s"]
    for _ in range(300 if ctx.tier == "quick" else 5000):
        strs.append("".join(prng.pick(list("0123456789smhd+- .x")) for _ in range(prng.range(0, 6))))
    eng = ctx.harness("timeout", [{"s": s} for s in strs], tag="p")
    mod = ctx.driver([{"cmd": "c19.parse", "s": s} for s in strs], tag="dp")
    for s, e, m in zip(strs, eng, mod):
        ctx.cov["evaluations"] += 1
        if not isinstance(m, dict) or "ok" not in m:
            continue
        if e.get("overflow"):
            continue
        if e.get("ok") != m.get("ok") or (e.get("ok") and e.get("secs") != m.get("secs") and abs(m.get("secs", 0)) < 2 ** 63):
            ctx.violation("C19|parse", f"duration {s!r}: engine {e}, model {m}", {"string": s, "engine": e, "model": m})
    ctx.cov["correspondence"] = {"distribution": dist, "streams_compared": ["timeout steps created per tick vs Tmo.step", "TimeoutLimit::parse vs parseLimit"]}
    ctx.cov["rule"] = ("1-3 rules (s/m/h/d) on an irq act or its step, tick spacings just below/at/above each limit, the act answered before/at/after; "
                       "non-trivial = at least one rule fired and the timed task was closed within the run; distinct by (model, ops)")
    ctx.cov["clauses_proved"] = ["the monitor is sound for every observed history (once, never early, silent from the closing event on, due rules fire within one tick) and accepts every model history (K3)", "never early", "at most once per instance and rule key", "within one tick", "not after terminal", "firing keeps the task open"]
    ctx.cov["clauses_not_proved"] = ["the build puts each rule's steps under its own key (C20 tree theorem + differential)"]


def mon_event(events, at):
    try:
        return events[at][1]
    except Exception:
        return "?"


def replay(ctx, data):
    ctx.build([])
    sc = data["replay"].get("scenario")
    if sc:
        res = ctx.harness("run", [sc])[0]
        for st in res["steps"]:
            print(st["op"], sc["ops"][st["op"]] if st["op"] < len(sc["ops"]) else "", [(o.get("nid")) for o in st["obs"] if o.get("k") == "new"])
    return 0
