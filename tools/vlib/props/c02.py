"""C02 — task lifecycle: only legal transitions, terminal states are final"""
from .. import gen
from ..core import obs_of
from ..rng import Rng

ASSUMPTIONS = [
    "transition trace hook sees every write through Task::set_state (set_pure_state is only used when loading rows)",
    "parallel composition is decided by the monitor on engine traces, not by an operational theorem (see DESIGN C02)",
]

MATRIX_WF = {
    "id": "mx", "steps": [
        {"id": "s1", "branches": [
            {"id": "b1", "if": "true", "steps": [{"id": "s11", "acts": [{"id": "a1", "uses": gen.IRQ, "key": "k1"},
                                                                    {"id": "a2", "uses": gen.IRQ, "key": "k2"}]}]},
            {"id": "b2", "if": "true", "steps": [{"id": "s21", "acts": [{"id": "a3", "uses": gen.IRQ, "key": "k3"}]}]}]},
        {"id": "s2", "acts": [{"id": "a4", "uses": gen.IRQ, "key": "k4"}]}]}

CLOSERS = [None, "next", "submit", "skip", "remove", "abort", "error", "back"]


def opts_for(ev):
    if ev == "error":
        return {"ecode": "e1", "message": "m"}
    if ev == "back":
        return {"to": "s11"}
    if ev == "push":
        return {"uses": gen.IRQ, "key": "pushed"}
    if ev == "set_process_vars":
        return {"pv": 1}
    return {}


def matrix():
    """every action aimed at every kind of task, the acted act being open or closed by each closing action"""
    scs = []
    targets = [("act", {"nid": "a1", "k": 0}), ("act2", {"nid": "a3", "k": 0}), ("step", {"nid": "s11", "k": 0}),
               ("branch", {"nid": "b1", "k": 0}), ("workflow", 0), ("unknown", "nosuch"), ("otherpid", None)]
    for closer in CLOSERS:
        for ev in gen.ACTIONS:
            for tname, tref in targets:
                ops = [["deploy", 0], ["start", "mx", {"pid": "p1"}], ["runall"]]
                if closer:
                    ops.append(["act", closer, "p1", {"nid": "a1", "k": 0}, opts_for(closer)])
                    ops.append(["runall"])
                pid = "p1"
                if tname == "otherpid":
                    pid, tref = "p9", {"nid": "a1", "k": 0}
                ops.append(["act", ev, pid, tref, opts_for(ev)])
                ops.append(["runall"])
                # and once more: duplicates
                ops.append(["act", ev, pid, tref, opts_for(ev)])
                ops.append(["runall"])
                scs.append({"id": f"mx-{closer}-{ev}-{tname}", "config": {"keep": True}, "models": [MATRIX_WF],
                            "ops": ops, "features": ["matrix"]})
    return scs


def randoms(seed, n):
    scs = []
    for i in range(n):
        rng = Rng(seed * 1000003 + i)
        g = gen.WfGen(rng.fork("wf"), depth=2, max_steps=3, max_branches=3, max_acts=2, p_if=10, mixed=True,
                      act_kinds=((gen.IRQ, 6), (gen.MSG, 2), (gen.SET, 1)), catches=(i % 3 == 2))
        w = g.workflow("m1")
        # conditions need inputs
        ops = [["deploy", 0], ["start", "m1", {"pid": "p1", "x": rng.below(4), "y": rng.below(4)}]]
        hist = gen.random_history(rng.fork("h"), n=rng.range(6, 16), actions=(gen.ACTIONS + ["error", "error", "next"]) if i % 3 == 2 else None)
        if i % 3 == 2:
            # the process is dropped from the cache at quiescent points: the once-only catch mark has to survive a reload
            out = []
            for op in hist:
                out.append(op)
                if op[0] == "runall" and rng.chance(1, 2):
                    out.append(["evict", "p1"])
            hist = out
        ops += hist
        scs.append({"id": f"r-{seed}-{i}", "config": {"keep": rng.chance(1, 2)}, "models": [w], "ops": ops,
                    "features": sorted(g.features)})
    return scs


def reloads(seed, n):
    """the catch exception is 'once' across reloads too: a catch takes an error, the process is dropped from the cache at every quiescent
    point, the handler fails or ends (the C12 catch family with evictions)"""
    from . import c12
    scs = []
    for k in range(n):
        i = 6 * k + 5
        w, exprs, ops, rng = c12.gen_base(seed, i)
        out = []
        for op in ops:
            out.append(op)
            if op[0] == "runall":
                out.append(["evict", "p1"])
        scs.append({"id": f"reload-{seed}-{k}", "config": {"keep": True}, "models": [w], "ops": out, "features": ["catch", "reload"]})
    return scs


def trace_of(res):
    return [[f"{o['pid']}:{o['tid']}", o["old"], o["new"], o.get("site", "")] for _, o in obs_of(res, {"tr"})]


def evaluate(ctx, scs):
    results = ctx.harness("run", scs)
    reqs = [{"cmd": "c02.monitor", "trace": [t[:3] for t in trace_of(r)]} for r in results]
    answers = ctx.driver(reqs)
    for sc, r, a in zip(scs, results, answers):
        ctx.cov["evaluations"] += 1
        tr = trace_of(r)
        if r.get("panic") or r.get("crashed"):
            ctx.violation("C02|engine-panic", f"engine panicked: {r.get('panic')}", {"scenario": sc, "result": r})
            continue
        accepted = sum(1 for _, o in obs_of(r, {"res"}) if o.get("ok"))
        terminal_writes = sum(1 for t in tr if t[2] not in ("none", "ready", "pending", "running", "interrupted"))
        if terminal_writes >= 2 and accepted >= 3:
            ctx.nontrivial(sc["models"] + sc["ops"])
        ctx.sample({"scenario": sc["id"], "ops": sc["ops"][:6], "transitions": [t[:3] for t in tr[:8]]})
        if a.get("driver_unavailable"):
            continue
        if not a.get("ok", False):
            ctx.cov["monitor_failures"] += 1
            idx = a.get("illegal")
            if idx is None:
                idx = a.get("gap")
                t = tr[idx]
                sig = f"C02|gap|{t[1]}->{t[2]}|{t[3].split(':')[0]}"
                what = f"trace gap at write {idx}: {t}"
            else:
                t = tr[idx]
                sig = f"C02|{t[1]}->{t[2]}|{t[3].split(':')[0]}"
                what = f"illegal transition {t[1]} -> {t[2]} of task {t[0]} written at {t[3]}"
            ctx.violation(sig, what, {"scenario": sc, "write_index": idx, "write": t, "trace": tr})


def run(ctx):
    ctx.check_theorems("ActsModel.Props.C02")
    scs = ctx.corpus() + matrix()
    n = 1200 if ctx.tier == "quick" else 6000
    scs += randoms(ctx.seed, n)
    scs += reloads(ctx.seed, 40 if ctx.tier == "quick" else 600)
    # cancels of completed acts after the following steps have made partial progress (the C08 cancel family)
    from . import c08
    for k in range(30 if ctx.tier == "quick" else 400):
        sc = c08.cancel_scenario(Rng(ctx.seed * 7919 + k), k)
        sc["config"] = {"keep": True}
        scs.append(sc)
    # errors that arrive after the owner of a lifecycle hook has ended (the C03 hook families)
    from . import c03
    for k in range(24 if ctx.tier == "quick" else 300):
        r = Rng(ctx.seed * 6151 + k)
        sc = c03.late_hook_error_scenario(r, k) if k % 2 == 0 else c03.failing_hook_scenario(r, k)
        sc["config"] = {"keep": True}
        scs.append(sc)
    evaluate(ctx, scs)
    ctx.cov["rule"] = ("action x closing-state x target matrix (exhaustive, %d cases) + seeded random histories of valid and "
                       "invalid actions with partial queue releases (a third with catches and evictions) + the catch family reloaded at every quiescent point; non-trivial = >=2 terminal writes and >=3 accepted "
                       "operations; distinct by (model, ops)" % len(matrix()))
    ctx.cov["clauses_proved"] = ["state classes = stages (K1)", "guarded arms write legal transitions (K1)",
                                 "terminal acts absorb the seven actions (K1)", "monitor soundness"]
    ctx.cov["clauses_not_proved"] = ["legality of every write site under parallel composition (monitored on engine traces)"]


def replay(ctx, data):
    ctx.build([])
    sc = data["replay"]["scenario"]
    res = ctx.harness("run", [sc])[0]
    tr = trace_of(res)
    ans = ctx.driver([{"cmd": "c02.monitor", "trace": [t[:3] for t in tr]}])[0]
    print("monitor:", ans)
    for i, t in enumerate(tr):
        print(i, t)
    return 0 if ans.get("ok") else 1
