/-!
# Live image and stored image

The engine keeps a live copy of every task and process and a row of each in the store.  A *write site* changes the live
copy; it is *persisted* when the row is written before control returns to the scheduler (through the task event, or through
an explicit `persist` / `upsert`).  Which sites there are and whether each is persisted is read from the source
(`Gen/Image.lean`); this model says what that discipline buys.
-/
namespace Acts.Image

structure Sys (R : Type) where
  live : String → R
  store : String → R

structure Write (R : Type) where
  key : String
  f : R → R
  persisted : Bool

def Sys.apply {R : Type} (s : Sys R) (w : Write R) : Sys R :=
  let v := w.f (s.live w.key)
  { live := fun k => if k = w.key then v else s.live k,
    store := if w.persisted then (fun k => if k = w.key then v else s.store k) else s.store }

def Sys.run {R : Type} (s : Sys R) (ws : List (Write R)) : Sys R := ws.foldl Sys.apply s

/-- the store holds a complete image -/
def Synced {R : Type} (s : Sys R) : Prop := ∀ k, s.store k = s.live k

end Acts.Image
