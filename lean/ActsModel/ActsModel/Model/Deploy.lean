/-!
`Store::deploy`, `ModelExecutor::deploy_event`, `ModelExecutor::rm` on the models and events collections.
-/
namespace Acts.Deploy

structure ModelRow where
  id : String
  ver : Nat
  data : Nat            -- stands for the stored model text
  deriving DecidableEq, Repr

structure EventRow where
  id : String           -- "<mid>:<act id>"
  mid : String
  ver : Nat
  deriving DecidableEq, Repr

structure St where
  models : List ModelRow
  events : List EventRow
  deriving Repr

def eventId (mid aid : String) : String := mid ++ ":" ++ aid

/-- `Store::deploy`: version 1 for a new id, old version + 1 otherwise; the stored text is the given model -/
def deployModel (ms : List ModelRow) (id : String) (data : Nat) : List ModelRow :=
  match ms.find? (·.id == id) with
  | some m => ms.map fun x => if x.id == id then { x with ver := m.ver + 1, data := data } else x
  | none => ms ++ [⟨id, 1, data⟩]

/-- `deploy_event` for one `on` act -/
def deployEvent (es : List EventRow) (mid aid : String) (ver : Nat) : List EventRow :=
  let eid := eventId mid aid
  match es.find? (·.id == eid) with
  | some e => if e.ver == ver then es else es.map fun x => if x.id == eid then ⟨eid, mid, ver⟩ else x
  | none => es ++ [⟨eid, mid, ver⟩]

def deploy (s : St) (id : String) (data : Nat) (ons : List String) (ver : Nat) : St :=
  { models := deployModel s.models id data,
    events := ons.foldl (fun es aid => deployEvent es id aid ver) s.events }

/-- `ModelExecutor::rm` -/
def rm (s : St) (id : String) : St :=
  { models := s.models.filter (·.id != id), events := s.events.filter (·.mid != id) }

def verOf (s : St) (id : String) : Option Nat := (s.models.find? (·.id == id)).map (·.ver)

end Acts.Deploy
