import Lean.Data.Json
import ActsModel.Driver.Util
import ActsModel.Model.Value
import ActsModel.Model.Tmpl
open Lean

namespace Acts.Driver
open Acts Acts.Value

/-- tagged JSON of the protocol → model value -/
partial def taggedToJson (j : Lean.Json) : Acts.Json :=
  let a := asArr j
  match asStr a[0]! with
  | "null" => .null
  | "bool" => .bool ((a[1]!.getBool?).toOption.getD false)
  | "int" => .int (asInt a[1]!)
  | "fx" => .flt (.exact (asInt a[1]!))
  | "fo" => .flt (.other (asNat a[1]!))
  | "str" => .str (asStr a[1]!)
  | "arr" => .arr ((asArr a[1]!).toList.map taggedToJson)
  | "obj" => .obj ((asArr a[1]!).toList.map fun kv => let p := asArr kv; (asStr p[0]!, taggedToJson p[1]!))
  | _ => .null

partial def jsonToTagged : Acts.Json → Lean.Json
  | .null => Lean.Json.arr #[Lean.Json.str "null"]
  | .bool b => Lean.Json.arr #[Lean.Json.str "bool", Lean.Json.bool b]
  | .int z => Lean.Json.arr #[Lean.Json.str "int", Lean.Json.num (JsonNumber.fromInt z)]
  | .flt (.exact z) => Lean.Json.arr #[Lean.Json.str "fx", Lean.Json.num (JsonNumber.fromInt z)]
  | .flt (.other b) => Lean.Json.arr #[Lean.Json.str "fo", Lean.Json.num b]
  | .str s => Lean.Json.arr #[Lean.Json.str "str", Lean.Json.str s]
  | .arr xs => Lean.Json.arr #[Lean.Json.str "arr", Lean.Json.arr (xs.map jsonToTagged).toArray]
  | .obj kvs => Lean.Json.arr #[Lean.Json.str "obj", Lean.Json.arr (kvs.map fun (k, v) => Lean.Json.arr #[Lean.Json.str k, jsonToTagged v]).toArray]

def valueCase (req : Lean.Json) : Lean.Json :=
  let v := taggedToJson (jget req "v")
  let back := fromJs (toJs v)
  Lean.Json.mkObj [("back", jsonToTagged back), ("same", Lean.Json.bool (sameValue back v)), ("safe", Lean.Json.bool (safe v))]

/-- `to_string()` of the scalar results `fill_params` substitutes -/
def renderScalar : Acts.Json → String
  | .null => "null"
  | .bool b => if b then "true" else "false"
  | .int z => toString z
  | .str s => s
  | _ => "?"

def trimSpaces (cs : List Char) : List Char :=
  (cs.dropWhile (· == ' ')).reverse.dropWhile (· == ' ') |>.reverse

/-- String::replace(from, to) on character lists (all non-overlapping occurrences, left to right) -/
partial def replaceAll (s pat rep : List Char) : List Char :=
  if pat.isEmpty then s else
  let rec go (cs : List Char) (acc : List Char) : List Char :=
    match cs with
    | [] => acc.reverse
    | c :: rest => if pat.isPrefixOf cs then go (cs.drop pat.length) (rep.reverse ++ acc) else go rest (c :: acc)
  go s []

/-- `fill_params` on one string for templates whose expression is a variable name -/
def fillString (env : List (String × Acts.Json)) (s : List Char) : Acts.Json :=
  let spans := Tmpl.scan 0 s
  if spans.isEmpty then .str (String.ofList s) else
  let rec go (sp : List (Nat × Nat)) (cur : List Char) : Acts.Json :=
    match sp with
    | [] => .str (String.ofList cur)
    | (a, b) :: rest =>
      let text := (s.drop a).take (b - a)
      let inner := trimSpaces ((text.drop 2).take (text.length - 4))
      let v := (env.lookup (String.ofList inner)).getD .null
      if a == 0 && b == cur.length then v
      else go rest (replaceAll cur text (renderScalar v).toList)
  go spans s

def tmplCase (req : Lean.Json) : Lean.Json :=
  let s := (jstr req "s").toList
  let env := (asArr (jget req "env")).toList.map fun kv => let p := asArr kv; (asStr p[0]!, taggedToJson p[1]!)
  let spans := Tmpl.scan 0 s
  Lean.Json.mkObj [("spans", Lean.Json.arr (spans.map fun (a, b) => Lean.Json.arr #[Lean.Json.num a, Lean.Json.num b]).toArray),
    ("filled", jsonToTagged (fillString env s))]

end Acts.Driver
