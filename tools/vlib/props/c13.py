"""C13 — process isolation; independence of load, cache capacity and worker threads"""
import json
from collections import Counter

from .. import gen
from ..rng import Rng

ASSUMPTIONS = [
    "each process's client answers one open interrupt per round, chosen by (node id, task id), with answers that depend only on (pid, node id); "
    "the same client is used in the solo run, so the per-process behaviour is a function of the process alone if processes are isolated",
    "projections are compared as multisets (message order across processes is a schedule artefact); ids and timestamps are not compared",
    "keep_processes = true so that the final rows of every process can be read",
]


def gen_proc(rng, k, generated=False):
    """one model whose outcome is schedule-independent: conditions read only the start inputs, every act writes names of its own"""
    mid = f"m{k}"
    g = gen.WfGen(rng.fork("wf"), depth=2, max_steps=3, max_branches=3, max_acts=2, p_if=15, needs=False,
                  act_kinds=((gen.IRQ, 6), (gen.MSG, 2), (gen.SET, 2)), catches=rng.chance(1, 3))
    w = g.workflow(mid)
    if rng.chance(1, 2):
        w["env"] = {"e1": 10 + k}
    if rng.chance(1, 3):
        # the process env is also written at run time (by a script of the first step, before anything runs in parallel), and read by a later interrupt
        w.setdefault("env", {})["stage"] = "draft"
        w["steps"].insert(0, {"id": "s0", "acts": [{"id": "a0c", "uses": gen.CODE, "params": f'$env.stage = "st{k}"; $env.count = {k} * 2;'},
                                                    {"id": "a0", "uses": gen.IRQ, "key": "ka0", "inputs": {"stage": "{{ $env.stage }}", "count": "{{ $env.count }}"}}]})
        w["steps"].append({"id": "s99", "acts": [{"id": "a99", "uses": gen.IRQ, "key": "ka99", "inputs": {"stage": "{{ $env.stage }}", "count": "{{ $env.count }}"}}]})
    if generated:
        # some interrupts become generators of acts (run-time nodes, which a reload has to bring back too)
        def walk(steps):
            for st in steps:
                for a in st.get("acts", []):
                    if a["uses"] == gen.IRQ and "catches" not in a and rng.chance(1, 3):
                        a["uses"] = rng.pick(["acts.core.parallel", "acts.core.sequence"])
                        key = a.pop("key")
                        a["params"] = {"in": [f"u{q}" for q in range(rng.range(0, 3))],
                                       "acts": [{"uses": gen.IRQ, "key": "g" + key}] + ([{"uses": gen.MSG, "key": "h" + key}] if rng.chance(1, 3) else [])}
                for b in st.get("branches", []):
                    walk(b.get("steps", []))
        walk(w["steps"])
    kinds = {}
    for nid in gen.all_ids(w, "act"):
        r = rng.below(100)
        kinds[nid] = "next" if r < 80 else "error" if r < 90 else "skip" if r < 95 else "abort" if r < 97 else "submit"
    return w, kinds


def answers_for(kinds, j):
    """the client of process j: same decisions as its model's other instances, values of its own"""
    out = {}
    for nid, ev in kinds.items():
        if ev == "error":
            out[nid] = {"ev": ev, "opts": {"ecode": "e1" if len(nid) % 2 else "e2", "message": f"boom-{j}-{nid}"}}
        elif ev in ("next", "submit"):
            out[nid] = {"ev": ev, "opts": {f"r_{nid}": 1000 * j + len(nid), f"q_{nid}": f"p{j}"}}
        else:
            out[nid] = {"ev": ev, "opts": {}}
    return out


def gnid(nid):
    """run-time nodes have generated ids"""
    return "<generated>" if isinstance(nid, str) and nid[:1] in "~@" else nid


def strip_ids(v):
    if isinstance(v, dict):
        return {a: strip_ids(b) for a, b in v.items() if a != "task_id"}
    if isinstance(v, list):
        return [strip_ids(x) for x in v]
    return v


def projection(res, pid):
    msgs, finals, pevs, acts = Counter(), None, Counter(), []
    for st in res.get("steps", []):
        for o in st["obs"]:
            k = o.get("k")
            if k == "gen" and o.get("pid") == pid:
                msgs[(gnid(o["nid"]), o["type"], o["state"], o["key"], o["uses"], json.dumps(strip_ids(o.get("inputs")), sort_keys=True), json.dumps(o.get("outputs"), sort_keys=True))] += 1
            elif k == "pev" and o.get("pid") == pid and o.get("chan") == "default":
                pevs[(o["ev"], o["state"], json.dumps(o.get("outputs"), sort_keys=True))] += 1
            elif k == "swarm_final" and o.get("pid") == pid:
                finals = (o.get("state"), o.get("env"), o.get("perr"),
                          Counter((gnid(t["nid"]), t["kind"], t["state"], json.dumps({a: b for a, b in (t.get("data") or {}).items() if a != "$params"}, sort_keys=True), t.get("err")) for t in o["tasks"]))
            elif k == "swarm_act" and o.get("pid") == pid:
                acts.append((gnid(o["nid"]), o["ev"], o["ok"], o.get("err")))
    return {"messages": msgs, "events": pevs, "final": finals, "actions": sorted(acts, key=str)}


def overlapping_copies(res, pid):
    """did two in-memory copies of the process write task states in overlapping periods?  (the cache may drop a process that still has work in
    flight; the dropped copy goes on running in the scheduler while the next client action loads a second copy from rows that are not final yet)"""
    seq = []
    for st in res.get("steps", []):
        for o in st["obs"]:
            if o.get("k") == "tr" and o.get("pid") == pid and o.get("inst") is not None:
                if not seq or seq[-1] != o["inst"]:
                    seq.append(o["inst"])
    # A … B … A: copy A wrote again after copy B had started writing
    return len(seq) != len(set(seq))


def first_diff(a, b):
    for key in ("actions", "messages", "events", "final"):
        if a[key] != b[key]:
            if isinstance(a[key], Counter):
                d1 = a[key] - b[key]
                d2 = b[key] - a[key]
                return key, f"only alone: {list(d1.items())[:2]} / only in the crowd: {list(d2.items())[:2]}"
            if key == "final" and a[key] and b[key]:
                if a[key][:3] != b[key][:3]:
                    return key, f"alone {a[key][:3]} / crowd {b[key][:3]}"
                d1 = a[key][3] - b[key][3]
                d2 = b[key][3] - a[key][3]
                return key, f"tasks only alone: {list(d1.items())[:2]} / only in the crowd: {list(d2.items())[:2]}"
            return key, f"alone {str(a[key])[:200]} / crowd {str(b[key])[:200]}"
    return None


def run(ctx):
    ctx.check_theorems("ActsModel.Props.C13")
    n = 24 if ctx.tier == "quick" else 300
    scs, meta = [], []
    for i in range(n):
        rng = Rng(ctx.seed * 6700417 + i)
        nproc = rng.pick([2, 3, 4, 6, 8, 12]) if ctx.tier == "quick" else rng.pick([2, 3, 4, 8, 16, 32, 64])
        nmodels = rng.range(1, min(nproc, 4))
        models, answers_by_model = [], []
        for k in range(nmodels):
            w, ans = gen_proc(rng.fork(f"m{k}"), k + 1, generated=(i % 3 == 2))
            models.append(w)
            answers_by_model.append(ans)
        if i % 6 == 5:
            # every top-level step catches whatever fails beneath it, and the clients fail acts: the catches a task registered when it
            # started have to survive the reloads a small cache forces (SQLite here)
            for k, mw in enumerate(models):
                for st_ in mw["steps"]:
                    if "catches" not in st_:
                        st_["catches"] = [{"steps": [{"id": st_["id"] + "h", "acts": [{"id": st_["id"] + "ha", "uses": gen.MSG, "key": "k" + st_["id"] + "ha"}]}]}]
                flip = [nid for nid, ev in sorted(answers_by_model[k].items()) if ev in ("next", "submit")]
                for nid in flip[::2]:
                    answers_by_model[k][nid] = "error"
        if i % 4 == 3:
            # a model that finishes by itself: kept, finished processes share the cache with the waiting ones
            models.append({"id": f"m{nmodels + 1}", "steps": [{"id": "qs", "acts": [{"id": "qa", "uses": gen.MSG, "key": "kq"}]}]})
            answers_by_model.append({})
            nmodels += 1
        procs = []
        for j in range(nproc):
            k = j % nmodels
            pid = f"p{j + 1}"
            procs.append((pid, k, {"pid": pid, "x": (j + i) % 4, "y": (j * 7 + i) % 4, "tag": f"v-{pid}"}))
        cap = rng.pick([1, 1, 2, 3, nproc, 1024])
        workers = rng.pick([1, 2, 4, 8])
        store = "sqlite" if rng.chance(1, 3) else "mem"
        if i % 6 == 5:
            store, cap = "sqlite", rng.pick([1, 1, 2])
        cfg = {"keep": True, "store": store, "mode": "free", "workers": workers, "cache_cap": cap, "stuck_secs": 90}
        answers = {pid: answers_for(answers_by_model[k], int(pid[1:])) for pid, k, _ in procs}
        starts = [[models[k]["id"], v] for _, k, v in procs]
        rounds0 = None
        if i % 4 == 3:
            # every process is dropped from the cache while it waits, and all come back in one batch (the refill of the cache that a tick or the
            # end of a process triggers), before the clients go on; some of the waiting interrupts carry a timeout rule that this tick fires
            cfg["cache_cap"] = cap = rng.pick([2 * nproc, 1024])
            rounds0 = rng.below(2)
            for mw in models:
                if rng.chance(1, 2):
                    for st_ in mw["steps"]:
                        first = next((a for a in st_.get("acts", []) if a["uses"] == gen.IRQ and "timeout" not in a and "catches" not in a), None)
                        if first:
                            first["timeout"] = [{"on": "1s", "steps": [{"id": "tmo_" + first["id"], "acts": [{"id": "tmoa_" + first["id"], "uses": gen.MSG, "key": "late_" + first["id"]}]}]}]
                            break
            body = [["swarm", {"starts": starts, "parallel": True, "answers": answers, "rounds": rounds0}]] + \
                   [["evict", pid] for pid, k_, _ in procs if k_ != nmodels - 1 or rng.chance(1, 3)] + [["tick", 1000], ["swarm", {"starts": [], "parallel": True, "answers": answers}]]
        else:
            body = [["swarm", {"starts": starts, "parallel": True, "answers": answers}]]
        crowd = {"id": f"c13-{i}-crowd", "config": cfg, "models": models, "ops": [["deploy", k] for k in range(nmodels)] + body}
        # a second start with a live id is refused
        crowd["ops"].append(["start", models[0]["id"], {"pid": "p1"}])
        scs.append(crowd)
        solos = []
        for pid, k, v in procs:
            solo_body = [["swarm", {"starts": [[models[k]["id"], v]], "parallel": False, "answers": {pid: answers[pid]}}]] if rounds0 is None else \
                [["swarm", {"starts": [[models[k]["id"], v]], "parallel": False, "answers": {pid: answers[pid]}, "rounds": rounds0}], ["tick", 1000],
                 ["swarm", {"starts": [], "parallel": False, "answers": {pid: answers[pid]}}]]
            solo = {"id": f"c13-{i}-{pid}", "config": {"keep": True, "store": "mem", "mode": "free", "workers": 1, "cache_cap": 1024}, "models": [models[k]],
                    "ops": [["deploy", 0]] + solo_body}
            solos.append(len(scs))
            scs.append(solo)
        meta.append((len(scs) - len(solos) - 1, solos, procs, cap, workers, store))
    results = ctx.harness("run", scs)
    stats = {"crowds": n, "processes": 0, "cache_caps": Counter(), "workers": Counter(), "stores": Counter(), "sizes": Counter(), "messages": 0, "dup_pid_refused": 0}
    for ci, solos, procs, cap, workers, store in meta:
        rc = results[ci]
        ctx.cov["evaluations"] += 1
        stats["cache_caps"][str(cap)] += 1
        stats["workers"][str(workers)] += 1
        stats["stores"][store] += 1
        stats["sizes"][str(len(procs))] += 1
        regime = "cap<live" if cap < len(procs) else "cap>=live"
        if cap < len(procs) and "acts.core.parallel" in json.dumps(scs[ci]["models"]) + json.dumps(scs[ci]["models"]).replace("acts.core.sequence", "acts.core.parallel"):
            # run-time nodes (generated acts) live only in memory: a process reloaded after an eviction has lost them
            regime = "cap<live+generated-acts"
        if rc.get("panic"):
            ctx.violation(f"C13|engine-panic|{regime}", f"engine panicked with {len(procs)} processes, cache {cap}, {workers} workers: {str(rc['panic'])[:120]}", {"scenario": scs[ci]})
            continue
        allobs = [o for st in rc.get("steps", []) for o in st["obs"]]
        if any(o.get("k") in ("stuck", "dead") for o in allobs):
            ctx.violation(f"C13|engine-stuck|{regime}", f"work never drains with {len(procs)} processes, cache {cap}, {workers} workers", {"scenario": scs[ci]})
            continue
        bad = None
        for (pid, k, v), si in zip(procs, solos):
            stats["processes"] += 1
            pa = projection(results[si], pid)
            pc = projection(rc, pid)
            stats["messages"] += sum(pc["messages"].values())
            d = first_diff(pa, pc)
            if d and not bad:
                bad = (pid, d, si)
        # leaks: a message of the crowd run must belong to a started pid
        pids = {p for p, _, _ in procs}
        stray = [o for o in allobs if o.get("k") == "gen" and o.get("pid") not in pids]
        if stray:
            ctx.violation(f"C13|stray-message|{regime}", f"message of unknown process {stray[0].get('pid')}", {"scenario": scs[ci]})
        # a second start with a live (or kept) id is refused
        last = rc["steps"][-1]["obs"] if rc.get("steps") else []
        res = [o for o in last if o.get("k") == "res"]
        if res and res[0].get("ok"):
            ctx.violation(f"C13|duplicate-pid-accepted|{regime}", "a second start with the id of an existing process was accepted", {"scenario": scs[ci]})
        elif res:
            stats["dup_pid_refused"] += 1
        if bad:
            ctx.cov["monitor_failures"] += 1
            pid, (key, text), si = bad
            if overlapping_copies(rc, pid):
                # the root cause is established by the trace itself, whatever the symptom
                ctx.violation("C13|two-live-copies-of-a-process", f"process {pid} among {len(procs)} processes (cache {cap}, {workers} workers, {store}) was written by two in-memory copies in "
                              f"overlapping periods (dropped from the cache with work in flight, loaded again by the next action); symptom: {key} differ: {text[:300]}",
                              {"scenario": scs[ci], "alone": scs[si], "pid": pid})
                continue
            ctx.violation(f"C13|{key}-differ|{regime}", f"process {pid} among {len(procs)} processes (cache {cap}, {workers} workers, {store}): {key} differ from running it alone: {text[:400]}",
                          {"scenario": scs[ci], "alone": scs[si], "pid": pid})
        else:
            ctx.nontrivial([scs[ci]["models"], len(procs), cap, workers, store])
    ctx.sample({"crowd": {"config": scs[0]["config"], "processes": len(meta[0][2])}}, limit=1)
    for key in ("cache_caps", "workers", "stores", "sizes"):
        stats[key] = dict(stats[key])
    ctx.cov["correspondence"] = {"distribution": stats, "streams_compared": ["per-pid projections (message multiset, terminal events with outputs, action results, final task rows and process row) of a concurrent crowd run vs each process alone"]}
    ctx.cov["rule"] = ("crowds of 2..64 processes of 1..4 generated models (data-flow and control-flow, catches, env) started from parallel client threads and answered concurrently; cache capacity "
                       "1,2,3,n,1024; 1,2,4,8 worker threads; both back ends; non-trivial = a crowd all of whose projections were compared; distinct by (models, size, cap, workers, store)")
    ctx.cov["clauses_proved"] = ["the projection of any interleaving of a product of per-process machines onto one process is that process's solo run (K3)",
                                 "a write-through cache of any capacity and any eviction choice of idle entries returns what the store holds (K3)",
                                 "a second start of a present id is refused (model of Runtime::start)"]
    ctx.cov["clauses_not_proved"] = ["that the engine is such a product (decided by the projections)", "thread-level atomicity inside the engine", "a single live copy per process (false of the engine under load: witness two_live_copies_diverge, recorded finding)"]


def replay(ctx, data):
    print("re-run: python3 tools/check.py C13; the replay file holds the crowd scenario and the solo scenario of the differing process")
    return 0
