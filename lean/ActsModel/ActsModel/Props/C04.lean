import ActsModel.Spec.Ref
import ActsModel.Gen.Branch
import ActsModel.Spec.Needs

/-!
# C04 — Control flow conforms to the YAML: order, branch selection, skips
The reference interpretation `Spec/Ref.lean` is a function of the workflow, the condition values
and the answered set only — `deterministic` is true by construction (no schedule or thread-count
argument exists).  The theorems below are the laws the property names; the engine is compared with
the interpretation node by node at every quiescent point, under every release order the harness draws.
-/
namespace Acts.C04
open Acts.Ref

/-- K1 (`Branch::init`, `Task::is_ready`, `Step::next`, `Step::review` read from the source on this run): the rules the reference
interpretation of branches rests on. A branch with `needs` waits before its own `if` is looked at and is ready as soon as one named
sibling has ended (skipped included); a failing condition skips the branch, as does a branch with neither `if` nor `else`; the `else`
branch is ready when every sibling was skipped, is closed once a sibling has ended otherwise, and runs at once when it has no siblings;
a pass of the step over its waiting branches resumes every one that has become ready. -/
theorem branch_rules :
    Acts.Gen.needsWaitBeforeIf = true ∧ Acts.Gen.needsReadyAnyEnded = true ∧ Acts.Gen.needsRuleBeforeElseRule = true ∧
    Acts.Gen.condFalseSkips = true ∧ Acts.Gen.plainBranchSkipped = true ∧ Acts.Gen.loneElseRuns = true ∧
    Acts.Gen.elseReadyAllSkipped = true ∧ Acts.Gen.elseClosedWhenTaken = true ∧
    Acts.Gen.nextWakesAll = true ∧ Acts.Gen.reviewWakesAll = true := by decide

/-- the declaration order of the branches of a step does not matter: whether some condition holds … -/
theorem anyCondHolds_perm {bs bs' : List RBranch} (h : bs.Perm bs') : anyCondHolds bs = anyCondHolds bs' := by
  induction h with
  | nil => rfl
  | cons b _ ih => simp [anyCondHolds, ih]
  | swap b c l => simp only [anyCondHolds]; cases c.condHolds <;> cases b.condHolds <;> simp
  | trans _ _ ih1 ih2 => exact ih1.trans ih2

/-- … which condition branches have ended (as a set) … -/
theorem termIds_perm (a : Answered) {bs bs' : List RBranch} (h : bs.Perm bs') : (termIds a bs).Perm (termIds a bs') := by
  induction h with
  | nil => exact List.Perm.refl _
  | cons b _ ih => simp only [termIds]; exact List.Perm.append_left _ ih
  | swap b c l =>
    simp only [termIds]
    rw [← List.append_assoc, ← List.append_assoc]
    exact List.Perm.append_right _ List.perm_append_comm
  | trans _ _ ih1 ih2 => exact ih1.trans ih2

/-- whether a `needs` list is satisfied depends on the set of ended siblings only -/
theorem ready_congr (ns : List String) {tm tm' : List String} (h : ∀ n, n ∈ tm ↔ n ∈ tm') :
    ns.any (tm.contains ·) = ns.any (tm'.contains ·) := by
  have hf : (fun n => tm.contains n) = (fun n => tm'.contains n) := by
    funext n
    have := h n
    cases h1 : tm.contains n <;> cases h2 : tm'.contains n <;> simp_all
  rw [hf]

theorem doneBranch_congr (a : Answered) (sc : Bool) {tm tm' : List String} (h : ∀ n, n ∈ tm ↔ n ∈ tm') (b : RBranch) :
    doneBranch a sc tm b = doneBranch a sc tm' b := by
  cases b with
  | mk i g ss => cases g <;> simp only [doneBranch, ready_congr _ h]

theorem opensBranch_congr (a : Answered) (sc : Bool) {tm tm' : List String} (h : ∀ n, n ∈ tm ↔ n ∈ tm') (b : RBranch) :
    opensBranch a sc tm b = opensBranch a sc tm' b := by
  cases b with
  | mk i g ss => cases g <;> simp only [opensBranch, ready_congr _ h]

theorem statesBranch_congr (a : Answered) (sc sd : Bool) {tm tm' : List String} (h : ∀ n, n ∈ tm ↔ n ∈ tm') (b : RBranch) :
    statesBranch a sc sd tm b = statesBranch a sc sd tm' b := by
  cases b with
  | mk i g ss => cases g <;> simp only [statesBranch, ready_congr _ h]

theorem holdingDone_congr (a : Answered) {tm tm' : List String} (h : ∀ n, n ∈ tm ↔ n ∈ tm') (b : RBranch) :
    holdingDone a tm b = holdingDone a tm' b := by
  cases b with
  | mk i g ss =>
    cases g with
    | cond hc => cases hc <;> simp [holdingDone]
    | otherwise => simp [holdingDone]
    | needs ns => simp only [holdingDone, ready_congr _ h]

theorem doneBranches_perm_aux (a : Answered) (sc : Bool) {tm tm' : List String} (hm : ∀ n, n ∈ tm ↔ n ∈ tm') {bs bs' : List RBranch}
    (h : bs.Perm bs') : doneBranches a sc tm bs = doneBranches a sc tm' bs' := by
  induction h with
  | nil => rfl
  | cons b _ ih => simp [doneBranches, ih, doneBranch_congr a sc hm b]
  | swap b c l =>
    have hl : doneBranches a sc tm l = doneBranches a sc tm' l := by
      induction l with
      | nil => rfl
      | cons x xs ihx => simp [doneBranches, ihx, doneBranch_congr a sc hm x]
    simp only [doneBranches, doneBranch_congr a sc hm b, doneBranch_congr a sc hm c, hl]
    cases doneBranch a sc tm' c <;> cases doneBranch a sc tm' b <;> simp
  | trans h1 h2 ih1 ih2 =>
    have hrefl : ∀ l : List RBranch, doneBranches a sc tm l = doneBranches a sc tm' l := by
      intro l
      induction l with
      | nil => rfl
      | cons x xs ihx => simp [doneBranches, ihx, doneBranch_congr a sc hm x]
    rw [ih1, ← hrefl, ih2]

theorem opensBranches_perm_aux (a : Answered) (sc : Bool) (tm : List String) {bs bs' : List RBranch} (h : bs.Perm bs') :
    (opensBranches a sc tm bs).Perm (opensBranches a sc tm bs') := by
  induction h with
  | nil => exact List.Perm.refl _
  | cons b _ ih => simp only [opensBranches]; exact List.Perm.append_left _ ih
  | swap b c l =>
    simp only [opensBranches]
    rw [← List.append_assoc, ← List.append_assoc]
    exact List.Perm.append_right _ List.perm_append_comm
  | trans _ _ ih1 ih2 => exact ih1.trans ih2

theorem opensBranches_congr (a : Answered) (sc : Bool) {tm tm' : List String} (hm : ∀ n, n ∈ tm ↔ n ∈ tm') (bs : List RBranch) :
    opensBranches a sc tm bs = opensBranches a sc tm' bs := by
  induction bs with
  | nil => rfl
  | cons x xs ih => simp [opensBranches, ih, opensBranch_congr a sc hm x]

theorem anyHoldingDone_perm (a : Answered) (tm : List String) {bs bs' : List RBranch} (h : bs.Perm bs') :
    anyHoldingDone a tm bs = anyHoldingDone a tm bs' := by
  induction h with
  | nil => rfl
  | cons b _ ih => simp [anyHoldingDone, ih]
  | swap b c l => simp only [anyHoldingDone]; cases holdingDone a tm c <;> cases holdingDone a tm b <;> simp
  | trans _ _ ih1 ih2 => exact ih1.trans ih2

theorem anyHoldingDone_congr (a : Answered) {tm tm' : List String} (hm : ∀ n, n ∈ tm ↔ n ∈ tm') (bs : List RBranch) :
    anyHoldingDone a tm bs = anyHoldingDone a tm' bs := by
  induction bs with
  | nil => rfl
  | cons x xs ih => simp [anyHoldingDone, ih, holdingDone_congr a hm x]

theorem statesBranches_perm_aux (a : Answered) (sc sd : Bool) (tm : List String) {bs bs' : List RBranch} (h : bs.Perm bs') :
    (statesBranches a sc sd tm bs).Perm (statesBranches a sc sd tm bs') := by
  induction h with
  | nil => exact List.Perm.refl _
  | cons b _ ih => simp only [statesBranches]; exact List.Perm.append_left _ ih
  | swap b c l =>
    simp only [statesBranches]
    rw [← List.append_assoc, ← List.append_assoc]
    exact List.Perm.append_right _ List.perm_append_comm
  | trans _ _ ih1 ih2 => exact ih1.trans ih2

theorem statesBranches_congr (a : Answered) (sc sd : Bool) {tm tm' : List String} (hm : ∀ n, n ∈ tm ↔ n ∈ tm') (bs : List RBranch) :
    statesBranches a sc sd tm bs = statesBranches a sc sd tm' bs := by
  induction bs with
  | nil => rfl
  | cons x xs ih => simp [statesBranches, ih, statesBranch_congr a sc sd hm x]

/-- **the result does not depend on the declaration order of branches**: permuting the branches of a step changes neither
whether the step is finished, nor (up to order) the interrupts it waits on, nor the nodes that ran and their states -/
theorem perm_branches (a : Answered) (i : String) (c : Bool) (as : List RAct) {bs bs' : List RBranch} (h : bs.Perm bs') :
    doneStep a (.mk i c bs as) = doneStep a (.mk i c bs' as) ∧
    (opensStep a (.mk i c bs as)).Perm (opensStep a (.mk i c bs' as)) ∧
    (statesStep a (.mk i c bs as)).Perm (statesStep a (.mk i c bs' as)) := by
  have hc : stepTaken bs as = stepTaken bs' as := by simp only [stepTaken, anyCondHolds_perm h]
  have hm : ∀ n, n ∈ termIds a bs ↔ n ∈ termIds a bs' := fun n => (termIds_perm a h).mem_iff
  have hd := doneBranches_perm_aux a (stepTaken bs as) hm h
  have hsd : stepTakenDone a bs as = stepTakenDone a bs' as := by
    simp only [stepTakenDone]
    rw [anyHoldingDone_congr a hm bs, anyHoldingDone_perm a _ h]
  refine ⟨?_, ?_, ?_⟩
  · simp only [doneStep]; rw [← hc, hd]
  · simp only [opensStep]
    cases c with
    | false => exact List.Perm.refl _
    | true =>
      simp only [Bool.not_true, Bool.false_eq_true, ↓reduceIte]
      rw [← hc, ← opensBranches_congr a _ hm bs']
      exact List.Perm.append_right _ (opensBranches_perm_aux a _ _ h)
  · simp only [statesStep]
    cases c with
    | false => exact List.Perm.refl _
    | true =>
      simp only [Bool.not_true, Bool.false_eq_true, ↓reduceIte]
      rw [← hc, hd, ← hsd, ← statesBranches_congr a _ _ hm bs']
      exact List.Perm.cons _ (List.Perm.append_right _ (statesBranches_perm_aux a _ _ _ h))

/-- **the else branch runs iff no sibling condition held** -/
theorem else_iff (a : Answered) (someCond someDone : Bool) (tm : List String) (i : String) (ss : List RStep) :
    statesBranch a someCond someDone tm (.mk i .otherwise ss) =
      if someCond then [(i, if someDone then "skipped" else "pending")]
      else (i, if doneSteps a ss then "completed" else "running") :: statesSteps a ss := by
  cases someCond <;> simp [statesBranch]

/-- in particular nothing beneath the else branch ever starts when a sibling condition held -/
theorem else_never_starts (a : Answered) (someDone : Bool) (tm : List String) (i : String) (ss : List RStep) :
    (statesBranch a true someDone tm (.mk i .otherwise ss)).length = 1 := by
  simp [statesBranch]

/-- every branch whose condition holds runs (its steps are started); one whose condition fails is skipped and nothing
beneath it starts -/
theorem cond_branch_runs (a : Answered) (sc sd h : Bool) (tm : List String) (i : String) (ss : List RStep) :
    statesBranch a sc sd tm (.mk i (.cond h) ss) =
      if h then (i, if doneSteps a ss then "completed" else "running") :: statesSteps a ss else [(i, "skipped")] := by
  cases h <;> simp [statesBranch]

/-- an id is among the ended condition branches only if such a branch exists and was skipped or has run to its end -/
theorem termIds_sound (a : Answered) (bs : List RBranch) (n : String) (h : n ∈ termIds a bs) :
    ∃ hc ss, RBranch.mk n (.cond hc) ss ∈ bs ∧ (hc = false ∨ doneSteps a ss = true) := by
  induction bs with
  | nil => simp [termIds] at h
  | cons b bs ih =>
    simp only [termIds, List.mem_append] at h
    rcases h with h | h
    · cases b with
      | mk i g ss =>
        cases g with
        | cond hc =>
          cases hc with
          | false =>
            simp only [termId, Bool.false_eq_true, ↓reduceIte, List.mem_singleton] at h
            subst h
            exact ⟨false, ss, List.mem_cons_self, Or.inl rfl⟩
          | true =>
            simp only [termId, ↓reduceIte] at h
            cases hd : doneSteps a ss with
            | false => simp [hd] at h
            | true =>
              simp only [hd, ↓reduceIte, List.mem_singleton] at h
              subst h
              exact ⟨true, ss, List.mem_cons_self, Or.inr hd⟩
        | otherwise => simp [termId] at h
        | needs ns => simp [termId] at h
    · obtain ⟨hc, ss, hmem, hx⟩ := ih h
      exact ⟨hc, ss, List.mem_cons_of_mem _ hmem, hx⟩

/-- **a needs-branch starts after a needed sibling finished**: while none of the siblings it names has ended it is pending and nothing
beneath it has started; once one has, it runs — whatever its own `if` says -/
theorem needs_branch_waits (a : Answered) (sc sd : Bool) (tm : List String) (i : String) (ns : List String) (ss : List RStep) :
    statesBranch a sc sd tm (.mk i (.needs ns) ss) =
      if ns.any (tm.contains ·) then (i, if doneSteps a ss then "completed" else "running") :: statesSteps a ss else [(i, "pending")] := by
  simp [statesBranch]

/-- … so in a step, a `needs` branch that is past `pending` names a sibling condition branch that was skipped or has run to its end -/
theorem needs_started_after_needed (a : Answered) (bs : List RBranch) (i : String) (ns : List String) (ss : List RStep)
    (sc sd : Bool) (h : statesBranch a sc sd (termIds a bs) (.mk i (.needs ns) ss) ≠ [(i, "pending")]) :
    ∃ n ∈ ns, ∃ hc ss', RBranch.mk n (.cond hc) ss' ∈ bs ∧ (hc = false ∨ doneSteps a ss' = true) := by
  rw [needs_branch_waits] at h
  cases hr : ns.any ((termIds a bs).contains ·) with
  | false => rw [hr] at h; simp at h
  | true =>
    obtain ⟨n, hn, hc⟩ := List.any_eq_true.mp hr
    exact ⟨n, hn, termIds_sound a bs n (by simpa using hc)⟩

/-- the `else` branch never runs beside a `needs` branch (a `needs` branch is never skipped, so the siblings of the `else` branch are
never all skipped) -/
theorem needs_takes_the_step (i : String) (ns : List String) (ss : List RStep) (bs : List RBranch)
    (h : RBranch.mk i (.needs ns) ss ∈ bs) : anyCondHolds bs = true := by
  induction bs with
  | nil => cases h
  | cons b bs ih =>
    simp only [anyCondHolds, Bool.or_eq_true]
    rcases List.mem_cons.mp h with h | h
    · left; subst h; rfl
    · exact Or.inr (ih h)

/-- **a step with acts beside its branches**: the first act is a sibling of the branches — when it runs (its `if` holds) it takes the
step and the `else` branch does not run; when it is skipped the branches decide alone -/
theorem mixed_step_else (bs : List RBranch) (x : RAct) (xs : List RAct) :
    stepTaken bs (x :: xs) = (anyCondHolds bs || x.cond) ∧ stepTaken bs [] = anyCondHolds bs := by
  simp [stepTaken, firstActTakes]

/-- **a needs-branch starts after a needed sibling finished, on the engine's stream** (K3, every stream, every instance of the branch —
a step may be entered more than once): in a stream of creations and state writes that the monitor accepts, whenever a task of a branch
with `needs` goes from `pending` to `running`, a task of a branch it names, created beneath the same task of the step, is in a terminal
state at that point of the stream. This is the soundness of the run-time verdict `C04|needs-branch-started-early`. -/
theorem accepted_needs_started_after_needed (needs : List (String × List String)) (pre post : List Acts.Spec.NEv) (tid : Nat)
    (t : Acts.Spec.NTask) (ns : List String)
    (h : Acts.Spec.needsMonitor needs [] 0 (pre ++ .tr tid .pending .running :: post) = none)
    (ht : (Acts.Spec.needsRun needs [] 0 pre).find? (·.tid == tid) = some t) (hn : needs.lookup t.nid = some ns) :
    ∃ s ∈ Acts.Spec.neededSiblings (Acts.Spec.needsRun needs [] 0 pre) t ns, s.state.isCompleted = true := by
  obtain ⟨_, h2⟩ := Acts.Spec.needsMonitor_append needs pre [] 0 _ h
  obtain ⟨h3, _⟩ := Acts.Spec.needsMonitor_none_cons needs _ _ _ _ h2
  exact Acts.Spec.needsStep_pass needs _ _ tid t ns ht hn h3

/-- non-vacuity: accepted when the needed sibling has ended first, rejected when it has not — also in a second pass of the step, where the
ended sibling of the first pass does not count -/
example : Acts.Spec.needsMonitor [("bN", ["bA"])] [] 0 [.new ⟨1, "s2", none, .none⟩, .new ⟨2, "bA", some 1, .none⟩, .new ⟨3, "bN", some 1, .none⟩,
    .tr 3 .none .pending, .tr 2 .none .running, .tr 2 .running .completed, .tr 3 .pending .running] = none := by decide
example : Acts.Spec.needsMonitor [("bN", ["bA"])] [] 0 [.new ⟨1, "s2", none, .none⟩, .new ⟨2, "bA", some 1, .none⟩, .new ⟨3, "bN", some 1, .none⟩,
    .tr 2 .none .running, .tr 2 .running .completed, .tr 3 .none .pending, .tr 3 .pending .running,
    .new ⟨4, "s2", none, .none⟩, .new ⟨5, "bA", some 4, .none⟩, .new ⟨6, "bN", some 4, .none⟩, .tr 5 .none .running, .tr 6 .none .pending,
    .tr 6 .pending .running] = some (12, 6) := by decide

/-- **a step starts only after its predecessor is terminal**: while a step of a list is unfinished, nothing of the later
steps has started and only it can be waiting -/
theorem step_order (a : Answered) (s : RStep) (ss : List RStep) (h : doneStep a s = false) :
    statesSteps a (s :: ss) = statesStep a s ∧ opensSteps a (s :: ss) = opensStep a s := by
  simp [statesSteps, opensSteps, h]

/-- and once it is finished the successor is started (a skipped step hands over as well) -/
theorem step_successor (a : Answered) (s : RStep) (ss : List RStep) (h : doneStep a s = true) :
    statesSteps a (s :: ss) = statesStep a s ++ statesSteps a ss := by
  simp [statesSteps, h]

/-- **acts of a step run one after another** -/
theorem acts_sequential (a : Answered) (x : RAct) (xs : List RAct) (h : doneAct a x = false) :
    statesActs a (x :: xs) = statesAct a x ∧ opensActs a (x :: xs) = opensAct a x := by
  simp [statesActs, opensActs, h]

/-- a conditional step or act whose condition fails is skipped, and the flow continues behind it -/
theorem skipped_step_continues (a : Answered) (i : String) (bs : List RBranch) (as : List RAct) (ss : List RStep) :
    statesSteps a (.mk i false bs as :: ss) = (i, "skipped") :: statesSteps a ss := by
  simp [statesSteps, statesStep, doneStep]

theorem skipped_act_continues (a : Answered) (i : String) (xs : List RAct) :
    statesActs a (.irq i false :: xs) = (i, "skipped") :: statesActs a xs := by
  simp [statesActs, statesAct, doneAct]

/-- non-vacuity of the `needs` clauses: `b2` needs `b1`; while `a1` is unanswered `b2` is pending and nothing beneath it has started, the
`else` branch `b3` does not run; once `a1` is answered `b2` runs and waits on `a2` -/
example : statesStep (fun _ => false) (.mk "s1" true [.mk "b1" (.cond true) [.mk "s2" true [] [.irq "a1" true]],
    .mk "b2" (.needs ["b1"]) [.mk "s3" true [] [.irq "a2" true]], .mk "b3" .otherwise []] []) =
    [("s1", "running"), ("b1", "running"), ("s2", "running"), ("a1", "interrupted"), ("b2", "pending"), ("b3", "pending")] := by decide
example : statesStep (fun i => i == "a1") (.mk "s1" true [.mk "b1" (.cond true) [.mk "s2" true [] [.irq "a1" true]],
    .mk "b2" (.needs ["b1"]) [.mk "s3" true [] [.irq "a2" true]], .mk "b3" .otherwise []] []) =
    [("s1", "running"), ("b1", "completed"), ("s2", "completed"), ("a1", "completed"), ("b2", "running"), ("s3", "running"),
     ("a2", "interrupted"), ("b3", "skipped")] := by decide
example : wfStep (.mk "s1" true [.mk "b1" (.cond true) [], .mk "b2" (.needs ["b1"]) []] []) = true ∧
    wfStep (.mk "s1" true [.mk "b1" .otherwise [], .mk "b2" (.needs ["b1"]) []] []) = false := by decide

/-- non-vacuity: permuting the three branches of the example leaves the outcome unchanged -/
example : (statesStep (fun i => i == "a1") (.mk "s1" true [.mk "b3" .otherwise [], .mk "b1" (.cond true) [.mk "s2" true [] [.irq "a1" true]],
    .mk "b2" (.cond false) []] [])).Perm
    (statesStep (fun i => i == "a1") (.mk "s1" true [.mk "b1" (.cond true) [.mk "s2" true [] [.irq "a1" true]], .mk "b2" (.cond false) [],
    .mk "b3" .otherwise []] [])) :=
  (perm_branches _ "s1" true [] ((List.Perm.swap _ _ _).trans (List.Perm.cons _ (List.Perm.swap _ _ _)))).2.2

end Acts.C04
