import ActsModel.Model.Scope
import ActsModel.Lemmas.Vars

/-!
# C07 — Data flow: inputs, act outputs and workflow outputs follow the scoping rules
Theorems about `Model/Scope.lean` for every chain, key and value; the operational model uses the same
rules (`Op.updateData`, `Op.findVar`) and is compared with the engine on task data, message inputs/outputs
and terminal-event outputs.
-/
namespace Acts.C07
open Acts Acts.Gen Acts.Scope

/-- K1: the private-key regex is `^(data|__).*`: exactly the keys starting with `data` or `__` -/
theorem private_prefixes : Consts.priKeyPrefixes = ["data", "__"] ∧ Consts.privatePrefix = "__" ∧ Consts.ACT_DATA = "data" := by decide

/-- **read-your-writes**: the writer itself reads the value it wrote, whatever the chain looks like -/
theorem writer_reads_own_write (c : Chain) (k : String) (v : Json) (h : c ≠ []) : find (update c k v) k = some v := by
  cases c with
  | nil => exact absurd rfl h
  | cons self anc => simp [update, find, List.findSome?_cons, Vars.get_set_same]

/-- a write never changes the number of scopes -/
theorem updateOutermost_length (anc : List Vars) (k : String) (v : Json) : (updateOutermost anc k v).length = anc.length := by
  induction anc with
  | nil => rfl
  | cons a rest ih =>
    unfold updateOutermost
    split
    · simp [ih]
    · split <;> simp

/-- **only the holder changes**: every ancestor that does not hold the key is left exactly as it was -/
theorem updateOutermost_frame (anc : List Vars) (k : String) (v : Json) :
    ∀ i (h : i < anc.length), (anc[i]).has k = false →
      (updateOutermost anc k v)[i]'(by rw [updateOutermost_length]; exact h) = anc[i] := by
  induction anc with
  | nil => intro i h; cases h
  | cons a rest ih =>
    intro i h hk
    unfold updateOutermost
    split
    · cases i with
      | zero => rfl
      | succ j => simpa using ih j (by simpa using h) (by simpa using hk)
    · split
      · cases i with
        | zero => rename_i _ ha; simp at hk; rw [hk] at ha; cases ha
        | succ j => rfl
      · rfl

/-- other keys of every scope are untouched by a write of `k` -/
theorem updateOutermost_other_keys (anc : List Vars) (k k' : String) (v : Json) (hne : k' ≠ k) :
    (updateOutermost anc k v).map (·.get k') = anc.map (·.get k') := by
  induction anc with
  | nil => rfl
  | cons a rest ih =>
    unfold updateOutermost
    split
    · simp [ih]
    · split
      · simp [Vars.get_set_other _ _ _ _ hne]
      · rfl

/-- **the holder receives the value**: if some ancestor holds the key, the outermost such ancestor holds the new value afterwards
and every scope outside it is unchanged -/
theorem updateOutermost_holder (anc : List Vars) (k : String) (v : Json) (pre : List Vars) (h : Vars) (post : List Vars)
    (hsplit : anc = pre ++ h :: post) (hh : h.has k = true) (hpost : ∀ x ∈ post, x.has k = false) :
    updateOutermost anc k v = pre ++ Vars.set h k v :: post := by
  subst hsplit
  induction pre with
  | nil =>
    have : post.any (·.has k) = false := by
      rw [Bool.eq_false_iff]; intro hc
      obtain ⟨x, hx, hxk⟩ := List.any_eq_true.mp hc
      rw [hpost x hx] at hxk; cases hxk
    simp [updateOutermost, this, hh]
  | cons p pre ih =>
    have : (pre ++ h :: post).any (·.has k) = true :=
      List.any_eq_true.mpr ⟨h, by simp, hh⟩
    simp only [List.cons_append, updateOutermost, this, ↓reduceIte, ih]

/-- with **at most one holder** (each name declared in at most one enclosing scope) that holder is the one updated -/
theorem update_unique_holder (self : Vars) (pre : List Vars) (h : Vars) (post : List Vars) (k : String) (v : Json)
    (hpriv : isPrivate k = false) (hh : h.has k = true) (hpre : ∀ x ∈ pre, x.has k = false) (hpost : ∀ x ∈ post, x.has k = false) :
    update (self :: (pre ++ h :: post)) k v = Vars.set self k v :: (pre ++ Vars.set h k v :: post) := by
  simp only [update, hpriv, Bool.false_eq_true, ↓reduceIte]
  rw [updateOutermost_holder _ k v pre h post rfl hh hpost]

/-- **later readers see the value**: any task whose ancestry reaches the holder without passing another holder of the name
reads the written value (`pre'` = the reader's own scopes below the holder) -/
theorem reader_sees_write (pre' : List Vars) (h : Vars) (post : List Vars) (k : String) (v : Json)
    (hpre : ∀ x ∈ pre', x.get k = none) : find (pre' ++ Vars.set h k v :: post) k = some v := by
  unfold find
  induction pre' with
  | nil => simp [List.findSome?_cons, Vars.get_set_same]
  | cons p rest ih =>
    simp only [List.cons_append, List.findSome?_cons, hpre p (List.mem_cons_self ..)]
    exact ih (fun x hx => hpre x (List.mem_cons_of_mem _ hx))

/-- **keys beginning with `__` (and the `data` key) never leave their task** -/
theorem private_stays_local (self : Vars) (anc : List Vars) (k : String) (v : Json) (h : isPrivate k = true) :
    update (self :: anc) k v = Vars.set self k v :: anc := by
  simp [update, h]

theorem dunder_is_private (k : String) (h : k.startsWith "__" = true) : isPrivate k = true := by
  simp [isPrivate, Consts.priKeyPrefixes, h]

/-- **no scope outside the writer's ancestry is reached**: `update` returns the writer's chain and nothing else, of the same
length; tasks that are not on the chain are not arguments of the function at all -/
theorem update_length (c : Chain) (k : String) (v : Json) : (update c k v).length = c.length := by
  cases c with
  | nil => rfl
  | cons self anc => simp only [update]; split <;> simp [updateOutermost_length]

/-- W: without the at-most-one-holder hypothesis the *outermost* holder is updated and a nearer holder keeps its stale value,
which a reader beneath the nearer holder then sees -/
theorem farthest_wins (near far : Vars) (k : String) (v : Json) (hn : near.has k = true) (hf : far.has k = true)
    (hpriv : isPrivate k = false) :
    update ([] :: [near, far]) k v = [Vars.set [] k v, near, Vars.set far k v] ∧
    find [near, Vars.set far k v] k = near.get k := by
  constructor
  · simp [update, hpriv, updateOutermost, hf]
  · have : (near.get k).isSome = true := (Vars.has_iff near k).mp hn
    cases hg : near.get k with
    | none => simp [hg] at this
    | some x => simp [find, List.findSome?_cons, hg]

/-- non-vacuity: a chain of depth 3 with the holder in the middle satisfies the hypotheses of `update_unique_holder` -/
example : Vars.has [("k", Json.null)] "k" = true ∧ (∀ x ∈ ([[("y", Json.int 1)]] : List Vars), Vars.has x "k" = false) ∧
    (∀ x ∈ ([[("z", Json.int 3)]] : List Vars), Vars.has x "k" = false) ∧ isPrivate "k" = false := by
  refine ⟨by decide, ?_, ?_, by decide⟩ <;> (intro x hx; simp at hx; subst hx; decide)

end Acts.C07
