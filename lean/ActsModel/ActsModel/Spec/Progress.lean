import ActsModel.Gen.State

/-!
C01 as a predicate on what can be observed of a process at a quiescent point.
-/
namespace Acts.Spec
open Acts.Gen

/-- a process at a quiescent point -/
structure QProc where
  pid : String
  terminalDelivered : Bool                 -- its complete / error event has been delivered
  states : List (String × TaskState)       -- (node kind, state) of every task
  pendingTimeouts : Nat := 0               -- unexpired timeout rules of open tasks
  runningChildren : Nat := 0               -- running sub-processes
  deriving Repr

def QProc.openIrqs (p : QProc) : Nat := (p.states.filter fun s => s.1 == "act" && s.2 == .interrupt).length

/-- something a client (or time) can still act on -/
def QProc.waitingOnClient (p : QProc) : Bool := p.openIrqs > 0 || p.pendingTimeouts > 0 || p.runningChildren > 0

/-- **C01**: with no work in flight, every started process has delivered its terminal event or waits on a client -/
def progressOK (queueLen : Nat) (procs : List QProc) : Bool :=
  queueLen != 0 || procs.all fun p => p.terminalDelivered || p.waitingOnClient

/-- the tasks that are stranded when the property fails: neither terminal nor an open interrupt -/
def QProc.stranded (p : QProc) : List (String × TaskState) :=
  p.states.filter fun s => !s.2.isCompleted && !(s.1 == "act" && s.2 == .interrupt)

end Acts.Spec
