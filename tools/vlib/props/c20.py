"""C20 — models survive serialisation; deployment and tree building are faithful"""
import json

from .. import gen
from ..core import obs_of
from ..rng import Rng

ASSUMPTIONS = [
    "serde_json / serde_yaml derive behaviour is compared (round trips on the implementation), not modelled: YAML syntax itself is a trusted carrier",
    "the tree comparison covers models with explicit ids; generated ids are checked only for multiplicity",
]

TEXT = ["", "a", "name ü", "日本", "with \"quote\"", "multi\nline", "tag-1", "x: y", "- dash", "#hash", "true", "123", "null", "~"]
PKGS = [gen.IRQ, gen.MSG, gen.SET, gen.CODE, "acts.core.block", "acts.core.parallel", "unknown.pkg", ""]


class FullGen:
    def __init__(self, rng, dup_p=6, empty_id_p=0):
        self.rng = rng
        self.n = 0
        self.ids = []
        self.dup_p = dup_p
        self.empty_id_p = empty_id_p
        self.step_ids = []

    def fresh(self, k):
        if self.empty_id_p and self.rng.chance(self.empty_id_p, 100):
            return ""
        if self.ids and self.rng.chance(self.dup_p, 1000):
            return self.rng.pick(self.ids)
        self.n += 1
        i = f"{k}{self.n}" if not self.rng.chance(1, 15) else self.rng.pick(["ü", "a b", "x.y", "Z"]) + str(self.n)
        self.ids.append(i)
        return i

    def vars(self):
        r = self.rng
        out = {}
        for _ in range(r.weighted([(0, 5), (1, 3), (2, 2)])):
            out[r.pick(["a", "b", "data", "x", "__p", "ü"])] = r.pick([1, 0, -5, 2 ** 40, "s", "", None, True, [1, "a"], {"k": 1}, 1.5, "{{ a }}"])
        return out

    def maybe(self, d, k, v, p=3):
        if self.rng.chance(1, p):
            d[k] = v

    def act(self, depth):
        r = self.rng
        a = {"id": self.fresh("a"), "uses": r.pick(PKGS)}
        self.maybe(a, "name", r.pick(TEXT))
        self.maybe(a, "desc", r.pick(TEXT), 5)
        self.maybe(a, "tag", r.pick(TEXT), 4)
        self.maybe(a, "key", r.pick(TEXT), 3)
        self.maybe(a, "if", "x > 1", 5)
        self.maybe(a, "on", r.pick(["created", "completed", "before_update", "updated", "step"]), 8)
        self.maybe(a, "params", r.pick([None, 1, "code", {"a": 1}, [1, 2], {"in": [1], "acts": []}]), 3)
        self.maybe(a, "options", self.vars(), 5)
        self.maybe(a, "inputs", self.vars(), 4)
        self.maybe(a, "outputs", self.vars(), 4)
        if depth > 0:
            self.maybe(a, "setup", [self.act(0) for _ in range(r.range(1, 2))], 8)
            self.maybe(a, "catches", self.catches(depth - 1), 6)
            self.maybe(a, "timeout", self.timeouts(depth - 1), 6)
        return a

    def catches(self, depth):
        r = self.rng
        return [{"on": r.pick([None, "e1", "e2"]), "steps": self.steps(depth, 0, 2)} if not r.chance(1, 6)
                else {"steps": self.steps(depth, 0, 1)} for _ in range(r.range(1, 3))]

    def timeouts(self, depth):
        r = self.rng
        return [{"on": r.pick(["1s", "2m", "1h", "3d"]), "steps": self.steps(depth, 0, 2)} for _ in range(r.range(1, 3))]

    def step(self, depth):
        r = self.rng
        s = {"id": self.fresh("s")}
        self.maybe(s, "name", r.pick(TEXT))
        self.maybe(s, "desc", r.pick(TEXT), 6)
        self.maybe(s, "tag", r.pick(TEXT), 4)
        self.maybe(s, "if", "y == 0", 5)
        self.maybe(s, "inputs", self.vars(), 4)
        self.maybe(s, "outputs", self.vars(), 4)
        if self.step_ids and r.chance(1, 7):
            s["next"] = r.pick(self.step_ids + ["nosuch"])
        if depth > 0 and r.chance(1, 3):
            s["branches"] = [self.branch(depth - 1) for _ in range(r.range(1, 3))]
        if r.chance(2, 3):
            s["acts"] = [self.act(depth) for _ in range(r.range(1, 3))]
        if depth > 0:
            self.maybe(s, "catches", self.catches(depth - 1), 6)
            self.maybe(s, "timeout", self.timeouts(depth - 1), 6)
            self.maybe(s, "setup", [self.act(0)], 8)
        if s["id"]:
            self.step_ids.append(s["id"])
        return s

    def steps(self, depth, lo, hi):
        return [self.step(depth) for _ in range(self.rng.range(lo, hi))]

    def branch(self, depth):
        r = self.rng
        b = {"id": self.fresh("b")}
        self.maybe(b, "name", r.pick(TEXT))
        self.maybe(b, "tag", r.pick(TEXT), 4)
        k = r.below(4)
        if k == 0:
            b["else"] = True
        elif k == 1:
            b["needs"] = [r.pick(self.ids)] if self.ids else []
        else:
            b["if"] = "x < 2"
        self.maybe(b, "run", "1 + 1", 8)
        self.maybe(b, "inputs", self.vars(), 5)
        self.maybe(b, "outputs", self.vars(), 5)
        b["steps"] = self.steps(depth, 0, 2)
        return b

    def workflow(self, mid):
        r = self.rng
        w = {"id": mid}
        self.ids.append(mid)
        self.maybe(w, "name", r.pick(TEXT))
        self.maybe(w, "desc", r.pick(TEXT), 5)
        self.maybe(w, "tag", r.pick(TEXT), 4)
        self.maybe(w, "env", self.vars(), 4)
        self.maybe(w, "inputs", self.vars(), 3)
        self.maybe(w, "outputs", self.vars(), 3)
        self.maybe(w, "ver", r.below(5), 6)
        if r.chance(1, 4):
            w["on"] = [{"id": self.fresh("ev") if not r.chance(1, 12) else "", "uses": r.pick(["acts.event.manual", "acts.event.hook", "acts.event.chat"])}
                       for _ in range(r.range(1, 2))]
        self.maybe(w, "setup", [self.act(0)], 6)
        w["steps"] = self.steps(2, 0, 3)
        return w


def subset_eq(inp, out, path=""):
    """every field given in the input model is present with the same value in the serialised model"""
    if isinstance(inp, dict):
        if not isinstance(out, dict):
            return path or "/"
        for k, v in inp.items():
            if k not in out:
                return f"{path}/{k} missing"
            r = subset_eq(v, out[k], f"{path}/{k}")
            if r:
                return r
        return None
    if isinstance(inp, list):
        if not isinstance(out, list) or len(inp) != len(out):
            return f"{path} list length"
        for i, (a, b) in enumerate(zip(inp, out)):
            r = subset_eq(a, b, f"{path}[{i}]")
            if r:
                return r
        return None
    if isinstance(inp, float) or isinstance(out, float):
        return None if inp == out else f"{path}: {inp!r} != {out!r}"
    return None if (inp == out and type(inp) == type(out)) or (inp == out and not isinstance(inp, bool) and not isinstance(out, bool)) else f"{path}: {inp!r} != {out!r}"


def count_nodes(w):
    n = 1 + len(w.get("on", []))

    def steps(ss):
        c = 0
        for s in ss:
            c += 1
            if "next" not in s or s["next"] is None:
                for b in s.get("branches", []):
                    c += 1 + steps(b.get("steps", []))
            for a in s.get("acts", []):
                c += 1 + hooks(a)
            c += hooks(s)
        return c

    def hooks(x):
        c = 0
        for cc in x.get("catches", []):
            c += steps(cc.get("steps", []))
        for t in x.get("timeout", []):
            c += steps(t.get("steps", []))
        return c
    return n + steps(w.get("steps", []))


def run(ctx):
    ctx.check_theorems("ActsModel.Props.C20")
    n = 300 if ctx.tier == "quick" else 8000
    rng = Rng(ctx.seed * 7368787)
    models = []
    for i in range(n):
        g = FullGen(rng.fork(i), dup_p=8 if i % 3 == 0 else 0, empty_id_p=0)
        models.append(g.workflow(f"m{i}"))
    for i in range(n // 6):
        g = FullGen(rng.fork("e%d" % i), dup_p=0, empty_id_p=30)
        w = g.workflow(f"g{i}")
        w.pop("on", None)
        models.append(w)
    eng = ctx.harness("model", [{"model": m} for m in models], tag="m")
    mod = ctx.driver([{"cmd": "c20.tree", "model": m} for m in models], tag="dm")
    stats = {"models": len(models), "valid": 0, "dup": 0, "event_id_empty": 0, "with_catches": 0, "with_next": 0, "generated_ids": 0, "nodes": 0}
    for w, e, m in zip(models, eng, mod):
        ctx.cov["evaluations"] += 1
        text = json.dumps(w)
        has_empty = '"id": ""' in text
        if e.get("parse_err"):
            ctx.violation("C20|parse", f"generated model rejected by from_json: {e['parse_err'][:100]}", {"model": w})
            continue
        # (a) serialisation round trips on the implementation
        r = subset_eq(w, e["json"])
        if r:
            ctx.violation("C20|json-field-lost", f"to_json(from_json(m)) differs from m at {r}", {"model": w, "json": e["json"]})
            continue
        if e["json"] != e["json_again"]:
            ctx.violation("C20|json-roundtrip", "from_json(to_json(w)) is not w", {"model": w})
            continue
        if not e.get("yml_ok") or e["via_yml"] != e["json"]:
            ctx.violation("C20|yaml-roundtrip", f"from_yml(to_yml(w)) is not w: {str(e.get('via_yml'))[:120]}", {"model": w})
            continue
        if "catches" in text or "timeout" in text:
            stats["with_catches"] += 1
        if '"next"' in text:
            stats["with_next"] += 1
        # (b0) the model the tree keeps (stored in the process row, used by every reload) rebuilds the same nodes: generated ids are part of it
        rb = e.get("rebuilt")
        if e.get("valid") and isinstance(rb, dict) and rb.get("same_ids") is False:
            have = sorted(x["id"] for x in e["dump"].get("nodes", []))
            ctx.violation("C20|kept-model-rebuilds-other-nodes", f"a tree rebuilt from the model the tree keeps has nodes {rb.get('ids', [])[:6]}, the tree has {have[:6]}", {"model": w})
            continue
        # (b) validity = no duplicate id (Lean theorem build_ok_iff_nodup), same error class
        if has_empty:
            stats["generated_ids"] += 1
            if e.get("valid"):
                nodes = e["dump"].get("nodes", [])
                stats["nodes"] += len(nodes)
                if len(nodes) != count_nodes(w):
                    ctx.violation("C20|generated-ids-count", f"tree has {len(nodes)} nodes, the model declares {count_nodes(w)}", {"model": w})
                else:
                    ctx.nontrivial(["gen", w])
            continue
        if not isinstance(m, dict) or "ok" not in m:
            continue
        if e.get("valid") != m.get("ok"):
            ctx.violation("C20|valid-vs-model", f"engine valid={e.get('valid')} ({e.get('valid_err')}), model build ok={m.get('ok')} ({m.get('err')})",
                          {"model": w, "engine": e.get("valid_err"), "model_result": m})
            continue
        if not m.get("ok"):
            if m.get("err") == "dup-id":
                stats["dup"] += 1
            else:
                stats["event_id_empty"] += 1
            if e.get("valid_err") != m.get("err"):
                ctx.violation("C20|error-class", f"engine rejects with {e.get('valid_err')}, model with {m.get('err')}", {"model": w})
            continue
        stats["valid"] += 1
        # (c) the built tree: every node with every link
        en = {x["id"]: x for x in e["dump"]["nodes"]}
        mn = {x["id"]: x for x in m["nodes"]}
        stats["nodes"] += len(en)
        if sorted(en) != sorted(mn):
            ctx.violation("C20|tree-node-set", f"node ids differ: engine-only {sorted(set(en) - set(mn))[:5]}, model-only {sorted(set(mn) - set(en))[:5]}", {"model": w})
            continue
        bad = None
        for i, x in en.items():
            y = mn[i]
            for f in ("kind", "level", "parent_link", "parent", "prev", "next", "children"):
                if x.get(f) != y.get(f):
                    bad = (i, f, x.get(f), y.get(f))
                    break
            if bad:
                break
        if bad:
            ctx.violation(f"C20|tree-link|{bad[1]}", f"node {bad[0]} field {bad[1]}: engine {bad[2]}, model {bad[3]}", {"model": w, "node": bad[0]})
            continue
        # the Lean-proved clauses as monitors on the engine's tree
        if len(en) != count_nodes(w):
            ctx.violation("C20|declared-exactly-once", f"tree has {len(en)} nodes, the model declares {count_nodes(w)}", {"model": w})
            continue
        if len(en) >= 6:
            ctx.nontrivial(w)
        ctx.sample({"model": w.get("id"), "nodes": len(en), "order": m.get("order")[:8]}, limit=2)
    # (d) deploy / version / events / rm / unknown start
    scs = []
    for i in range(40 if ctx.tier == "quick" else 600):
        r = rng.fork("d%d" % i)
        g = FullGen(r, dup_p=0)
        w1 = g.workflow("da")
        w1["on"] = [{"id": f"ev{k}", "uses": "acts.event.manual"} for k in range(r.range(0, 3))]
        g2 = FullGen(r.fork("b"), dup_p=0)
        w2 = g2.workflow("da_b")
        w2["on"] = [{"id": "ev0", "uses": "acts.event.manual"}]
        # a later edition of model `da` whose `on` list has grown (new entries after, and sometimes before, the old ones)
        import copy
        w1b = copy.deepcopy(w1)
        extra = [{"id": f"evx{k}", "uses": "acts.event.manual"} for k in range(r.range(1, 2))]
        w1b["on"] = (extra[:1] if r.chance(1, 4) else []) + w1["on"] + extra[1:] + ([] if r.chance(1, 4) and len(extra) > 1 else extra[:1] if not w1b["on"] else [])
        # … and that carries another name
        w1b["name"] = (w1.get("name") or "model") + " (2nd edition)"
        seen_ids = set()
        w1b["on"] = [a for a in (w1["on"] + extra if not r.chance(1, 4) else extra + w1["on"]) if not (a["id"] in seen_ids or seen_ids.add(a["id"]))]
        ops = []
        nd = {"da": 0, "da_b": 0}
        for _ in range(r.range(2, 7)):
            k = r.below(10)
            if k < 5:
                which = r.pick([0, 1, 2, 2])
                ops.append(["deploy", which, r.pick(["", "yml"])])
                nd["da_b" if which == 1 else "da"] += 1
            elif k < 7:
                which = r.pick(["da", "da_b"])
                ops.append(["rm_model", which])
                nd[which] = 0
            else:
                ops.append(["start", r.pick(["nosuch", "da", "da_b"]), {"pid": "px%d" % len(ops)}])
            ops.append(["model_get", "da", "json"])
            ops.append(["model_get", "da_b", "json"])
            ops.append(["rows", "events"])
        scs.append({"id": f"dep-{i}", "config": {"keep": True, "store": "sqlite" if i % 2 == 1 else "mem"}, "models": [w1, w2, w1b], "ops": ops})
    res = ctx.harness("run", scs, tag="d")
    for sc, r in zip(scs, res):
        ctx.cov["evaluations"] += 1
        if r.get("panic") or r.get("crashed"):
            ctx.violation("C20|engine-panic", f"engine panicked: {str(r.get('panic'))[:100]}", {"scenario": sc})
            continue
        ver = {"da": 0, "da_b": 0}
        edition = {}
        ons_of = [[a["id"] for a in m.get("on", [])] for m in sc["models"]]
        live_events = {"da": set(), "da_b": set()}
        by_op = {st["op"]: st["obs"] for st in r.get("steps", [])}
        bad = None
        for i, op in enumerate(sc["ops"]):
            obs = by_op.get(i, [])
            if op[0] == "deploy":
                mid = "da_b" if op[1] == 1 else "da"
                ok = any(o.get("k") == "res" and o.get("ok") for o in obs)
                if not ok:
                    bad = ("deploy-rejected", f"deploy of a valid model failed: {obs}")
                    break
                ver[mid] += 1
                edition[mid] = op[1]
                live_events[mid] = set(f"{mid}:{a}" for a in ons_of[op[1]])
            elif op[0] == "rm_model":
                ver[op[1]] = 0
                live_events[op[1]] = set()
            elif op[0] == "start":
                ok = any(o.get("k") == "res" and o.get("ok") for o in obs)
                want = ver.get(op[1], 0) > 0
                if ok != want:
                    bad = ("start-unknown" if not want else "start-known-fails", f"start {op[1]}: ok={ok}, deployed={want}")
                    break
            elif op[0] == "model_get":
                got = [o for o in obs if o.get("k") == "model"]
                v = got[0]["ver"] if got else 0
                if v != ver[op[1]]:
                    bad = ("version", f"model {op[1]} has ver {v} after {ver[op[1]]} deploys")
                    break
                if got and op[1] in edition:
                    # the record describes the edition that was deployed last: its name, and the text is that model
                    want = sc["models"][edition[op[1]]]
                    if (got[0].get("name") or "") != (want.get("name") or ""):
                        bad = ("record", f"model {op[1]} is recorded under the name {got[0].get('name')!r}, the deployed edition is named {want.get('name')!r} ({sc['config']['store']})")
                        break
                    stored = got[0].get("parsed")
                    if not isinstance(stored, dict):
                        bad = ("record", f"model {op[1]}: the stored text is not a model: {str(got[0].get('data'))[:80]}")
                        break
                    mine = {"id": want.get("id"), "name": want.get("name") or "", "on": [a["id"] for a in want.get("on", [])],
                            "steps": [x.get("id") for x in want.get("steps", []) if x.get("id")]}
                    theirs = {"id": stored.get("id"), "name": stored.get("name") or "", "on": [a.get("id") for a in stored.get("on") or []],
                              "steps": [x.get("id") for x in stored.get("steps") or [] if x.get("id") and x.get("id") in mine["steps"]]}
                    if mine != theirs:
                        bad = ("record", f"model {op[1]}: the stored text describes {theirs}, the deployed edition is {mine} ({sc['config']['store']})")
                        break
            elif op[0] == "rows":
                rows = [o for o in obs if o.get("k") == "rows"]
                ids = set(x["id"] for x in (rows[0].get("rows") or [])) if rows else set()
                want = live_events["da"] | live_events["da_b"]
                if ids != want:
                    bad = ("events", f"registered events {sorted(ids)}, expected one per 'on' entry of the deployed models {sorted(want)}")
                    break
        if bad:
            ctx.violation("C20|deploy-" + bad[0], bad[1], {"scenario": sc})
        else:
            ctx.nontrivial(["dep", sc["ops"]])
    ctx.cov["correspondence"] = {"distribution": stats, "streams_compared": ["to_json/from_json/to_yml/from_yml round trips", "valid() vs Tree.build", "tree_dump (all links) vs Tree.build", "deploy/rm/start sequences vs version/event bookkeeping"]}
    ctx.cov["rule"] = ("workflows of the full grammar (all optional fields, unicode, nested catches/timeouts, backward and dangling next, on events, occasional duplicate or empty ids); "
                       "non-trivial = valid model with >=6 nodes whose whole tree was compared, or a deploy sequence; distinct by model")
    ctx.cov["clauses_proved"] = ["every declared element exactly once in declaration order (all models)", "build succeeds iff no declared id repeats",
                                 "catch/timeout lists registered under their own key", "ver = number of deploys", "rm removes exactly the model's events"]
    ctx.cov["clauses_not_proved"] = ["serde JSON/YAML round trip (checked on the implementation per model)", "parent via prev-walk equals the declared parent (differential on every node)"]


def replay(ctx, data):
    ctx.build([])
    m = data["replay"].get("model")
    if m:
        e = ctx.harness("model", [{"model": m}])[0]
        d = ctx.driver([{"cmd": "c20.tree", "model": m}])[0]
        print(json.dumps(e.get("dump"))[:2000])
        print(json.dumps(d)[:2000])
    return 0
