import Lean.Data.Json
import ActsModel.Driver.Util
import ActsModel.Model.Chan
open Lean

namespace Acts.Driver
open Acts.Glob

/-- parse a class body after `[` ; returns (token, rest) -/
partial def parseClass (cs : List Char) : Option (FTok × List Char) :=
  let (neg, cs) := match cs with
    | '!' :: r => (true, r)
    | '^' :: r => (true, r)
    | r => (false, r)
  let rec go (cs : List Char) (acc : List (Char × Char)) (first : Bool) : Option (FTok × List Char) :=
    match cs with
    | [] => none
    | ']' :: r => if first then go r (acc ++ [(']', ']')]) false else some (.cls neg acc, r)
    | a :: '-' :: b :: r =>
      if b == ']' then go ('-' :: b :: r) (acc ++ [(a, a)]) false
      else if a ≤ b then go r (acc ++ [(a, b)]) false else none
    | a :: r => go r (acc ++ [(a, a)]) false
  go cs [] true

/-- flat tokens up to one of the stop characters (used inside and outside braces) -/
partial def parseFlat (cs : List Char) (inAlt : Bool) (acc : List FTok) : Option (List FTok × List Char) :=
  match cs with
  | [] => some (acc, [])
  | '\\' :: c :: r => parseFlat r inAlt (acc ++ [.lit c])
  | ['\\'] => none
  | '*' :: r => parseFlat r inAlt (acc ++ [.star])
  | '?' :: r => parseFlat r inAlt (acc ++ [.any])
  | '[' :: r => match parseClass r with
    | some (t, r') => parseFlat r' inAlt (acc ++ [t])
    | none => none
  | '{' :: _ => if inAlt then none else some (acc, cs)
  | '}' :: _ => if inAlt then some (acc, cs) else none
  | ',' :: r => if inAlt then some (acc, cs) else parseFlat r inAlt (acc ++ [.lit ','])
  | c :: r => parseFlat r inAlt (acc ++ [.lit c])

partial def parseAlts (cs : List Char) (acc : List (List FTok)) : Option (List (List FTok) × List Char) :=
  match parseFlat cs true [] with
  | none => none
  | some (a, r) => match r with
    | ',' :: r' => parseAlts r' (acc ++ [a])
    | '}' :: r' => some (acc ++ [a], r')
    | _ => none

partial def parseGlob (cs : List Char) (acc : List Tok) : Option (List Tok) :=
  match parseFlat cs false [] with
  | none => none
  | some (fl, r) =>
    let acc := acc ++ fl.map .flat
    match r with
    | [] => some acc
    | '{' :: r' => match parseAlts r' [] with
      | some (alts, r'') => parseGlob r'' (acc ++ [.alt alts])
      | none => none
    | _ => none

def globCase (req : Lean.Json) : Lean.Json :=
  match parseGlob (jstr req "pat").toList [] with
  | none => Lean.Json.mkObj [("valid", Lean.Json.bool false), ("match", Lean.Json.bool false)]
  | some p => Lean.Json.mkObj [("valid", Lean.Json.bool true), ("match", Lean.Json.bool (matchToks p (jstr req "s").toList))]

/-- opts: five pattern strings; msgs: list of field objects → which messages the channel selects -/
def chanCase (req : Lean.Json) : Lean.Json :=
  let o := jget req "opts"
  let names := ["type", "state", "tag", "key", "uses"]
  let pats := names.map fun n => (n, parseGlob (jstr o n).toList [])
  if pats.any (·.2.isNone) then Lean.Json.mkObj [("valid", Lean.Json.bool false)] else
  let p : Acts.Chan.Pats := pats.map fun (n, t) => (n, t.getD [])
  let sel := (jarr req "msgs").toList.map fun m =>
    let f : Acts.Chan.MsgFields := ["type", "state", "tag", "model.tag", "key", "uses"].map fun n => (n, (jstr m n).toList)
    Lean.Json.bool (Acts.Chan.isMatch p f)
  Lean.Json.mkObj [("valid", Lean.Json.bool true), ("select", Lean.Json.arr sel.toArray)]

end Acts.Driver
