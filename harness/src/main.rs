//! acts-verif: executes scenarios on the real engine (in-process) and prints canonical observations.
//!
//! usage: acts-verif run <scenarios.jsonl> <out.jsonl> [scratch-dir]
//!        acts-verif glob <pairs.jsonl> <out.jsonl>
//!        acts-verif regex <cases.jsonl> <out.jsonl>
mod canon;
mod engine;
mod misc;
mod storeops;

use serde_json::{Value, json};
use std::io::{BufRead, BufWriter, Write};

fn main() {
    let args: Vec<String> = std::env::args().collect();
    if args.len() < 4 {
        eprintln!("usage: acts-verif <run|glob|regex|model> <in.jsonl> <out.jsonl> [scratch]");
        std::process::exit(2);
    }
    let cmd = args[1].as_str();
    let input = std::fs::File::open(&args[2]).expect("open input");
    let out = std::fs::File::create(&args[3]).expect("create output");
    let mut out = BufWriter::new(out);
    let scratch = args
        .get(4)
        .cloned()
        .unwrap_or_else(|| "/verif/.cache/scratch".to_string());
    std::fs::create_dir_all(&scratch).ok();

    // silence the engine's eprintln noise unless asked
    let quiet = std::env::var("VERIF_VERBOSE").is_err();
    if quiet {
        misc::silence_stderr();
    }
    std::panic::set_hook(Box::new(|_| {}));

    for (lineno, line) in std::io::BufReader::new(input).lines().enumerate() {
        let line = line.expect("read line");
        if line.trim().is_empty() {
            continue;
        }
        let sc: Value = match serde_json::from_str(&line) {
            Ok(v) => v,
            Err(e) => {
                writeln!(out, "{}", json!({"line": lineno, "bad_input": e.to_string()})).unwrap();
                continue;
            }
        };
        let res = match cmd {
            "run" => {
                let sc2 = sc.clone();
                let scratch2 = scratch.clone();
                let r = std::panic::catch_unwind(move || engine::run_scenario(&sc2, &scratch2));
                match r {
                    Ok(v) => v,
                    Err(p) => {
                        let msg = if let Some(s) = p.downcast_ref::<String>() {
                            s.clone()
                        } else if let Some(s) = p.downcast_ref::<&str>() {
                            s.to_string()
                        } else {
                            "panic".to_string()
                        };
                        json!({"id": sc.get("id").cloned().unwrap_or(Value::Null), "panic": msg, "steps": []})
                    }
                }
            }
            "glob" | "regex" | "model" | "timeout" => {
                let sc2 = sc.clone();
                let cmd2 = cmd.to_string();
                std::panic::catch_unwind(move || match cmd2.as_str() {
                    "glob" => misc::glob_case(&sc2),
                    "regex" => misc::regex_case(&sc2),
                    "model" => misc::model_case(&sc2),
                    _ => misc::timeout_case(&sc2),
                })
                .unwrap_or_else(|p| {
                    let msg = if let Some(s) = p.downcast_ref::<String>() {
                        s.clone()
                    } else if let Some(s) = p.downcast_ref::<&str>() {
                        s.to_string()
                    } else {
                        "panic".to_string()
                    };
                    json!({"panic": msg})
                })
            }
            _ => {
                eprintln!("unknown command {cmd}");
                std::process::exit(2);
            }
        };
        writeln!(out, "{}", serde_json::to_string(&res).unwrap()).unwrap();
    }
    out.flush().unwrap();
}
