import ActsModel.Model.MsgStore

/-!
# C09 — Acknowledged delivery: at-least-once, bounded retries, silent after ack
All theorems quantify over every store content, every operation (sequence), every clock value and
every configuration `(max, interval, limit)`.
-/
namespace Acts.C09
open Acts.Gen Acts.Msg

/-- K1: the constants the model takes from the source are the ones the property speaks about -/
theorem source_constants : retryStrict = true ∧ staleStrict = true ∧ actedStatus = .completed ∧
    tickSelectsStatus = "created" ∧ storeBeforeHandler = true ∧ noMsgUpdateAction = .push := by decide

theorem stale_created (c : Cfg) (now : Int) (r : Rec) (h : stale c now r = true) : r.status = .created := by
  unfold stale at h; simp at h; exact h.1

theorem stale_iff (c : Cfg) (now : Int) (r : Rec) :
    stale c now r = true ↔ r.status = .created ∧ r.update < now - c.interval := by
  simp [stale, staleStrict]

theorem mayRetry_iff (c : Cfg) (r : Rec) : mayRetry c r = true ↔ r.retry < c.max := by
  simp [mayRetry, retryStrict]

-- ------------------------------------------------------------------ one tick

/-- (c) every redelivery of a tick carries the id and content of a stored, stale, un-acked record and a retry
count exactly one larger than the stored one, which was below the maximum -/
theorem tick_deliveries_shape (c : Cfg) (now : Int) (s : List Rec) :
    ∀ budget, ∀ d ∈ (tickGo c now budget s).2,
      ∃ r ∈ s, d.id = r.id ∧ d.content = r.content ∧ d.retry = r.retry + 1 ∧ stale c now r = true ∧ r.retry < c.max := by
  induction s with
  | nil => intro _ d hd; simp [tickGo] at hd
  | cons r rs ih =>
    intro budget d hd
    unfold tickGo at hd
    split at hd
    · rename_i hsel
      simp only [Bool.and_eq_true, decide_eq_true_eq] at hsel
      simp only [List.mem_append] at hd
      rcases hd with hd | hd
      · unfold bump at hd
        split at hd
        · rename_i hm
          simp at hd; subst hd
          exact ⟨r, List.mem_cons_self .., rfl, rfl, rfl, hsel.1, (mayRetry_iff c r).mp hm⟩
        · simp at hd
      · obtain ⟨r', hr', h⟩ := ih (budget - 1) d hd
        exact ⟨r', List.mem_cons_of_mem _ hr', h⟩
    · obtain ⟨r', hr', h⟩ := ih budget d hd
      exact ⟨r', List.mem_cons_of_mem _ hr', h⟩

/-- the handler is only ever invoked for a message whose record is in the store, with the delivered retry count -/
theorem tick_delivered_is_stored (c : Cfg) (now : Int) (s : List Rec) :
    ∀ budget, ∀ d ∈ (tickGo c now budget s).2,
      ∃ r' ∈ (tickGo c now budget s).1, r'.id = d.id ∧ r'.content = d.content ∧ r'.retry = d.retry ∧ r'.status = .created := by
  induction s with
  | nil => intro _ d hd; simp [tickGo] at hd
  | cons r rs ih =>
    intro budget d hd
    unfold tickGo at hd ⊢
    split at hd
    · rename_i hsel
      simp only [hsel, ↓reduceIte]
      simp only [Bool.and_eq_true, decide_eq_true_eq] at hsel
      simp only [List.mem_append] at hd
      rcases hd with hd | hd
      · unfold bump at hd ⊢
        split at hd
        · rename_i hm
          simp at hd; subst hd
          simp only [hm, ↓reduceIte]
          exact ⟨_, List.mem_cons_self .., rfl, rfl, rfl, stale_created c now r hsel.1⟩
        · simp at hd
      · obtain ⟨r', hr', h⟩ := ih (budget - 1) d hd
        exact ⟨r', List.mem_cons_of_mem _ hr', h⟩
    · rename_i hsel
      simp only [hsel, Bool.false_eq_true, ↓reduceIte]
      obtain ⟨r', hr', h⟩ := ih budget d hd
      exact ⟨r', List.mem_cons_of_mem _ hr', h⟩

/-- (d) at-least-once: a stale, un-acked record below the retry limit is redelivered by the tick
(as long as the tick's query limit is not exhausted by earlier stale records) -/
theorem tick_at_least_once (c : Cfg) (now : Int) (s : List Rec) :
    ∀ budget, (s.filter (stale c now)).length ≤ budget → ∀ r ∈ s, stale c now r = true → r.retry < c.max →
      (⟨r.id, r.content, r.retry + 1⟩ : Dlv) ∈ (tickGo c now budget s).2 := by
  induction s with
  | nil => intro _ _ r hr; cases hr
  | cons x xs ih =>
    intro budget hb r hr hst hlt
    unfold tickGo
    by_cases hx : stale c now x = true
    · have hlen : (xs.filter (stale c now)).length + 1 ≤ budget := by simpa [List.filter_cons, hx] using hb
      have hpos : 0 < budget := by omega
      simp only [hx, hpos, decide_true, Bool.and_self, ↓reduceIte, List.mem_append]
      rcases List.mem_cons.mp hr with rfl | hr'
      · left; unfold bump; simp [(mayRetry_iff c r).mpr hlt]
      · right; exact ih (budget - 1) (by omega) r hr' hst hlt
    · have hx' : stale c now x = false := by simpa using hx
      simp only [hx', Bool.false_and, Bool.false_eq_true, ↓reduceIte]
      rcases List.mem_cons.mp hr with rfl | hr'
      · rw [hst] at hx'; cases hx'
      · exact ih budget (by simpa [List.filter_cons, hx'] using hb) r hr' hst hlt

/-- (e) at the retry limit the stale record is marked `error` (and, by `tick_deliveries_shape`, not delivered) -/
theorem tick_marks_error (c : Cfg) (now : Int) (s : List Rec) :
    ∀ budget, (s.filter (stale c now)).length ≤ budget → ∀ r ∈ s, stale c now r = true → ¬ r.retry < c.max →
      { r with status := .error, update := now } ∈ (tickGo c now budget s).1 := by
  induction s with
  | nil => intro _ _ r hr; cases hr
  | cons x xs ih =>
    intro budget hb r hr hst hlt
    unfold tickGo
    by_cases hx : stale c now x = true
    · have hlen : (xs.filter (stale c now)).length + 1 ≤ budget := by simpa [List.filter_cons, hx] using hb
      have hpos : 0 < budget := by omega
      simp only [hx, hpos, decide_true, Bool.and_self, ↓reduceIte]
      rcases List.mem_cons.mp hr with rfl | hr'
      · have : mayRetry c r = false := by
          rw [Bool.eq_false_iff]; intro h; exact hlt ((mayRetry_iff c r).mp h)
        unfold bump; simp [this]
      · exact List.mem_cons_of_mem _ (ih (budget - 1) (by omega) r hr' hst hlt)
    · have hx' : stale c now x = false := by simpa using hx
      simp only [hx', Bool.false_and, Bool.false_eq_true, ↓reduceIte]
      rcases List.mem_cons.mp hr with rfl | hr'
      · rw [hst] at hx'; cases hx'
      · exact List.mem_cons_of_mem _ (ih budget (by simpa [List.filter_cons, hx'] using hb) r hr' hst hlt)

/-- a tick touches only stale records: everything else is still in the store, unchanged -/
theorem tick_frame (c : Cfg) (now : Int) (s : List Rec) :
    ∀ budget, ∀ r ∈ s, stale c now r = false → r ∈ (tickGo c now budget s).1 := by
  induction s with
  | nil => intro _ r hr; cases hr
  | cons x xs ih =>
    intro budget r hr hns
    unfold tickGo
    split
    · rename_i hsel
      rcases List.mem_cons.mp hr with rfl | hr'
      · simp [hns] at hsel
      · exact List.mem_cons_of_mem _ (ih _ r hr' hns)
    · rcases List.mem_cons.mp hr with rfl | hr'
      · exact List.mem_cons_self ..
      · exact List.mem_cons_of_mem _ (ih _ r hr' hns)

/-- every record after a tick is an old record, possibly bumped -/
theorem tick_records (c : Cfg) (now : Int) (s : List Rec) :
    ∀ budget, ∀ r' ∈ (tickGo c now budget s).1, r' ∈ s ∨ ∃ r ∈ s, stale c now r = true ∧ r' = (bump c now r).1 := by
  induction s with
  | nil => intro _ r' h; simp [tickGo] at h
  | cons x xs ih =>
    intro budget r' h
    unfold tickGo at h
    split at h
    · rename_i hsel
      simp only [Bool.and_eq_true] at hsel
      rcases List.mem_cons.mp h with rfl | h'
      · exact Or.inr ⟨x, List.mem_cons_self .., hsel.1, rfl⟩
      · rcases ih _ r' h' with h1 | ⟨r, hr, h2⟩
        · exact Or.inl (List.mem_cons_of_mem _ h1)
        · exact Or.inr ⟨r, List.mem_cons_of_mem _ hr, h2⟩
    · rcases List.mem_cons.mp h with rfl | h'
      · exact Or.inl (List.mem_cons_self ..)
      · rcases ih _ r' h' with h1 | ⟨r, hr, h2⟩
        · exact Or.inl (List.mem_cons_of_mem _ h1)
        · exact Or.inr ⟨r, List.mem_cons_of_mem _ hr, h2⟩

theorem bump_id (c : Cfg) (now : Int) (r : Rec) : (bump c now r).1.id = r.id ∧ (bump c now r).1.content = r.content := by
  unfold bump; split <;> simp

-- ------------------------------------------------------------------ invariants over every operation sequence

/-- (b) the retry count never exceeds the configured maximum -/
def RetryBounded (c : Cfg) (s : List Rec) : Prop := ∀ r ∈ s, r.retry ≤ c.max

theorem step_retry_bounded (c : Cfg) (s : List Rec) (op : Op) (h : RetryBounded c s) :
    RetryBounded c (step c s op).1 := by
  intro r' hr'
  cases op with
  | deliver id pid tid content now =>
    simp only [step, List.mem_append, List.mem_singleton] at hr'
    rcases hr' with h1 | rfl
    · exact h _ h1
    · exact Nat.zero_le _
  | tick now =>
    rcases tick_records c now s c.limit r' hr' with h1 | ⟨r, hr, _, rfl⟩
    · exact h _ h1
    · unfold bump
      by_cases hm : mayRetry c r = true
      · have := (mayRetry_iff c r).mp hm; simp only [hm, ↓reduceIte]; show r.retry + 1 ≤ c.max; omega
      · simp only [hm, Bool.false_eq_true, ↓reduceIte]; exact h _ hr
  | ack id now =>
    simp only [step, List.mem_map] at hr'
    obtain ⟨r, hr, rfl⟩ := hr'
    by_cases hc : (r.id == id) = true <;> simp only [hc, ↓reduceIte, Bool.false_eq_true] <;> exact h _ hr
  | acted pid tid now =>
    simp only [step, List.mem_map] at hr'
    obtain ⟨r, hr, rfl⟩ := hr'
    by_cases hc : (r.pid == pid && r.tid == tid) = true <;> simp only [hc, ↓reduceIte, Bool.false_eq_true] <;> exact h _ hr
  | redo now =>
    simp only [step, List.mem_map] at hr'
    obtain ⟨r, hr, rfl⟩ := hr'
    by_cases hc : (r.status == MessageStatus.error) = true
    · simp only [hc, ↓reduceIte]; exact Nat.zero_le _
    · simp only [hc, Bool.false_eq_true, ↓reduceIte]; exact h _ hr
  | clear pid => simp only [step] at hr'; exact h _ (List.mem_filter.mp hr').1
  | rm id => simp only [step] at hr'; exact h _ (List.mem_filter.mp hr').1

theorem run_retry_bounded (c : Cfg) (ops : List Op) : ∀ s, RetryBounded c s → RetryBounded c (run c s ops).1 := by
  induction ops with
  | nil => intro s h; exact h
  | cons op ops ih => intro s h; exact ih _ (step_retry_bounded c s op h)

/-- and every delivered retry count is at most the maximum -/
theorem step_delivery_bounded (c : Cfg) (s : List Rec) (op : Op) : ∀ d ∈ (step c s op).2, d.retry ≤ c.max := by
  intro d hd
  cases op with
  | deliver id pid tid content now => simp [step] at hd; subst hd; exact Nat.zero_le _
  | tick now =>
    obtain ⟨r, _, _, _, h3, _, h5⟩ := tick_deliveries_shape c now s c.limit d hd
    omega
  | ack id now => simp [step] at hd
  | acted pid tid now => simp [step] at hd
  | redo now => simp [step] at hd
  | clear pid => simp [step] at hd
  | rm id => simp [step] at hd

/-- (a) every handler invocation is for a message that is in the store at that moment (stored before delivered) -/
theorem step_delivered_is_stored (c : Cfg) (s : List Rec) (op : Op) :
    ∀ d ∈ (step c s op).2, ∃ r ∈ (step c s op).1, r.id = d.id ∧ r.content = d.content ∧ r.retry = d.retry := by
  intro d hd
  cases op with
  | deliver id pid tid content now =>
    simp [step] at hd ⊢; subst hd; exact Or.inr ⟨rfl, rfl, rfl⟩
  | tick now =>
    obtain ⟨r', hr', h1, h2, h3, _⟩ := tick_delivered_is_stored c now s c.limit d hd
    exact ⟨r', hr', h1, h2, h3⟩
  | ack id now => simp [step] at hd
  | acted pid tid now => simp [step] at hd
  | redo now => simp [step] at hd
  | clear pid => simp [step] at hd
  | rm id => simp [step] at hd

/-- a message is closed once acknowledged or once its task has been acted on -/
def closed (r : Rec) : Prop := r.status = .acked ∨ r.status = .completed

/-- every record of this id (if any is left) is closed -/
def ClosedId (s : List Rec) (id : String) : Prop := ∀ r ∈ s, r.id = id → closed r

def _root_.Acts.Msg.Op.delivers (id : String) : Op → Prop
  | .deliver id' _ _ _ _ => id' = id
  | _ => False

/-- (f) one step: a closed message stays closed and is not handed to any handler, whatever the operation
(first deliveries of *other*, fresh ids included) -/
theorem step_closed_silent (c : Cfg) (s : List Rec) (op : Op) (id : String) (h : ClosedId s id)
    (hfresh : ¬ op.delivers id) : ClosedId (step c s op).1 id ∧ ∀ d ∈ (step c s op).2, d.id ≠ id := by
  cases op with
  | deliver id' pid tid content now =>
    have hne : id' ≠ id := hfresh
    constructor
    · intro r hr hid
      simp only [step, List.mem_append, List.mem_singleton] at hr
      rcases hr with h1 | rfl
      · exact h r h1 hid
      · exact absurd hid hne
    · intro d hd; simp [step] at hd; subst hd; exact hne
  | tick now =>
    constructor
    · intro r' hr' hid
      rcases tick_records c now s c.limit r' hr' with h1 | ⟨r, hr, hst, rfl⟩
      · exact h r' h1 hid
      · have hc := h r hr ((bump_id c now r).1 ▸ hid)
        have := stale_created c now r hst
        rcases hc with hc | hc <;> rw [this] at hc <;> cases hc
    · intro d hd hid
      obtain ⟨r, hr, h1, _, _, hst, _⟩ := tick_deliveries_shape c now s c.limit d hd
      have hc := h r hr (h1 ▸ hid)
      have := stale_created c now r hst
      rcases hc with hc | hc <;> rw [this] at hc <;> cases hc
  | ack id' now =>
    refine ⟨?_, by intro d hd; simp [step] at hd⟩
    intro r' hr' hid
    simp only [step, List.mem_map] at hr'
    obtain ⟨r, hr, rfl⟩ := hr'
    by_cases hc : (r.id == id') = true
    · simp only [hc, ↓reduceIte]; exact Or.inl rfl
    · simp only [hc, Bool.false_eq_true, ↓reduceIte] at hid ⊢; exact h r hr hid
  | acted pid tid now =>
    refine ⟨?_, by intro d hd; simp [step] at hd⟩
    intro r' hr' hid
    simp only [step, List.mem_map] at hr'
    obtain ⟨r, hr, rfl⟩ := hr'
    by_cases hc : (r.pid == pid && r.tid == tid) = true
    · simp only [hc, ↓reduceIte]; exact Or.inr (by simp [actedStatus])
    · simp only [hc, Bool.false_eq_true, ↓reduceIte] at hid ⊢; exact h r hr hid
  | redo now =>
    refine ⟨?_, by intro d hd; simp [step] at hd⟩
    intro r' hr' hid
    simp only [step, List.mem_map] at hr'
    obtain ⟨r, hr, rfl⟩ := hr'
    by_cases hc : (r.status == MessageStatus.error) = true
    · simp only [hc, ↓reduceIte] at hid
      have hcl := h r hr hid
      have he' : r.status = .error := by simpa using hc
      rcases hcl with hcl | hcl <;> rw [he'] at hcl <;> cases hcl
    · simp only [hc, Bool.false_eq_true, ↓reduceIte] at hid ⊢; exact h r hr hid
  | clear pid =>
    refine ⟨?_, by intro d hd; simp [step] at hd⟩
    intro r hr hid; simp only [step] at hr; exact h r (List.mem_filter.mp hr).1 hid
  | rm id' =>
    refine ⟨?_, by intro d hd; simp [step] at hd⟩
    intro r hr hid; simp only [step] at hr; exact h r (List.mem_filter.mp hr).1 hid

/-- (f) for every history: once acknowledged or acted on, a message is never delivered again and never leaves
the closed statuses, as long as its id is not reused for a new message -/
theorem run_closed_silent (c : Cfg) (id : String) (ops : List Op) :
    ∀ s, ClosedId s id → (∀ op ∈ ops, ¬ op.delivers id) →
      ClosedId (run c s ops).1 id ∧ ∀ d ∈ (run c s ops).2, d.id ≠ id := by
  induction ops with
  | nil => intro s h _; exact ⟨h, by intro d hd; simp [run] at hd⟩
  | cons op ops ih =>
    intro s h hf
    have h1 := step_closed_silent c s op id h (hf op (List.mem_cons_self ..))
    have h2 := ih (step c s op).1 h1.1 (fun o ho => hf o (List.mem_cons_of_mem _ ho))
    refine ⟨h2.1, ?_⟩
    intro d hd
    simp only [run, List.mem_append] at hd
    rcases hd with hd | hd
    · exact h1.2 d hd
    · exact h2.2 d hd

/-- ack closes: after `ack id` every record of that id is closed (so `run_closed_silent` applies from then on) -/
theorem ack_closes (c : Cfg) (s : List Rec) (id : String) (now : Int) : ClosedId (step c s (.ack id now)).1 id := by
  intro r' hr' hid
  simp only [step, List.mem_map] at hr'
  obtain ⟨r, hr, rfl⟩ := hr'
  by_cases hc : (r.id == id) = true
  · simp only [hc, ↓reduceIte]; exact Or.inl rfl
  · simp only [hc, Bool.false_eq_true, ↓reduceIte] at hid; simp at hc; exact absurd hid hc

/-- an accepted action on the task closes every stored message of that task -/
theorem acted_closes (c : Cfg) (s : List Rec) (pid tid : String) (now : Int) :
    ∀ r ∈ (step c s (.acted pid tid now)).1, r.pid = pid → r.tid = tid → closed r := by
  intro r' hr' hp ht
  simp only [step, List.mem_map] at hr'
  obtain ⟨r, hr, rfl⟩ := hr'
  by_cases hc : (r.pid == pid && r.tid == tid) = true
  · simp only [hc, ↓reduceIte]; exact Or.inr (by simp [actedStatus])
  · simp only [hc, Bool.false_eq_true, ↓reduceIte] at hp ht; simp at hc; exact absurd ht (hc hp)

/-- (e) an `error` record is untouched by a tick, and a tick only ever delivers for records that are `created` -/
theorem error_silent_tick (c : Cfg) (now : Int) (s : List Rec) (r : Rec) (hr : r ∈ s) (he : r.status = .error) :
    r ∈ (step c s (.tick now)).1 ∧
      ∀ d ∈ (step c s (.tick now)).2, ∃ r1 ∈ s, r1.id = d.id ∧ r1.status = .created := by
  have hns : stale c now r = false := by
    rw [Bool.eq_false_iff]; intro h; have := stale_created c now r h; rw [he] at this; cases this
  refine ⟨tick_frame c now s c.limit r hr hns, ?_⟩
  intro d hd
  obtain ⟨r1, hr1, h1, _, _, hst, _⟩ := tick_deliveries_shape c now s c.limit d hd
  exact ⟨r1, hr1, h1.symm, stale_created c now r1 hst⟩

/-- `redo` resets every error record to created with retry 0 -/
theorem redo_resets (c : Cfg) (s : List Rec) (now : Int) (r : Rec) (hr : r ∈ s) (he : r.status = .error) :
    { r with status := .created, retry := 0, update := now } ∈ (step c s (.redo now)).1 := by
  simp only [step, List.mem_map]
  exact ⟨r, hr, by simp [he]⟩

/-- non-vacuity: a run in which a message is delivered, redelivered twice, hits the limit, is marked error,
redone and finally acknowledged -/
def exCfg : Cfg := ⟨2, 100, 300⟩
def exOps : List Op := [.deliver "m" "p" "t" 7 1000, .tick 1200, .tick 1400, .tick 1600, .tick 1800, .redo 1900,
  .tick 2100, .ack "m" 2200, .tick 5000]
example : (run exCfg [] exOps).2 = [⟨"m", 7, 0⟩, ⟨"m", 7, 1⟩, ⟨"m", 7, 2⟩, ⟨"m", 7, 1⟩] := by decide
example : ((run exCfg [] exOps).1.map (·.status)) = [.acked] := by decide

end Acts.C09
