import Lean.Data.Json
import ActsModel.Gen.State
open Lean

partial def loop (h : IO.FS.Stream) : IO Unit := do
  let line ← h.getLine
  if line.isEmpty then return ()
  match Json.parse line with
  | .ok j => IO.println (j.compress)
  | .error e => IO.println s!"err {e}"
  loop h

def main : IO Unit := do loop (← IO.getStdin)
