import ActsModel.Gen.Misc

/-!
Timeout rules: `model/act/timeout.rs` (duration parsing), `scheduler/process/task/hook.rs`
(`StatementBatch::Timeout`), `Process::do_tick`. One timed task instance as a state machine.
-/
namespace Acts.Tmo
open Acts.Gen

def digitVal (c : Char) : Option Nat := if '0' ≤ c ∧ c ≤ '9' then some (c.toNat - '0'.toNat) else none

def parseDigits : List Char → Option Nat
  | [] => none
  | cs => cs.foldl (fun acc c => match acc, digitVal c with
      | some n, some d => some (n * 10 + d)
      | _, _ => none) (some 0)

/-- `i64::from_str`: optional sign, at least one digit, range checked -/
def parseI64 (cs : List Char) : Option Int :=
  let v : Option Int := match cs with
    | '-' :: r => (parseDigits r).map fun n => -(n : Int)
    | '+' :: r => (parseDigits r).map fun n => (n : Int)
    | r => (parseDigits r).map fun n => (n : Int)
  match v with
  | some z => if -9223372036854775808 ≤ z ∧ z ≤ 9223372036854775807 then some z else none
  | none => none

/-- `TimeoutLimit::parse`: `^(.*)(s|m|h|d)$` then `i64::from_str` of group 1 -/
def parseLimit (cs : List Char) : Option (Int × TimeoutUnit) :=
  match cs.reverse with
  | [] => none
  | u :: rest =>
    match TimeoutUnit.ofChar u, parseI64 rest.reverse with
    | some unit, some v => some (v, unit)
    | _, _ => none

def asSecs (l : Int × TimeoutUnit) : Int := l.1 * l.2.secs

/-- a rule of a task: the text of `on` (the once-flag and the steps are keyed by it) and its limit in seconds -/
structure Rule where
  on : String
  secs : Int
  deriving Repr, DecidableEq

/-- one timed task instance -/
structure Timed where
  start : Int                -- start_time (ms), set when the task is created
  isOpen : Bool              -- not yet terminal
  fired : List String        -- `$is_timeout_<on>` flags
  deriving Repr

inductive Ev where
  | tick (now : Int)
  | close                     -- the task reaches a terminal state
  deriving Repr

/-- does the rule pass the elapsed-time test at `now`? (`millis >= secs * 1000`) -/
def due (t : Timed) (now : Int) (r : Rule) : Bool :=
  if timeoutFiresAtEqual then decide (now - t.start ≥ r.secs * timeoutMillisPerSec)
  else decide (now - t.start > r.secs * timeoutMillisPerSec)

/-- one tick over the rules in declaration order; returns the rule keys fired -/
def tickRules (now : Int) : Timed → List Rule → Timed × List String
  | t, [] => (t, [])
  | t, r :: rs =>
    if t.fired.contains r.on then tickRules now t rs
    else if due t now r then
      let (t', fs) := tickRules now { t with fired := r.on :: t.fired } rs
      (t', r.on :: fs)
    else tickRules now t rs

/-- `do_tick` visits only open tasks -/
def step (rules : List Rule) (t : Timed) : Ev → Timed × List String
  | .tick now => if t.isOpen || !tickVisitsOnlyOpen then tickRules now t rules else (t, [])
  | .close => ({ t with isOpen := false }, [])

/-- run an event sequence; the output pairs every firing with the clock of its tick -/
def run (rules : List Rule) : Timed → List Ev → Timed × List (String × Int)
  | t, [] => (t, [])
  | t, e :: es =>
    let (t1, f1) := step rules t e
    let now := match e with | .tick n => n | .close => 0
    let (t2, f2) := run rules t1 es
    (t2, f1.map (·, now) ++ f2)

end Acts.Tmo

namespace Acts.Tmo

/-- what was observed for one event on the implementation: the event and the rule keys whose steps were started -/
abbrev ObsEv := Ev × List String

/-- state of the property monitor: is the task still open, which keys have fired -/
structure Mon where
  isOpen : Bool
  fired : List String

def hasDup : List String → Bool
  | [] => false
  | k :: ks => ks.contains k || hasDup ks

/-- first violated clause (with the position) of C19 on an observed history; `none` = the history satisfies the property -/
def monitor (rules : List Rule) (start : Int) : Mon → Nat → List ObsEv → Option (Nat × String)
  | _, _, [] => none
  | m, i, (.close, fs) :: rest =>
    if !fs.isEmpty then some (i, "fires-at-close") else monitor rules start { m with isOpen := false } (i + 1) rest
  | m, i, (.tick now, fs) :: rest =>
    if !m.isOpen && !fs.isEmpty then some (i, "fires-after-terminal")
    else if fs.any (fun k => m.fired.contains k) then some (i, "fires-twice")
    else if hasDup fs then some (i, "fires-twice")
    else if fs.any (fun k => !(rules.any fun r => r.on == k && decide (now - start ≥ r.secs * 1000))) then some (i, "fires-early")
    else if m.isOpen && rules.any (fun r => !m.fired.contains r.on && decide (now - start ≥ r.secs * 1000) && !fs.contains r.on)
      then some (i, "does-not-fire-within-one-tick")
    else monitor rules start { m with fired := fs ++ m.fired } (i + 1) rest

/-- the observation stream of a model run -/
def obsOfRun (rules : List Rule) : Timed → List Ev → List ObsEv
  | _, [] => []
  | t, e :: es => (e, (step rules t e).2) :: obsOfRun rules (step rules t e).1 es

end Acts.Tmo
