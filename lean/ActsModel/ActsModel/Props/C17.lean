import ActsModel.Model.Retention
import ActsModel.Gen.Misc
import ActsModel.Model.Admit
import ActsModel.Props.C20

/-!
# C17 — Retention: finished processes leave exactly what the configuration says
-/
namespace Acts.C17
open Acts.Gen Acts.Ret

/-- **removal is exact**: after `removeProc p` no task row and no process row of `p` is left, every row of another process
is still there, and no message record is touched -/
theorem remove_exact (s : St) (p : String) :
    (∀ t ∈ (removeProc s p).tasks, t.pid ≠ p ∧ t ∈ s.tasks) ∧ (∀ t ∈ s.tasks, t.pid ≠ p → t ∈ (removeProc s p).tasks) ∧
    (p ∉ (removeProc s p).procs) ∧ (∀ q ∈ s.procs, q ≠ p → q ∈ (removeProc s p).procs) ∧
    (removeProc s p).messages = s.messages := by
  refine ⟨?_, ?_, ?_, ?_, rfl⟩
  · intro t h; simp only [removeProc, List.mem_filter, bne_iff_ne, ne_eq] at h; exact ⟨h.2, h.1⟩
  · intro t h hne; simp only [removeProc, List.mem_filter, bne_iff_ne, ne_eq]; exact ⟨h, hne⟩
  · intro h; simp [removeProc] at h
  · intro q h hne; simp only [removeProc, List.mem_filter, bne_iff_ne, ne_eq]; exact ⟨h, hne⟩

/-- K1 + model: with the default configuration the terminal event removes the process, with `keep_processes` nothing is deleted -/
theorem retention_rule (s : St) (p : String) :
    onTerminal false s p = removeProc s p ∧ onTerminal true s p = s ∧ Acts.Gen.Config.default_keep_processes = false := by
  refine ⟨by simp [onTerminal, removeOnTerminal], by simp [onTerminal, removeOnTerminal], by decide⟩

/-- removing one process and then another commutes and never resurrects rows: the order in which interleaved processes end
does not matter for what is left -/
theorem remove_comm (s : St) (p q : String) : removeProc (removeProc s p) q = removeProc (removeProc s q) p := by
  simp only [removeProc, List.filter_filter, Bool.and_comm]

/-- **every further action on a removed process is refused** (admission: the process lookup comes first) -/
theorem after_remove_refused (a : EventAction) (t : Acts.Admit.Target) (h : t.procLive = false) :
    Acts.Admit.admission a t = some .noProcess := by
  simp [Acts.Admit.admission, h]

/-- deleting a model removes exactly its registered start events (from C20's deploy bookkeeping) -/
theorem rm_model_exact (s : Acts.Deploy.St) (id : String) :
    (∀ e ∈ (Acts.Deploy.rm s id).events, e.mid ≠ id ∧ e ∈ s.events) ∧ (∀ e ∈ s.events, e.mid ≠ id → e ∈ (Acts.Deploy.rm s id).events) :=
  ⟨(Acts.C20.rm_exact s id).1, (Acts.C20.rm_exact s id).2.1⟩

-- ------------------------------------------------------------------ histories

/-- what happens to the rows over the life of an engine: a process is started, one of its tasks is written, it ends -/
inductive Ev where
  | start (p : String)
  | task (p : String) (tid : String)
  | terminal (p : String)
  deriving Repr

/-- a start is refused for a pid that has a row (C13); a task row is written only for a process that has its row (`Runtime::push` of a
process that is gone writes nothing); the end of a process applies the retention rule -/
def step (keep : Bool) (s : St) : Ev → St
  | .start p => if s.procs.contains p then s else { s with procs := p :: s.procs }
  | .task p tid => if s.procs.contains p then { s with tasks := ⟨p ++ ":" ++ tid, p⟩ :: s.tasks } else s
  | .terminal p => onTerminal keep s p

def run (keep : Bool) (s : St) (es : List Ev) : St := es.foldl (step keep) s

/-- no task row without its process row -/
def NoOrphans (s : St) : Prop := ∀ t ∈ s.tasks, t.pid ∈ s.procs

theorem step_no_orphans (keep : Bool) (s : St) (e : Ev) (h : NoOrphans s) : NoOrphans (step keep s e) := by
  cases e with
  | start p =>
    simp only [step]
    split
    · exact h
    · intro t ht; exact List.mem_cons_of_mem _ (h t ht)
  | task p tid =>
    simp only [step]
    split
    · rename_i hp
      intro t ht
      simp only [List.mem_cons] at ht
      rcases ht with rfl | ht
      · simpa using hp
      · exact h t ht
    · exact h
  | terminal p =>
    simp only [step, onTerminal]
    split
    · intro t ht
      simp only [removeProc, List.mem_filter, bne_iff_ne, ne_eq] at ht ⊢
      exact ⟨h t ht.1, ht.2⟩
    · exact h

/-- **Retention over histories** (K3: every sequence of starts, task writes and endings, both settings): the store never holds a task row
whose process row is gone — whatever the order in which interleaved processes end -/
theorem run_no_orphans (keep : Bool) (s : St) (es : List Ev) (h : NoOrphans s) : NoOrphans (run keep s es) := by
  induction es generalizing s with
  | nil => exact h
  | cons e es ih => exact ih (step keep s e) (step_no_orphans keep s e h)

/-- with the default configuration a process that has ended and was not started again has no row left -/
theorem ended_leaves_nothing (s : St) (p : String) :
    p ∉ (step false s (.terminal p)).procs ∧ ∀ t ∈ (step false s (.terminal p)).tasks, t.pid ≠ p := by
  simp only [step]
  rw [(retention_rule s p).1]
  exact ⟨(remove_exact s p).2.2.1, fun t ht => ((remove_exact s p).1 t ht).1⟩

/-- with `keep_processes` no event ever deletes a row -/
theorem keep_is_monotone (s : St) (e : Ev) : (∀ q ∈ s.procs, q ∈ (step true s e).procs) ∧ (∀ t ∈ s.tasks, t ∈ (step true s e).tasks) := by
  cases e with
  | start p => simp only [step]; split <;> exact ⟨fun q hq => by simp [hq], fun t ht => ht⟩
  | task p tid => simp only [step]; split <;> exact ⟨fun q hq => hq, fun t ht => by simp [ht]⟩
  | terminal p => simp only [step]; rw [(retention_rule s p).2.1]; exact ⟨fun q hq => hq, fun t ht => ht⟩

example : (run false ⟨[], [], []⟩ [.start "p1", .task "p1" "$", .start "p2", .task "p2" "$", .terminal "p1", .task "p1" "late"]).tasks = [⟨"p2:$", "p2"⟩] := by decide

/-- the run-time monitor is the theorem's predicate: whenever `retentionCheck` accepts a store, the store has no orphan rows … -/
theorem check_implies_no_orphans (keep : Bool) (finished : List String) (s : St) (h : retentionCheck keep finished s = none) : NoOrphans s := by
  unfold retentionCheck at h
  split at h
  · cases h
  · rename_i hnone
    intro t ht
    have := List.find?_eq_none.1 hnone t ht
    simpa using this

/-- … and, with the default configuration, nothing of a finished process -/
theorem check_implies_nothing_left (finished : List String) (s : St) (h : retentionCheck false finished s = none) :
    ∀ p ∈ finished, p ∉ s.procs ∧ ∀ t ∈ s.tasks, t.pid ≠ p := by
  unfold retentionCheck at h
  split at h
  · cases h
  · simp only [removeOnTerminal, Bool.not_false, ↓reduceIte] at h
    split at h
    · cases h
    · rename_i hnone
      intro p hp
      have := List.find?_eq_none.1 hnone p hp
      simp only [Bool.or_eq_true, List.contains_eq_mem, decide_eq_true_eq, List.any_eq_true, beq_iff_eq, not_or, not_exists, not_and] at this
      exact ⟨this.1, fun t ht hc => this.2 t ht hc⟩

/-- non-vacuity -/
example : (removeProc ⟨["p1", "p2"], [⟨"p1:$", "p1"⟩, ⟨"p2:$", "p2"⟩, ⟨"p1:a", "p1"⟩], [("m1", "p1")]⟩ "p1").tasks = [⟨"p2:$", "p2"⟩] := by decide

/-- **kept rows are in terminal states** (every row set): when the check on the kept rows passes, every task row of every settled process
is in a terminal state -/
theorem check_implies_kept_rows_terminal (settled : List String) (rows : List (String × Bool)) (h : keptRowsCheck settled rows = none) :
    ∀ r ∈ rows, r.1 ∈ settled → r.2 = true := by
  intro r hr hs
  simp only [keptRowsCheck, Option.map_eq_none_iff] at h
  have := List.find?_eq_none.mp h r hr
  cases hb : r.2
  · simp [hb, hs] at this
  · rfl

/-- non-vacuity: an aborted, kept process one of whose acts was left waiting is found -/
example : keptRowsCheck ["p0"] [("p0", true), ("p0", false), ("p1", false)] = some "p0" ∧ keptRowsCheck ["p0"] [("p0", true), ("p1", false)] = none := by decide

end Acts.C17
