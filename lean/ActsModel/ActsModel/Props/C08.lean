import ActsModel.Spec.Stream
import ActsModel.Spec.Lifecycle
import ActsModel.Lemmas.Stream

/-!
# C08 — Message stream is a faithful, ordered image of task lifecycles
-/
namespace Acts.C08
open Acts.Gen Acts.Spec

/-- K1 (`on_task` predicate read from the source): a message is generated iff the task is neither pending nor running and its
emission is not disabled -/
theorem emit_table (s : TaskState) (disabled : Bool) :
    emitPred s disabled = true ↔ (s ≠ .pending ∧ s ≠ .running ∧ disabled = false) := by
  cases s <;> cases disabled <;> decide

/-- K1: the message is sent only when the hooks left the state as it was (a task moved on by its own catch has been
reported by the hook's own path; without this test an empty catch produced the completion message twice) -/
theorem unchanged_state_required : emitNeedsUnchangedState = true := by decide

/-- K1: what a message says about the state: `created` for the created class (and only for it among the emitting states),
the task's own terminal state otherwise -/
theorem message_state_table (s : TaskState) :
    (stage s = 1 → (msgStateOf s).toStr = "created") ∧
    (stage s = 3 → (msgStateOf s).toStr = s.toStr) ∧
    (stage s = 3 → terminalMsgStates.contains (msgStateOf s).toStr = true) ∧
    (stage s = 1 → terminalMsgStates.contains (msgStateOf s).toStr = false) := by
  cases s <;> decide

/-- K1: a task in the created class or in a terminal state passes the predicate when enabled — so every start and every
ending of a reporting task is announced (pending is the one created-class state that stays silent: only branches take it) -/
theorem announce_table (s : TaskState) (h : s ≠ .pending) : (stage s = 1 ∨ stage s = 3) → emitPred s false = true := by
  cases s <;> simp_all [stage, emitPred, TaskState.isPending, TaskState.isRunning]

/-- the monitor lets no second terminal message of a task pass -/
theorem monitor_rejects_second_terminal (st : SState) (i : Nat) (m : SMsg) (t : STask)
    (hfind : st.tasks.find? (·.tid == m.tid) = some t) (hd : genDescribes st t m = none) (hterm : terminalMsgStates.contains m.state = true)
    (hone : t.terminal ≥ 1) : (streamStep st i (.gen m)).2 = some (i, "second-terminal-message", m.tid) := by
  simp only [streamStep, hfind, hd, genOrdered, SMsg.isTerm, hterm, hone, ↓reduceIte, Option.map_some]

/-- the monitor lets no message with a reused id pass -/
theorem monitor_rejects_duplicate_id (st : SState) (i : Nat) (m : SMsg) (t : STask)
    (hfind : st.tasks.find? (·.tid == m.tid) = some t) (hid : st.mids.contains m.mid = true) :
    (streamStep st i (.gen m)).2 = some (i, "duplicate-message-id", m.tid) := by
  simp only [streamStep, hfind, genDescribes, hid, ↓reduceIte]

/-- **message ids are unique** (K3, every stream): the ids of the generated messages of a stream the monitor accepts are pairwise distinct -/
theorem accepted_ids_unique (pid : String) (evs : List SEv) (h : streamMonitor { pid := pid } 0 evs = none) : (genMids evs).Nodup :=
  (streamMonitor_mids evs { pid := pid } 0 h List.nodup_nil).1

/-- **at most one created and at most one terminal message per task, created first** (K3, every stream and every task): in a stream
the monitor accepts (tasks announced with empty counters, as the driver builds them) each task has at most one terminal message, at
most one created message, and no terminal message of the task precedes its created message -/
theorem accepted_once_per_task (pid : String) (evs : List SEv) (x : Nat) (h : streamMonitor { pid := pid } 0 evs = none)
    (hw : ∀ e ∈ evs, wfEv e) :
    (evs.filter (isTermGen x)).length ≤ 1 ∧ (evs.filter (isCreatedGen x)).length ≤ 1 ∧
    ∀ pre e post, evs = pre ++ e :: post → isCreatedGen x e = true → (pre.filter (isTermGen x)).length = 0 := by
  have h0 : seenTerm { pid := pid } x = 0 := by simp [seenTerm, recOf]
  have h1 : seenCreated { pid := pid } x = 0 := by simp [seenCreated, recOf]
  have hc := streamMonitor_counts evs x { pid := pid } 0 h hw (by omega) (by omega)
  rw [h0, h1] at hc
  refine ⟨by omega, by omega, ?_⟩
  intro pre e post heq hcr
  have := streamMonitor_created_before_terminal evs x { pid := pid } 0 h hw pre e post heq hcr
  rw [h0] at this
  omega

/-- **every message describes its task** (K3, every stream): a generated message of an accepted stream belongs to a task the stream has
announced, which is not a branch, and carries that task's pid, node id, type, uses and — through `msgStateOf` — the state the task has at
that point of the stream; a created message of a child comes after the created message of its reporting parent -/
theorem accepted_message_describes_task (pid : String) (pre post : List SEv) (m : SMsg)
    (h : streamMonitor { pid := pid } 0 (pre ++ .gen m :: post) = none) :
    ∃ t, recOf (streamRun { pid := pid } 0 pre) m.tid = some t ∧ t.kind ≠ "branch" ∧
      m.pid = pid ∧ m.nid = t.nid ∧ m.type = t.kind ∧ m.uses = t.uses ∧
      m.state = (msgStateOf t.state).toStr ∧
      (m.isTerm = false → ∀ p, sParent (streamRun { pid := pid } 0 pre).tasks t = some p → reports p = true → isMsgAct p = false → p.created ≥ 1) := by
  obtain ⟨_, h2⟩ := streamMonitor_append pre { pid := pid } 0 _ h
  obtain ⟨h3, _⟩ := streamMonitor_none_cons _ _ _ _ h2
  obtain ⟨t, gp⟩ := streamStep_gen_pass _ _ m h3
  exact ⟨t, gp.found, gp.notBranch, by rw [gp.pid, streamRun_pid], gp.nid, gp.type, gp.uses, gp.state, gp.parentFirst⟩

/-- **nothing is missing at the end of a run** (K3, every stream): where an accepted stream marks the end of a run, every reporting task
(workflow, step, interrupt act, message act) that got past its initialisation has had its created message (message acts have none), and
every one that has ended has had its terminal message -/
theorem accepted_nothing_missing (pid : String) (pre post : List SEv) (h : streamMonitor { pid := pid } 0 (pre ++ .done :: post) = none) :
    ∀ t ∈ (streamRun { pid := pid } 0 pre).tasks, reports t = true →
      (isMsgAct t = false → t.everCreated = true → t.created ≥ 1) ∧ (t.state.isCompleted = true → t.terminal ≥ 1) := by
  obtain ⟨_, h2⟩ := streamMonitor_append pre { pid := pid } 0 _ h
  obtain ⟨h3, _⟩ := streamMonitor_none_cons _ _ _ _ h2
  exact streamStep_done_pass _ _ h3

/-- non-vacuity: created then completed for a step is accepted; a second completed is not -/
def exNew : SEv := .new { tid := 1, nid := "s1", kind := "step", uses := "", level := 1, prev := some 0 }
def exRoot : SEv := .new { tid := 0, nid := "m", kind := "workflow", uses := "", level := 0, prev := none }
example : streamMonitor { pid := "p" } 0 [exRoot, .tr 0 .ready, .gen ⟨0, "m0", "created", "workflow", "m", "m", "", "p"⟩, exNew, .tr 1 .ready,
    .gen ⟨1, "m1", "created", "step", "s1", "s1", "", "p"⟩, .tr 1 .running, .tr 1 .completed,
    .gen ⟨1, "m2", "completed", "step", "s1", "s1", "", "p"⟩] = none := by decide
example : (streamMonitor { pid := "p" } 0 [exRoot, .tr 0 .ready, .gen ⟨0, "m0", "created", "workflow", "m", "m", "", "p"⟩, exNew, .tr 1 .completed,
    .gen ⟨1, "m2", "completed", "step", "s1", "s1", "", "p"⟩, .gen ⟨1, "m3", "completed", "step", "s1", "s1", "", "p"⟩]).isSome = true := by decide

end Acts.C08
