import ActsModel.Spec.Ref
import ActsModel.Spec.Progress

/-!
# C01 — Progress: a quiescent, unfinished process is always waiting on a client
Theorems about the reference interpretation (all workflows of the fragment, all input valuations — the
conditions are arbitrary booleans —, all sets of answered interrupts) by mutual structural induction.
The operational side (the engine and its Lean transcription `Model/Op.lean`) is held to the same
predicate `Spec.progressOK` at every quiescent point of generated runs and schedules.
-/
namespace Acts.C01
open Acts.Ref

mutual
/-- **progress**: a started construct is finished, or it is waiting on at least one interrupt -/
theorem progress_step (a : Answered) (s : RStep) : doneStep a s = true ∨ opensStep a s ≠ [] := by
  cases s with
  | mk i c bs as =>
    simp only [doneStep, opensStep]
    cases c with
    | false => simp
    | true =>
      simp only [Bool.not_true, Bool.false_eq_true, ↓reduceIte, Bool.and_eq_true]
      rcases progress_branches a (anyCondHolds bs) bs with hb | hb
      · rcases progress_acts a as with ha | ha
        · exact Or.inl ⟨hb, ha⟩
        · right; intro h; exact ha (List.append_eq_nil_iff.mp h).2
      · right; intro h; exact hb (List.append_eq_nil_iff.mp h).1
theorem progress_steps (a : Answered) (ss : List RStep) : doneSteps a ss = true ∨ opensSteps a ss ≠ [] := by
  cases ss with
  | nil => simp [doneSteps]
  | cons s ss =>
    simp only [doneSteps, opensSteps, Bool.and_eq_true]
    rcases progress_step a s with hs | hs
    · simp only [hs, ↓reduceIte, true_and]; exact progress_steps a ss
    · right
      cases hd : doneStep a s with
      | true => exact absurd (opens_of_done_step a s hd) hs
      | false => simpa using hs
theorem opens_of_done_step (a : Answered) (s : RStep) (h : doneStep a s = true) : opensStep a s = [] := by
  cases s with
  | mk i c bs as =>
    simp only [doneStep, opensStep] at h ⊢
    cases c with
    | false => simp
    | true =>
      simp only [Bool.not_true, Bool.false_eq_true, ↓reduceIte, Bool.and_eq_true] at h ⊢
      rw [opens_of_done_branches a _ bs h.1, opens_of_done_acts a as h.2]; rfl
theorem opens_of_done_steps (a : Answered) (ss : List RStep) (h : doneSteps a ss = true) : opensSteps a ss = [] := by
  cases ss with
  | nil => rfl
  | cons s ss =>
    simp only [doneSteps, Bool.and_eq_true] at h
    simp only [opensSteps, h.1, ↓reduceIte]
    exact opens_of_done_steps a ss h.2
theorem opens_of_done_branch (a : Answered) (sc : Bool) (b : RBranch) (h : doneBranch a sc b = true) :
    opensBranch a sc b = [] := by
  cases b with
  | mk i g ss =>
    cases g with
    | cond hc =>
      simp only [doneBranch, opensBranch] at h ⊢
      cases hc with
      | false => simp
      | true => simp only [↓reduceIte] at h ⊢; exact opens_of_done_steps a ss h
    | otherwise =>
      simp only [doneBranch, opensBranch] at h ⊢
      cases sc with
      | true => simp
      | false => simp only [Bool.false_eq_true, ↓reduceIte] at h ⊢; exact opens_of_done_steps a ss h
theorem opens_of_done_branches (a : Answered) (sc : Bool) (bs : List RBranch) (h : doneBranches a sc bs = true) :
    opensBranches a sc bs = [] := by
  cases bs with
  | nil => rfl
  | cons b bs =>
    simp only [doneBranches, Bool.and_eq_true] at h
    simp only [opensBranches, opens_of_done_branch a sc b h.1, opens_of_done_branches a sc bs h.2, List.append_nil]
theorem opens_of_done_acts (a : Answered) (as : List RAct) (h : doneActs a as = true) : opensActs a as = [] := by
  cases as with
  | nil => rfl
  | cons x xs =>
    simp only [doneActs, Bool.and_eq_true] at h
    simp only [opensActs, h.1, ↓reduceIte]
    exact opens_of_done_acts a xs h.2
theorem progress_branch (a : Answered) (sc : Bool) (b : RBranch) : doneBranch a sc b = true ∨ opensBranch a sc b ≠ [] := by
  cases b with
  | mk i g ss =>
    cases g with
    | cond hc =>
      simp only [doneBranch, opensBranch]
      cases hc with
      | false => simp
      | true => simp only [↓reduceIte]; exact progress_steps a ss
    | otherwise =>
      simp only [doneBranch, opensBranch]
      cases sc with
      | true => simp
      | false => simp only [Bool.false_eq_true, ↓reduceIte]; exact progress_steps a ss
theorem progress_branches (a : Answered) (sc : Bool) (bs : List RBranch) :
    doneBranches a sc bs = true ∨ opensBranches a sc bs ≠ [] := by
  cases bs with
  | nil => simp [doneBranches]
  | cons b bs =>
    simp only [doneBranches, opensBranches, Bool.and_eq_true]
    rcases progress_branch a sc b with hb | hb
    · rcases progress_branches a sc bs with hr | hr
      · exact Or.inl ⟨hb, hr⟩
      · right; intro h; exact hr (List.append_eq_nil_iff.mp h).2
    · right; intro h; exact hb (List.append_eq_nil_iff.mp h).1
theorem progress_acts (a : Answered) (as : List RAct) : doneActs a as = true ∨ opensActs a as ≠ [] := by
  cases as with
  | nil => simp [doneActs]
  | cons x xs =>
    simp only [doneActs, opensActs, Bool.and_eq_true]
    cases hd : doneAct a x with
    | true => simp only [↓reduceIte, true_and]; exact progress_acts a xs
    | false =>
      right
      simp only [Bool.false_eq_true, ↓reduceIte]
      cases x with
      | irq i c =>
        simp only [doneAct] at hd
        cases c with
        | false => simp at hd
        | true => simp only [↓reduceIte] at hd; simp [opensAct, hd]
      | msg i c => simp [doneAct] at hd
end

/-- **C01 for the reference interpretation**: an unfinished workflow always has an open interrupt -/
theorem progress (a : Answered) (w : RWorkflow) : w.done a = true ∨ w.opens a ≠ [] := progress_steps a w.steps

mutual
/-- every open interrupt is an unanswered one (so answering it changes the state) -/
theorem opens_unanswered_step (a : Answered) (s : RStep) : ∀ i ∈ opensStep a s, a i = false := by
  cases s with
  | mk j c bs as =>
    intro i hi
    simp only [opensStep] at hi
    cases c with
    | false => simp at hi
    | true =>
      simp only [Bool.not_true, Bool.false_eq_true, ↓reduceIte, List.mem_append] at hi
      rcases hi with hi | hi
      · exact opens_unanswered_branches a _ bs i hi
      · exact opens_unanswered_acts a as i hi
theorem opens_unanswered_steps (a : Answered) (ss : List RStep) : ∀ i ∈ opensSteps a ss, a i = false := by
  cases ss with
  | nil => intro i hi; cases hi
  | cons s ss =>
    intro i hi
    simp only [opensSteps] at hi
    split at hi
    · exact opens_unanswered_steps a ss i hi
    · exact opens_unanswered_step a s i hi
theorem opens_unanswered_branch (a : Answered) (sc : Bool) (b : RBranch) : ∀ i ∈ opensBranch a sc b, a i = false := by
  cases b with
  | mk j g ss =>
    intro i hi
    cases g with
    | cond hc =>
      simp only [opensBranch] at hi
      split at hi
      · exact opens_unanswered_steps a ss i hi
      · cases hi
    | otherwise =>
      simp only [opensBranch] at hi
      split at hi
      · cases hi
      · exact opens_unanswered_steps a ss i hi
theorem opens_unanswered_branches (a : Answered) (sc : Bool) (bs : List RBranch) :
    ∀ i ∈ opensBranches a sc bs, a i = false := by
  cases bs with
  | nil => intro i hi; cases hi
  | cons b bs =>
    intro i hi
    simp only [opensBranches, List.mem_append] at hi
    rcases hi with hi | hi
    · exact opens_unanswered_branch a sc b i hi
    · exact opens_unanswered_branches a sc bs i hi
theorem opens_unanswered_acts (a : Answered) (as : List RAct) : ∀ i ∈ opensActs a as, a i = false := by
  cases as with
  | nil => intro i hi; cases hi
  | cons x xs =>
    intro i hi
    simp only [opensActs] at hi
    split at hi
    · exact opens_unanswered_acts a xs i hi
    · cases x with
      | irq j c =>
        simp only [opensAct] at hi
        split at hi
        · rename_i h; simp at hi; subst hi; simp at h; exact h.2
        · cases hi
      | msg j c => simp [opensAct] at hi
end

mutual
/-- **a process whose every interrupt is answered finishes** -/
theorem all_answered_done_step (s : RStep) : doneStep (fun _ => true) s = true := by
  cases s with
  | mk j c bs as =>
    simp only [doneStep]
    cases c with
    | false => simp
    | true => simp [all_answered_done_branches _ bs, all_answered_done_acts as]
theorem all_answered_done_steps (ss : List RStep) : doneSteps (fun _ => true) ss = true := by
  cases ss with
  | nil => rfl
  | cons s ss => simp [doneSteps, all_answered_done_step s, all_answered_done_steps ss]
theorem all_answered_done_branch (sc : Bool) (b : RBranch) : doneBranch (fun _ => true) sc b = true := by
  cases b with
  | mk j g ss =>
    cases g with
    | cond hc => cases hc <;> simp [doneBranch, all_answered_done_steps ss]
    | otherwise => cases sc <;> simp [doneBranch, all_answered_done_steps ss]
theorem all_answered_done_branches (sc : Bool) (bs : List RBranch) : doneBranches (fun _ => true) sc bs = true := by
  cases bs with
  | nil => rfl
  | cons b bs => simp [doneBranches, all_answered_done_branch sc b, all_answered_done_branches sc bs]
theorem all_answered_done_acts (as : List RAct) : doneActs (fun _ => true) as = true := by
  cases as with
  | nil => rfl
  | cons x xs =>
    cases x with
    | irq j c => cases c <;> simp [doneActs, doneAct, all_answered_done_acts xs]
    | msg j c => simp [doneActs, doneAct, all_answered_done_acts xs]
end

theorem all_answered_finishes (w : RWorkflow) : w.done (fun _ => true) = true := all_answered_done_steps w.steps

mutual
/-- answering more interrupts never un-finishes anything -/
theorem done_mono_step (a a' : Answered) (h : ∀ i, a i = true → a' i = true) (s : RStep) :
    doneStep a s = true → doneStep a' s = true := by
  cases s with
  | mk j c bs as =>
    simp only [doneStep]
    cases c with
    | false => simp
    | true =>
      simp only [Bool.not_true, Bool.false_eq_true, ↓reduceIte, Bool.and_eq_true]
      exact fun hd => ⟨done_mono_branches a a' h _ bs hd.1, done_mono_acts a a' h as hd.2⟩
theorem done_mono_steps (a a' : Answered) (h : ∀ i, a i = true → a' i = true) (ss : List RStep) :
    doneSteps a ss = true → doneSteps a' ss = true := by
  cases ss with
  | nil => simp [doneSteps]
  | cons s ss =>
    simp only [doneSteps, Bool.and_eq_true]
    exact fun hd => ⟨done_mono_step a a' h s hd.1, done_mono_steps a a' h ss hd.2⟩
theorem done_mono_branch (a a' : Answered) (h : ∀ i, a i = true → a' i = true) (sc : Bool) (b : RBranch) :
    doneBranch a sc b = true → doneBranch a' sc b = true := by
  cases b with
  | mk j g ss =>
    cases g with
    | cond hc => cases hc <;> simp only [doneBranch, ↓reduceIte, Bool.false_eq_true] <;> first | exact done_mono_steps a a' h ss | simp
    | otherwise => cases sc <;> simp only [doneBranch, ↓reduceIte, Bool.false_eq_true] <;> first | exact done_mono_steps a a' h ss | simp
theorem done_mono_branches (a a' : Answered) (h : ∀ i, a i = true → a' i = true) (sc : Bool) (bs : List RBranch) :
    doneBranches a sc bs = true → doneBranches a' sc bs = true := by
  cases bs with
  | nil => simp [doneBranches]
  | cons b bs =>
    simp only [doneBranches, Bool.and_eq_true]
    exact fun hd => ⟨done_mono_branch a a' h sc b hd.1, done_mono_branches a a' h sc bs hd.2⟩
theorem done_mono_acts (a a' : Answered) (h : ∀ i, a i = true → a' i = true) (as : List RAct) :
    doneActs a as = true → doneActs a' as = true := by
  cases as with
  | nil => simp [doneActs]
  | cons x xs =>
    simp only [doneActs, Bool.and_eq_true]
    intro hd
    refine ⟨?_, done_mono_acts a a' h xs hd.2⟩
    cases x with
    | irq j c =>
      have := hd.1
      simp only [doneAct] at this ⊢
      cases c with
      | false => simp
      | true => simp only [↓reduceIte] at this ⊢; exact h j this
    | msg j c => simp [doneAct]
end

/-- the monitor is the property: with an empty queue it accepts exactly when every process is finished or waits -/
theorem monitor_iff (procs : List Acts.Spec.QProc) :
    Acts.Spec.progressOK 0 procs = true ↔ ∀ p ∈ procs, p.terminalDelivered = true ∨ p.waitingOnClient = true := by
  simp [Acts.Spec.progressOK]

/-- non-vacuity: a workflow with two parallel condition branches and an else branch, one interrupt answered -/
def exW : RWorkflow := ⟨"w", [.mk "s1" true [.mk "b1" (.cond true) [.mk "s2" true [] [.irq "a1" true, .irq "a2" true]],
  .mk "b2" (.cond false) [.mk "s3" true [] [.irq "a3" true]], .mk "b3" .otherwise [.mk "s4" true [] [.irq "a4" true]]] [],
  .mk "s5" true [] [.irq "a5" true]]⟩
example : exW.opens (fun i => i == "a1") = ["a2"] ∧ exW.done (fun i => i == "a1") = false := by decide
example : exW.opens (fun i => i == "a1" || i == "a2") = ["a5"] := by decide

end Acts.C01
