#!/usr/bin/env python3
"""entry point of every check: python3 tools/check.py <Cnn> --tier quick|thorough [--replay path]"""
import argparse
import importlib
import json
import os
import sys

sys.path.insert(0, os.path.dirname(os.path.abspath(__file__)))
from vlib import core  # noqa: E402


def main():
    ap = argparse.ArgumentParser()
    ap.add_argument("prop")
    ap.add_argument("--tier", default=os.environ.get("VERIF_TIER", "quick"))
    ap.add_argument("--replay", default=None)
    a = ap.parse_args()
    seed = int(os.environ.get("VERIF_SEED", "1") or "1")
    tier = a.tier if a.tier in ("quick", "thorough") else "quick"
    mod = importlib.import_module("vlib.props." + a.prop.lower())
    ctx = core.Ctx(a.prop.upper(), tier, seed)
    if a.replay:
        return mod.replay(ctx, json.load(open(a.replay)))
    mod.run(ctx)
    return ctx.finish(level="proof", assumptions=getattr(mod, "ASSUMPTIONS", []))


if __name__ == "__main__":
    sys.exit(main())
