"""C09 — acknowledged delivery: at-least-once, bounded retries, silent after ack"""
import json

from .. import gen
from ..core import obs_of
from ..rng import Rng

ASSUMPTIONS = [
    "virtual clock and manual tick (the production ticker is not exercised)",
    "message ids are never reused (nanoid collision freedom is trusted)",
    "fewer than 300 stale messages per tick (the query limit of with_no_response_messages)",
]

WF = {"id": "mw", "steps": [
    {"id": "s1", "branches": [
        {"id": "b1", "if": "true", "steps": [{"id": "s11", "acts": [{"id": "a1", "uses": gen.IRQ, "key": "k1"}]}]},
        {"id": "b2", "if": "true", "steps": [{"id": "s21", "acts": [{"id": "a2", "uses": gen.IRQ, "key": "k2"},
                                                                    {"id": "a3", "uses": gen.MSG, "key": "k3"}]}]},
        {"id": "b3", "if": "true", "steps": [{"id": "s31", "acts": [{"id": "a4", "uses": gen.IRQ, "key": "k4"}]}]}]},
    {"id": "s2", "acts": [{"id": "a5", "uses": gen.IRQ, "key": "k5"}]}]}

CLOCK0 = 1_000_000


def gen_scenario(seed, i, store):
    rng = Rng(seed * 104729 + i)
    max_retry = rng.range(1, 4)
    tick_secs = rng.pick([1, 2, 15])
    interval = tick_secs * 1000
    chan = {"id": "ackchan", "ack": True}
    if rng.chance(1, 4):
        chan["type"] = "act"
    elif rng.chance(1, 5):
        chan["state"] = "created"
    ops = [["chan_open", chan], ["deploy", 0], ["start", "mw", {"pid": "p1"}], ["runall"]]
    if rng.chance(1, 3):
        ops += [["start", "mw", {"pid": "p2"}], ["runall"]]
    n = rng.range(6, 20) if i % 7 else rng.range(20, 40)
    for _ in range(n):
        r = rng.below(100)
        if r < 45:
            ops.append(["tick", rng.pick([interval - 1, interval, interval + 1, 2 * interval + 5, 10, 1])])
        elif r < 65:
            ops.append(["ack", rng.below(30)])
        elif r < 78:
            ops.append(["act", rng.pick(["next", "next", "skip", "submit", "error"]), rng.pick(["p1", "p1", "p2"]),
                        {"open": rng.below(4)}, {"ecode": "e1"}])
            ops.append(["runall"])
        elif r < 85:
            ops.append(["redo"])
        elif r < 91:
            ops.append(["clear", rng.pick([None, "p1", "p2"])])
        elif r < 96:
            ops.append(["rm_msg", rng.below(30)])
        else:
            ops.append(["act", "next", "p1", {"term": rng.below(3)}, {}])
    keep = True
    if i % 4 == 1:
        # the messages outlive their processes: everything is answered to the end under the default retention (the processes are removed, no
        # process is live any more), and the ticks go on
        keep = False
        for _ in range(6):
            for pid in ("p1", "p2"):
                ops.append(["act", "next", pid, {"open": 0}, {}])
                ops.append(["runall"])
        for _ in range(rng.range(3, 6)):
            ops.append(["tick", rng.pick([interval + 1, interval, 2 * interval + 5])])
            if rng.chance(1, 4):
                ops.append(["ack", rng.below(40)])
    cfg = {"keep": keep, "max_retry": max_retry, "tick_secs": tick_secs, "store": store, "rows_each": ["messages"]}
    return {"id": f"c09-{seed}-{i}-{store}", "config": cfg, "models": [WF], "ops": ops}, {"max": max_retry, "interval": interval, "limit": 300}


def midx(name):
    return int(name[1:]) if isinstance(name, str) and name.startswith("m") and name[1:].isdigit() else None


def to_model_ops(sc, res):
    """derive the model's operation list from the scenario ops and from what the engine generated"""
    now = CLOCK0
    mops = []      # (harness op index, model op)
    gen_order = []
    for st in res.get("steps", []):
        i = st["op"]
        if i >= len(sc["ops"]):
            break
        op = sc["ops"][i]
        obs = st["obs"]
        for o in obs:
            if o.get("k") == "gen" and o["m"] not in gen_order:
                gen_order.append(o["m"])
        # first deliveries: messages and process events (start/complete/error) handed to the ack channel
        first = [o for o in obs if o.get("k") in ("dlv", "pev") and o.get("chan") == "ackchan" and o.get("retry") == 0]
        name = op[0]
        pre = []
        if name == "tick":
            now += op[1]
            pre.append(["tick", now])
        elif name == "ack":
            k = op[1]
            mid = gen_order[k] if k < len(gen_order) else "missing"
            pre.append(["ack", mid, now])
        elif name == "rm_msg":
            k = op[1]
            mid = gen_order[k] if k < len(gen_order) else "missing"
            pre.append(["rm", mid])
        elif name == "redo":
            pre.append(["redo", now])
        elif name == "clear":
            pre.append(["clear", op[1]])
        elif name == "act":
            ok = any(o.get("k") == "res" and o.get("ok") for o in obs)
            tgt = [o for o in obs if o.get("k") == "target"]
            if ok and op[1] != "push" and tgt:
                pre.append(["acted", tgt[0]["pid"], tgt[0]["tid"], now])
        for m in pre:
            mops.append((i, m))
        for o in first:
            mops.append((i, ["deliver", o["m"], o["pid"], o["tid"], midx(o["m"]) or 0, now]))
    return mops


def run(ctx):
    ctx.check_theorems("ActsModel.Props.C09")
    n = 120 if ctx.tier == "quick" else 3000
    scs, cfgs = [], []
    for i in range(n):
        for store in ("mem", "sqlite"):
            sc, cfg = gen_scenario(ctx.seed, i, store)
            scs.append(sc)
            cfgs.append(cfg)
    results = ctx.harness("run", scs)
    reqs, maps = [], []
    for sc, cfg, res in zip(scs, cfgs, results):
        mops = to_model_ops(sc, res)
        maps.append(mops)
        reqs.append({"cmd": "c09.run", "cfg": cfg, "ops": [m for _, m in mops]})
    answers = ctx.driver(reqs)
    dist = {"redeliveries": 0, "acks": 0, "errors_marked": 0, "redo": 0, "ticks": 0}
    for sc, cfg, res, mops, an in zip(scs, cfgs, results, maps, answers):
        ctx.cov["evaluations"] += 1
        if res.get("panic") or res.get("crashed"):
            ctx.violation("C09|engine-panic", "engine panicked", {"scenario": sc, "panic": res.get("panic")})
            continue
        ans = an.get("answers", []) if isinstance(an, dict) else []
        # group model answers per harness op
        per_op = {}
        for (i, m), a in zip(mops, ans):
            per_op.setdefault(i, []).append((m, a))
        redel = acks = 0
        failed = False
        first_content = {}
        for st in res.get("steps", []):
            i = st["op"]
            if i >= len(sc["ops"]) or failed:
                break
            obs = st["obs"]
            # a redelivery is the same message: same id, same content as the first delivery
            for o in obs:
                if o.get("k") == "dlv" and o.get("chan") == "ackchan":
                    content = {k: o.get(k) for k in ("pid", "tid", "nid", "mid", "type", "state", "key", "uses", "tag", "name", "inputs", "outputs")}
                    if o["m"] not in first_content:
                        first_content[o["m"]] = content
                    elif content != first_content[o["m"]] and not failed:
                        diff = [k for k in content if content[k] != first_content[o["m"]][k]]
                        ctx.violation(f"C09|redelivered-content-differs|{'+'.join(diff)}|{sc['config'].get('store', 'mem')}",
                                      f"op {i}: message {o['m']} redelivered (retry {o.get('retry')}) with other {diff}: {json.dumps({k: content[k] for k in diff})[:160]} "
                                      f"vs first {json.dumps({k: first_content[o['m']][k] for k in diff})[:160]}", {"scenario": sc, "op": i})
                        failed = True
            eng_re = sorted((o["m"], o["retry"]) for o in obs if o.get("k") == "dlv" and o.get("chan") == "ackchan" and o.get("retry", 0) > 0)
            rows = None
            for o in obs:
                if o.get("k") == "rows" and o.get("coll") == "messages":
                    rows = [(r["id"], {0: "created", 1: "acked", 2: "completed", 3: "error"}.get(r["status"]), r["retry_times"]) for r in (o.get("rows") or [])]
            mod = per_op.get(i, [])
            mod_re = sorted((d[0], d[1]) for m, a in mod if m[0] == "tick" for d in a.get("dlv", []))
            redel += len(eng_re)
            if sc["ops"][i][0] == "tick":
                dist["ticks"] += 1
            if sc["ops"][i][0] == "ack":
                acks += 1
            # ---- Lean-proved clauses evaluated on the engine's own stream (monitor)
            for (mname, retry) in eng_re:
                if retry > cfg["max"]:
                    ctx.violation("C09|retry-above-max", f"redelivery with retry {retry} > max {cfg['max']}", {"scenario": sc, "op": i})
                    failed = True
            if mod and not ctx_driver_missing(an):
                last_rows = [(r[0], r[1], r[2]) for r in mod[-1][1].get("rows", [])]
                if eng_re != mod_re:
                    what = classify_redelivery(eng_re, mod_re, mod)
                    ctx.violation("C09|" + what, f"op {i} {sc['ops'][i]}: engine redelivers {eng_re[:5]}, model {mod_re[:5]}",
                                  {"scenario": sc, "op": i, "engine": eng_re, "model": mod_re, "model_ops": [m for _, m in mops if _ <= i]})
                    failed = True
                elif rows is not None and sorted(rows) != sorted(last_rows):
                    diff = [x for x in rows if x not in last_rows][:3] + [x for x in last_rows if x not in rows][:3]
                    ctx.violation("C09|store-image|" + sc["ops"][i][0], f"op {i} {sc['ops'][i]}: stored messages differ from the model: {diff}",
                                  {"scenario": sc, "op": i, "engine_rows": rows, "model_rows": last_rows})
                    failed = True
            dist["errors_marked"] += sum(1 for r in (rows or []) if r[1] == "error")
        dist["redeliveries"] += redel
        dist["acks"] += acks
        if redel >= 1 and acks >= 1:
            ctx.nontrivial([sc["config"], sc["ops"]])
        ctx.sample({"scenario": sc["id"], "cfg": cfg, "ops": sc["ops"][:10]})
    ctx.cov["correspondence"] = {"scenarios": len(scs), "distribution": dist, "streams_compared": ["redeliveries per tick", "messages rows (id,status,retry) after every op"]}
    ctx.cov["rule"] = ("seeded patterns of tick/ack/action/redo/clear/rm over the messages of 1-2 processes on an acknowledging channel, max retry 1..4, "
                       "tick spacing below/at/above the interval, both back ends; non-trivial = at least one redelivery and one ack; distinct by (config, ops)")
    ctx.cov["clauses_proved"] = ["(a) stored before delivered", "(b) retry <= max", "(c) redelivery shape", "(d) at-least-once per stale tick",
                                 "(e) error at the limit, silent until redo", "(f) closed messages stay closed and silent (all histories)"]
    ctx.cov["clauses_not_proved"] = ["that the store back ends implement the selection query (C10 theorem + differential run)"]


def ctx_driver_missing(an):
    return not isinstance(an, dict) or an.get("driver_unavailable") or "answers" not in an


def classify_redelivery(eng, mod, mod_ops):
    e, m = set(eng), set(mod)
    if e - m:
        ids = {x[0] for x in e - m}
        # status of these ids in the model before the tick
        return "unexpected-redelivery"
    return "missing-redelivery"


def replay(ctx, data):
    ctx.build([])
    sc = data["replay"]["scenario"]
    res = ctx.harness("run", [sc])[0]
    for st in res["steps"]:
        print(st["op"], sc["ops"][st["op"]] if st["op"] < len(sc["ops"]) else "", [(o.get("m"), o.get("retry")) for o in st["obs"] if o.get("k") == "dlv" and o.get("chan") == "ackchan"])
    return 0
