import ActsModel.Model.Expr

namespace Acts

theorem Vars.get_set_same (vs : Vars) (k : String) (v : Json) : Vars.get (Vars.set vs k v) k = some v := by
  induction vs with
  | nil => simp [Vars.set, Vars.get, List.lookup]
  | cons p rest ih =>
    obtain ⟨k', v'⟩ := p
    simp only [Vars.set]
    by_cases h1 : (k == k') = true
    · simp [h1, Vars.get, List.lookup]
    · simp only [h1, Bool.false_eq_true, ↓reduceIte]
      by_cases h2 : k < k'
      · simp [h2, Vars.get, List.lookup]
      · have h1' : (k == k') = false := by simpa using h1
        simp only [h2, ↓reduceIte, Vars.get, List.lookup, h1']
        exact ih

theorem Vars.get_set_other (vs : Vars) (k k' : String) (v : Json) (h : k' ≠ k) :
    Vars.get (Vars.set vs k v) k' = Vars.get vs k' := by
  have hkk : (k' == k) = false := by simpa using h
  induction vs with
  | nil => simp [Vars.set, Vars.get, List.lookup, hkk]
  | cons p rest ih =>
    obtain ⟨k0, v0⟩ := p
    simp only [Vars.set]
    by_cases h1 : (k == k0) = true
    · have : k = k0 := by simpa using h1
      subst this
      simp [h1, Vars.get, List.lookup, hkk]
    · simp only [h1, Bool.false_eq_true, ↓reduceIte]
      by_cases h2 : k < k0
      · simp [h2, Vars.get, List.lookup, hkk]
      · simp only [h2, ↓reduceIte, Vars.get, List.lookup]
        cases (k' == k0)
        · exact ih
        · rfl

theorem Vars.has_iff (vs : Vars) (k : String) : Vars.has vs k = true ↔ (Vars.get vs k).isSome = true := by
  induction vs with
  | nil => simp [Vars.has, Vars.get, List.lookup]
  | cons p rest ih =>
    obtain ⟨k0, v0⟩ := p
    simp only [Vars.has, List.any_cons, Vars.get, List.lookup] at ih ⊢
    by_cases h : (k0 == k) = true
    · have : (k == k0) = true := by
        have : k0 = k := by simpa using h
        simp [this]
      simp [h, this]
    · have h' : (k0 == k) = false := by simpa using h
      have : (k == k0) = false := by
        rw [Bool.eq_false_iff]; intro hc; apply h
        have : k = k0 := by simpa using hc
        simp [this]
      simp only [h', Bool.false_or, this]
      exact ih

end Acts
