"""C11 — the store always holds a complete image of what the engine knows"""
import json

from .. import gen
from ..core import obs_of
from ..rng import Rng
from . import c07

ASSUMPTIONS = [
    "the live process is read through the verif dump (no reload), the store through the registered collections; both back ends",
    "`$params` (a memo of the evaluated act params that is recomputed on demand) is not part of the compared image",
]


def gen_scenario(seed, i, store):
    rng = Rng(seed * 32452843 + i)
    kind = rng.below(2)
    if i % 5 in (2, 3):
        # families with catches: a caught error keeps the process alive, and what the failed tasks and their subtrees look like stays observable
        g = gen.WfGen(rng.fork("wf"), depth=2, max_steps=3, max_branches=3, max_acts=2, p_if=5, p_branches=60, needs=False, mixed=False,
                      act_kinds=((gen.IRQ, 7), (gen.MSG, 2)), catches=True)
        w = g.workflow("m1")
        exprs = g.exprs
    elif kind == 0:
        g = c07.DataGen(rng.fork("wf"))
        w = g.workflow("m1")
        exprs = g.exprs
    else:
        g = gen.WfGen(rng.fork("wf"), depth=2, max_steps=3, max_branches=3, max_acts=2, p_if=15, needs=rng.chance(1, 4), mixed=rng.chance(1, 6),
                      act_kinds=((gen.IRQ, 6), (gen.MSG, 2), (gen.SET, 2)), catches=rng.chance(1, 3))
        w = g.workflow("m1")
        exprs = g.exprs
    if rng.chance(1, 2):
        w["env"] = {"e1": rng.below(9), "region": "eu"}
    if rng.chance(1, 3):
        # the env is written at run time too, by a script act that is not the root task
        w.setdefault("env", {})["stage"] = "draft"
        w["steps"].insert(0, {"id": "s0", "acts": [{"id": "a0c", "uses": gen.CODE, "params": '$env.stage = "reviewed"; $env.count = 7;'}, {"id": "a0", "uses": gen.IRQ, "key": "ka0"}]})
    ops = [["deploy", 0], ["start", "m1", {"pid": "p1", "x": rng.below(4), "y": rng.below(4)}]]
    ops += gen.random_history(rng.fork("h"), n=rng.range(6, 14), stepped_p=20,
                              actions=["next", "next", "submit", "skip", "abort", "error", "set_process_vars", "next"] if i % 5 != 2 else ["next", "error", "error", "next", "skip"],
                              opts_fn=lambda r, ev: ({"ecode": r.pick(["e1", "e2"]), "message": "boom"} if ev == "error" else
                                                     ({"pv": r.below(9)} if ev == "set_process_vars" else
                                                      {nm: r.below(50) for nm in ("n1", "n2", "n3", "n4") if r.chance(3, 4)})))
    ops.append(["runall"])
    if i % 5 == 2:
        # the process leaves the cache at quiescent points and is loaded again by the next action: a reload must not change what the engine knows
        out = []
        for op in ops:
            out.append(op)
            if op[0] == "runall" and rng.chance(1, 2):
                out.append(["clock", rng.range(1, 500)])      # time passes: a reload must not re-stamp anything
                out.append(["evict", "p1"])
        ops = out
    if i % 5 == 3:
        # errors while other tasks are still waiting in the queue (created, not yet run): an answer creates a successor, and before the scheduler
        # runs it another act fails
        ops = ops[:2] + [["runall"]]
        for _ in range(rng.range(3, 6)):
            ops.append(["act", "next", "p1", {"open": rng.below(3)}, {"n1": rng.below(50)}])
            if rng.chance(1, 3):
                ops.append(["run", 0])
            ops.append(["act", "error", "p1", {"open": rng.below(3)}, {"ecode": rng.pick(["e1", "e1", "e2"]), "message": "boom"}])
            ops.append(["runall", rng.pick(["fifo", "lifo"]), rng.below(1 << 30)])
        for _ in range(4):
            ops.append(["act", "next", "p1", {"open": 0}, {}])
            ops.append(["runall"])
    return {"id": f"c11-{seed}-{i}-{store}", "config": {"keep": True, "dump_each": True, "store": store, "rows_each": ["procs", "tasks"]}, "models": [w], "ops": ops, "exprs": exprs}


def compare_image(dump, prow, trows):
    """first difference between the live process and its stored image, or None"""
    if prow is None:
        return ("proc-row-missing", "no process row")
    if prow["state"] != dump["state"]:
        return ("proc-state", f"live {dump['state']} stored {prow['state']}")
    env = json.loads(prow["env"]) if prow.get("env") else {}
    if env != dump["env"]:
        return ("proc-env", f"live {dump['env']} stored {env}")
    perr = json.loads(prow["err"]) if prow.get("err") else None
    if (perr or None) != (dump["err"] or None):
        return ("proc-err", f"live {dump['err']} stored {perr}")
    live = {t["tid"]: t for t in dump["tasks"]}
    rows = {r["tid"]: r for r in trows}
    if sorted(live) != sorted(rows):
        return ("task-set", f"live-only {sorted(set(live) - set(rows))[:4]} stored-only {sorted(set(rows) - set(live))[:4]}")
    for tid, t in live.items():
        r = rows[tid]
        if r["state"] != t["state"]:
            return ("task-state", f"task {tid} ({t['nid']}): live {t['state']} stored {r['state']}")
        if r["prev"] != t["prev"]:
            return ("task-prev", f"task {tid}: live {t['prev']} stored {r['prev']}")
        data = json.loads(r["data"])
        # `$params` memoises the evaluated act params; it is recomputed on demand and is not part of the image
        data.pop("$params", None)
        live_data = {k: v for k, v in t["data"].items() if k != "$params"}
        if data != live_data:
            keys = [k for k in set(data) | set(live_data) if data.get(k, "<absent>") != live_data.get(k, "<absent>")]
            return ("task-data", f"task {tid} ({t['nid']}, {t['kind']}): keys {sorted(keys)[:4]} live {json.dumps({k: live_data.get(k, '<absent>') for k in keys})[:120]} stored {json.dumps({k: data.get(k, '<absent>') for k in keys})[:120]}")
        rerr = json.loads(r["err"]) if r.get("err") else None
        if (rerr or None) != (t["err"] or None):
            return ("task-err", f"task {tid}: live {t['err']} stored {rerr}")
        if r["start_time"] != t["start_time"] or r["end_time"] != t["end_time"]:
            return ("task-times", f"task {tid}: live {t['start_time']}/{t['end_time']} stored {r['start_time']}/{r['end_time']}")
    return None


def run(ctx):
    ctx.check_theorems("ActsModel.Props.C11")
    n = 300 if ctx.tier == "quick" else 3000
    scs = []
    for i in range(n):
        for store in ("mem", "sqlite"):
            scs.append(gen_scenario(ctx.seed, i, store))
    results = ctx.harness("run", scs)
    stats = {"points": 0, "mem": 0, "sqlite": 0, "tasks_compared": 0}
    for sc, res in zip(scs, results):
        ctx.cov["evaluations"] += 1
        if res.get("panic") or res.get("crashed"):
            ctx.violation("C11|engine-panic", f"engine panicked: {str(res.get('panic'))[:100]}", {"scenario": sc})
            continue
        store = sc["config"]["store"]
        for st in res.get("steps", []):
            obs = st["obs"]
            q = [o for o in obs if o.get("k") == "queue"]
            d = [o for o in obs if o.get("k") == "dump" and o.get("pid") == "p1" and not o.get("absent")]
            if not d:
                continue
            rows = {o["coll"]: o.get("rows") or [] for o in obs if o.get("k") == "rows"}
            prow = next((r for r in rows.get("procs", []) if r["id"] == "p1"), None)
            trows = [r for r in rows.get("tasks", []) if r["pid"] == "p1"]
            stats["points"] += 1
            stats[store] += 1
            stats["tasks_compared"] += len(d[0]["tasks"])
            diff = compare_image(d[0], prow, trows)
            if diff:
                ctx.cov["monitor_failures"] += 1
                op = sc["ops"][st["op"]]
                trig = op[1] if op[0] == "act" else op[0]
                ctx.violation(f"C11|{diff[0]}", f"after op {st['op']} {op[:3]} ({store}): {diff[1]}", {"scenario": sc, "op": st["op"], "difference": diff})
                break
        else:
            ctx.nontrivial([sc["models"], sc["ops"], store])
    ctx.sample({"scenario": scs[0]["id"], "ops": scs[0]["ops"][:6]}, limit=1)
    ctx.cov["correspondence"] = {"distribution": stats, "streams_compared": ["live dump vs procs/tasks rows after every operation, in-memory and SQLite"]}
    ctx.cov["rule"] = ("data-flow and control-flow workflows with env, set acts, errors, catches and every action kind incl. set_process_vars; the image is compared after every operation "
                       "(also with tasks still parked); non-trivial = a run whose every point was compared; distinct by (model, ops, back end)")
    ctx.cov["clauses_proved"] = ["the task event upserts the row before hooks and message (K1 order)", "the row carries state/prev/data/err/times/hooks and the proc row state/err/env (K1 on into_data)",
                                 "every field survives both back ends (C10 mapper theorems)"]
    ctx.cov["clauses_not_proved"] = ["every in-memory write is followed by a row write before the next quiescent point (monitor on both back ends)"]


def replay(ctx, data):
    print("re-run: python3 tools/check.py C11 (the replay file holds the scenario and the first differing field)")
    return 0
