import ActsModel.Spec.Stream

/-!
Helper lemmas about the C08 monitor (`Spec/Stream.lean`): what a stream that the monitor accepts looks like.
The property theorems built from these are in `Props/C08.lean`.
-/
namespace Acts.Spec
open Acts.Gen

def streamRun : SState → Nat → List SEv → SState
  | st, _, [] => st
  | st, i, e :: es => streamRun (streamStep st i e).1 (i + 1) es

theorem streamMonitor_none_cons (st : SState) (i : Nat) (e : SEv) (es : List SEv) (h : streamMonitor st i (e :: es) = none) :
    (streamStep st i e).2 = none ∧ streamMonitor (streamStep st i e).1 (i + 1) es = none := by
  unfold streamMonitor at h
  split at h
  · exact absurd h (by simp)
  · rename_i st' heq
    rw [heq]
    exact ⟨rfl, h⟩

theorem streamMonitor_append (a : List SEv) : ∀ (st : SState) (i : Nat) (b : List SEv), streamMonitor st i (a ++ b) = none →
    streamMonitor st i a = none ∧ streamMonitor (streamRun st i a) (i + a.length) b = none := by
  induction a with
  | nil => intro st i b h; simpa [streamMonitor, streamRun] using h
  | cons x xs ih =>
    intro st i b h
    obtain ⟨h1, h2⟩ := streamMonitor_none_cons st i x (xs ++ b) h
    obtain ⟨h3, h4⟩ := ih _ _ b h2
    refine ⟨?_, ?_⟩
    · unfold streamMonitor
      split
      · rename_i v heq; rw [heq] at h1; simp at h1
      · rename_i st' heq; rw [heq] at h3; exact h3
    · simp only [streamRun, List.length_cons]
      rw [show i + (xs.length + 1) = i + 1 + xs.length by omega]
      exact h4

/-- everything the monitor has checked when it lets a generated message pass -/
structure GenPass (st : SState) (m : SMsg) (t : STask) (st' : SState) : Prop where
  found : st.tasks.find? (·.tid == m.tid) = some t
  fresh : st.mids.contains m.mid = false
  notBranch : t.kind ≠ "branch"
  pid : m.pid = st.pid
  nid : m.nid = t.nid
  type : m.type = t.kind
  uses : m.uses = t.uses
  state : m.state = (msgStateOf t.state).toStr
  next : st' = { st with mids := m.mid :: st.mids, tasks := st.tasks.map fun x => if x.tid == t.tid then countMsg t m else x }
  firstTerminal : m.isTerm = true → t.terminal = 0
  firstCreated : m.isTerm = false → t.created = 0 ∧ t.terminal = 0 ∧ isMsgAct t = false
  parentFirst : m.isTerm = false → ∀ p, sParent st.tasks t = some p → reports p = true → isMsgAct p = false → p.created ≥ 1

theorem genDescribes_none (st : SState) (t : STask) (m : SMsg) (h : genDescribes st t m = none) :
    st.mids.contains m.mid = false ∧ t.kind ≠ "branch" ∧ m.pid = st.pid ∧ m.nid = t.nid ∧ m.type = t.kind ∧ m.uses = t.uses ∧
    m.state = (msgStateOf t.state).toStr := by
  unfold genDescribes at h
  by_cases c1 : st.mids.contains m.mid = true
  · simp only [c1, ↓reduceIte] at h; cases h
  simp only [c1, Bool.false_eq_true, ↓reduceIte] at h
  by_cases c2 : (t.kind == "branch") = true
  · simp only [c2, ↓reduceIte] at h; cases h
  simp only [c2, Bool.false_eq_true, ↓reduceIte] at h
  by_cases c3 : (m.pid != st.pid || m.nid != t.nid || m.type != t.kind || m.uses != t.uses) = true
  · simp only [c3, ↓reduceIte] at h; cases h
  simp only [c3, Bool.false_eq_true, ↓reduceIte] at h
  by_cases c4 : (m.state != (msgStateOf t.state).toStr) = true
  · simp only [c4, ↓reduceIte] at h; cases h
  simp only [Bool.or_eq_true, bne_iff_ne, ne_eq, not_or, Decidable.not_not] at c3
  obtain ⟨⟨⟨a, b⟩, c⟩, d⟩ := c3
  exact ⟨by simpa using c1, by simpa using c2, a, b, c, d, by simpa using c4⟩

theorem genOrdered_none (st : SState) (t : STask) (m : SMsg) (h : genOrdered st t m = none) :
    (m.isTerm = true → t.terminal = 0) ∧ (m.isTerm = false → t.created = 0 ∧ t.terminal = 0 ∧ isMsgAct t = false) ∧
    (m.isTerm = false → ∀ p, sParent st.tasks t = some p → reports p = true → isMsgAct p = false → p.created ≥ 1) := by
  unfold genOrdered at h
  cases hterm : m.isTerm
  · simp only [hterm, Bool.false_eq_true, ↓reduceIte] at h
    by_cases d1 : t.created ≥ 1
    · simp only [d1, ↓reduceIte] at h; cases h
    simp only [d1, ↓reduceIte] at h
    by_cases d2 : t.terminal > 0
    · simp only [d2, ↓reduceIte] at h; cases h
    simp only [d2, ↓reduceIte] at h
    by_cases d3 : isMsgAct t = true
    · simp only [d3, ↓reduceIte] at h; cases h
    simp only [d3, Bool.false_eq_true, ↓reduceIte] at h
    refine ⟨by simp, fun _ => ⟨by omega, by omega, by simpa using d3⟩, ?_⟩
    intro _ p hp hr hm
    simp only [hp, hr, hm, Bool.not_false, Bool.and_self, Bool.true_and] at h
    by_cases d4 : (p.created == 0) = true
    · simp only [d4, ↓reduceIte] at h; cases h
    · have : p.created ≠ 0 := by simpa using d4
      omega
  · simp only [hterm, ↓reduceIte] at h
    by_cases d1 : t.terminal ≥ 1
    · simp only [d1, ↓reduceIte] at h; cases h
    exact ⟨fun _ => by omega, by simp, by simp⟩

theorem streamStep_gen_pass (st : SState) (i : Nat) (m : SMsg) (h : (streamStep st i (.gen m)).2 = none) :
    ∃ t, GenPass st m t (streamStep st i (.gen m)).1 := by
  unfold streamStep at h ⊢
  cases hf : st.tasks.find? (·.tid == m.tid) with
  | none => simp [hf] at h
  | some t =>
    simp only [hf] at h ⊢
    cases hd : genDescribes st t m with
    | some c => simp [hd] at h
    | none =>
      simp only [hd] at h ⊢
      have ho : genOrdered st t m = none := by
        cases hx : genOrdered st t m with
        | none => rfl
        | some c => simp [hx] at h
      obtain ⟨a1, a2, a3, a4, a5, a6, a7⟩ := genDescribes_none st t m hd
      obtain ⟨b1, b2, b3⟩ := genOrdered_none st t m ho
      exact ⟨t, { found := hf, fresh := a1, notBranch := a2, pid := a3, nid := a4, type := a5, uses := a6, state := a7, next := rfl,
                  firstTerminal := b1, firstCreated := b2, parentFirst := b3 }⟩

theorem streamStep_done_fst (st : SState) (i : Nat) : (streamStep st i .done).1 = st := by
  simp only [streamStep]
  split
  · rfl
  · split <;> rfl

/-- what the monitor demands at the end of a run -/
theorem streamStep_done_pass (st : SState) (i : Nat) (h : (streamStep st i .done).2 = none) :
    ∀ t ∈ st.tasks, reports t = true →
      (isMsgAct t = false → t.everCreated = true → t.created ≥ 1) ∧ (t.state.isCompleted = true → t.terminal ≥ 1) := by
  simp only [streamStep] at h
  split at h
  · cases h
  · rename_i h1
    split at h
    · cases h
    · rename_i h2
      intro t ht hr
      have a := List.find?_eq_none.mp h1 t ht
      have b := List.find?_eq_none.mp h2 t ht
      refine ⟨?_, ?_⟩
      · intro hm he
        simp only [hr, hm, he, Bool.not_false, Bool.and_self, Bool.true_and, beq_iff_eq] at a
        omega
      · intro hc
        simp only [hr, hc, Bool.and_self, Bool.or_true, Bool.and_true, Bool.true_and, beq_iff_eq] at b
        omega

theorem streamStep_pid (st : SState) (i : Nat) (e : SEv) : (streamStep st i e).1.pid = st.pid := by
  cases e with
  | new t => simp [streamStep]
  | tr tid s => simp [streamStep]
  | done => rw [streamStep_done_fst]
  | gen m =>
    simp only [streamStep]
    split
    · rfl
    · split <;> rfl

theorem streamRun_pid (evs : List SEv) : ∀ (st : SState) (i : Nat), (streamRun st i evs).pid = st.pid := by
  induction evs with
  | nil => intro st i; rfl
  | cons e es ih => intro st i; simp only [streamRun]; rw [ih, streamStep_pid]

-- ------------------------------------------------------------------ message ids

/-- ids of the generated messages of a stream, in order -/
def genMids : List SEv → List String
  | [] => []
  | .gen m :: es => m.mid :: genMids es
  | _ :: es => genMids es

theorem streamStep_pass_mids (st : SState) (i : Nat) (e : SEv) (h : (streamStep st i e).2 = none) :
    match e with
    | .gen m => (streamStep st i e).1.mids = m.mid :: st.mids ∧ m.mid ∉ st.mids
    | _ => (streamStep st i e).1.mids = st.mids := by
  cases e with
  | new t => simp [streamStep]
  | tr tid s => simp [streamStep]
  | done => simp [streamStep_done_fst]
  | gen m =>
    obtain ⟨t, gp⟩ := streamStep_gen_pass st i m h
    refine ⟨by rw [gp.next], ?_⟩
    have := gp.fresh
    simpa using this

theorem streamMonitor_mids (evs : List SEv) : ∀ (st : SState) (i : Nat), streamMonitor st i evs = none → st.mids.Nodup →
    (genMids evs).Nodup ∧ ∀ x ∈ genMids evs, x ∉ st.mids := by
  induction evs with
  | nil => intro st i _ _; simp [genMids]
  | cons e es ih =>
    intro st i h hn
    obtain ⟨h1, h2⟩ := streamMonitor_none_cons st i e es h
    have hm := streamStep_pass_mids st i e h1
    cases e with
    | gen m =>
      simp only at hm
      obtain ⟨hm1, hm2⟩ := hm
      have hn' : (streamStep st i (.gen m)).1.mids.Nodup := by
        rw [hm1]; exact List.nodup_cons.mpr ⟨hm2, hn⟩
      obtain ⟨a, b⟩ := ih _ _ h2 hn'
      rw [hm1] at b
      simp only [genMids]
      refine ⟨List.nodup_cons.mpr ⟨?_, a⟩, ?_⟩
      · intro hin
        exact b _ hin (List.mem_cons_self)
      · intro x hx
        rcases List.mem_cons.mp hx with rfl | hx
        · exact hm2
        · intro hx2
          exact b x hx (List.mem_cons_of_mem _ hx2)
    | new t =>
      simp only at hm
      have := ih _ _ h2 (by rw [hm]; exact hn)
      rw [hm] at this
      simpa [genMids] using this
    | tr tid s =>
      simp only at hm
      have := ih _ _ h2 (by rw [hm]; exact hn)
      rw [hm] at this
      simpa [genMids] using this
    | done =>
      simp only at hm
      have := ih _ _ h2 (by rw [hm]; exact hn)
      rw [hm] at this
      simpa [genMids] using this

-- ------------------------------------------------------------------ per task: at most one created and one terminal message

/-- the record the monitor keeps for task `x` -/
def recOf (st : SState) (x : Nat) : Option STask := st.tasks.find? (·.tid == x)

def seenTerm (st : SState) (x : Nat) : Nat := match recOf st x with | some t => t.terminal | none => 0
def seenCreated (st : SState) (x : Nat) : Nat := match recOf st x with | some t => t.created | none => 0

def isTermGen (x : Nat) : SEv → Bool
  | .gen m => m.tid == x && m.isTerm
  | _ => false

def isCreatedGen (x : Nat) : SEv → Bool
  | .gen m => m.tid == x && !m.isTerm
  | _ => false

/-- the stream announces tasks with empty counters (what the driver builds from a creation record) -/
def wfEv : SEv → Prop
  | .new t => t.terminal = 0 ∧ t.created = 0
  | _ => True

theorem find?_map_tid (l : List STask) (f : STask → STask) (hf : ∀ a, (f a).tid = a.tid) (x : Nat) :
    (l.map f).find? (·.tid == x) = (l.find? (·.tid == x)).map f := by
  rw [List.find?_map]
  congr 1
  congr 1
  funext a
  simp [Function.comp, hf]

theorem streamStep_pass_counts (st : SState) (i : Nat) (e : SEv) (x : Nat) (h : (streamStep st i e).2 = none) (hw : wfEv e) :
    seenTerm (streamStep st i e).1 x = seenTerm st x + (if isTermGen x e then 1 else 0) ∧
    seenCreated (streamStep st i e).1 x = seenCreated st x + (if isCreatedGen x e then 1 else 0) ∧
    (isTermGen x e = true → seenTerm st x = 0) ∧ (isCreatedGen x e = true → seenCreated st x = 0 ∧ seenTerm st x = 0) := by
  cases e with
  | done => simp [streamStep_done_fst, isTermGen, isCreatedGen]
  | new t =>
    simp only [wfEv] at hw
    simp only [streamStep, seenTerm, seenCreated, recOf, isTermGen, isCreatedGen, List.find?_append]
    cases hf : st.tasks.find? (·.tid == x) with
    | some a => simp
    | none =>
      by_cases hx : (t.tid == x) = true
      · simp [List.find?, hx, hw.1, hw.2]
      · simp [List.find?, hx]
  | tr tid s =>
    simp only [streamStep, seenTerm, seenCreated, recOf, isTermGen, isCreatedGen]
    rw [find?_map_tid _ _ (by intro a; split <;> rfl)]
    cases hf : st.tasks.find? (·.tid == x) with
    | none => simp
    | some a =>
      simp only [Option.map_some]
      split <;> simp
  | gen m =>
    obtain ⟨t, gp⟩ := streamStep_gen_pass st i m h
    have htid : t.tid = m.tid := by
      have := List.find?_some gp.found
      simpa using this
    have hct : (countMsg t m).tid = t.tid := by unfold countMsg; split <;> rfl
    rw [gp.next]
    simp only [seenTerm, seenCreated, recOf, isTermGen, isCreatedGen]
    rw [find?_map_tid _ _ (by intro a; split <;> simp_all)]
    by_cases hx : m.tid = x
    · subst hx
      simp only [gp.found, Option.map_some, htid, beq_self_eq_true, ↓reduceIte, Bool.true_and]
      cases hterm : m.isTerm
      · have := gp.firstCreated hterm
        simp [countMsg, hterm, this.1, this.2.1]
      · have := gp.firstTerminal hterm
        simp [countMsg, hterm, this]
    · have hx' : (m.tid == x) = false := by simpa using hx
      simp only [hx', Bool.false_and, Bool.false_eq_true, ↓reduceIte, Nat.add_zero, false_implies, and_true]
      cases hf : st.tasks.find? (·.tid == x) with
      | none => simp
      | some a =>
        have ha : a.tid = x := by
          have := List.find?_some hf
          simpa using this
        have : ¬ a.tid = t.tid := by
          rw [htid, ha]; exact Ne.symm hx
        simp [this]

/-- counters of an accepted stream, per task -/
theorem streamMonitor_counts (evs : List SEv) (x : Nat) : ∀ (st : SState) (i : Nat), streamMonitor st i evs = none →
    (∀ e ∈ evs, wfEv e) → seenTerm st x ≤ 1 → seenCreated st x ≤ 1 →
    seenTerm st x + (evs.filter (isTermGen x)).length ≤ 1 ∧ seenCreated st x + (evs.filter (isCreatedGen x)).length ≤ 1 := by
  induction evs with
  | nil => intro st i _ _ h1 h2; simp; omega
  | cons e es ih =>
    intro st i h hw h1 h2
    obtain ⟨p1, p2⟩ := streamMonitor_none_cons st i e es h
    obtain ⟨c1, c2, c3, c4⟩ := streamStep_pass_counts st i e x p1 (hw e List.mem_cons_self)
    have hw' : ∀ e ∈ es, wfEv e := fun e he => hw e (List.mem_cons_of_mem _ he)
    have b1 : seenTerm (streamStep st i e).1 x ≤ 1 := by
      rw [c1]
      cases ht : isTermGen x e
      · simpa using h1
      · have := c3 ht
        simp [this]
    have b2 : seenCreated (streamStep st i e).1 x ≤ 1 := by
      rw [c2]
      cases hc : isCreatedGen x e
      · simpa using h2
      · have := (c4 hc).1
        simp [this]
    have := ih _ _ p2 hw' b1 b2
    rw [c1, c2] at this
    simp only [List.filter_cons]
    cases ht : isTermGen x e <;> cases hc : isCreatedGen x e <;> simp [ht, hc] at this ⊢ <;> omega

/-- in an accepted stream no created message of a task follows its terminal message -/
theorem streamMonitor_created_before_terminal (evs : List SEv) (x : Nat) : ∀ (st : SState) (i : Nat), streamMonitor st i evs = none →
    (∀ e ∈ evs, wfEv e) →
    ∀ pre e post, evs = pre ++ e :: post → isCreatedGen x e = true → seenTerm st x + (pre.filter (isTermGen x)).length = 0 := by
  induction evs with
  | nil => intro st i _ _ pre e post h; simp at h
  | cons y ys ih =>
    intro st i h hw pre e post heq hc
    obtain ⟨p1, p2⟩ := streamMonitor_none_cons st i y ys h
    obtain ⟨c1, _, _, c4⟩ := streamStep_pass_counts st i y x p1 (hw y List.mem_cons_self)
    have hw' : ∀ e ∈ ys, wfEv e := fun e he => hw e (List.mem_cons_of_mem _ he)
    cases pre with
    | nil =>
      simp only [List.nil_append, List.cons.injEq] at heq
      obtain ⟨rfl, _⟩ := heq
      have := (c4 hc).2
      simp; exact this
    | cons p ps =>
      simp only [List.cons_append, List.cons.injEq] at heq
      obtain ⟨rfl, rfl⟩ := heq
      have := ih _ _ p2 hw' ps e post rfl hc
      rw [c1] at this
      simp only [List.filter_cons]
      cases ht : isTermGen x y <;> simp [ht] at this ⊢ <;> omega

end Acts.Spec
