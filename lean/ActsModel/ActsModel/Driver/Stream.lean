import Lean.Data.Json
import ActsModel.Driver.Util
import ActsModel.Spec.Stream
open Lean

namespace Acts.Driver
open Acts.Spec

/-- events: ["new",tid,nid,kind,uses,level,prev] | ["tr",tid,state] | ["gen",tid,mid,state,type,nid,key,uses,pid] | ["done"] -/
def streamCase (req : Lean.Json) : Lean.Json :=
  let tidN (s : String) : Nat := if s == "$" then 0 else ((s.drop 1).toString.toNat?).getD 0
  let evs : List SEv := (jarr req "events").toList.map fun e =>
    let a := asArr e
    match asStr a[0]! with
    | "new" => .new { tid := tidN (asStr a[1]!), nid := asStr a[2]!, kind := asStr a[3]!, uses := asStr a[4]!, level := asNat a[5]!,
                      prev := match a[6]! with | .str s => some (tidN s) | _ => none }
    | "tr" => .tr (tidN (asStr a[1]!)) (Acts.Gen.TaskState.ofStr (asStr a[2]!))
    | "gen" => .gen { tid := tidN (asStr a[1]!), mid := asStr a[2]!, state := asStr a[3]!, type := asStr a[4]!, nid := asStr a[5]!,
                      key := asStr a[6]!, uses := asStr a[7]!, pid := asStr a[8]! }
    | _ => .done
  match streamMonitor { pid := jstr req "pid" } 0 evs with
  | none => Lean.Json.mkObj [("ok", Lean.Json.bool true)]
  | some (i, why, tid) => Lean.Json.mkObj [("ok", Lean.Json.bool false), ("at", Lean.Json.num i), ("why", Lean.Json.str why),
      ("tid", Lean.Json.str (if tid == 0 then "$" else s!"@{tid}"))]

end Acts.Driver
