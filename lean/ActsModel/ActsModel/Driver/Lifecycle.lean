import Lean.Data.Json
import ActsModel.Driver.Util
import ActsModel.Spec.Lifecycle
open Lean

namespace Acts.Driver

/-- C02: evaluate the lifecycle monitor on a transition trace `[[key, old, new], …]` -/
def c02Monitor (req : Lean.Json) : Lean.Json :=
  let trs : List Acts.Spec.Tr := (jarr req "trace").toList.map fun t =>
    let a := asArr t
    { key := asStr a[0]!, old := Acts.Gen.TaskState.ofStr (asStr a[1]!), new := Acts.Gen.TaskState.ofStr (asStr a[2]!) }
  let bad := Acts.Spec.firstIllegal [] 0 trs
  let gap := Acts.Spec.firstGap [] 0 trs
  Lean.Json.mkObj [("ok", Lean.Json.bool (bad.isNone && gap.isNone)), ("illegal", optNat bad), ("gap", optNat gap)]

end Acts.Driver
