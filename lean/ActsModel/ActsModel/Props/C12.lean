import ActsModel.Gen.Reload
import ActsModel.Gen.Fields

/-!
# C12 — Restart / reload transparency at quiescent points
Proof-level content: everything the scheduler reads of a task or a process is written to its row and read
back on reload (K1 over the translated `into_data` / `load_tasks` / `load_proc` field lists), and both back
ends keep these columns (C10).  That a continued run is indistinguishable from the uninterrupted one is
decided by running both on the engine (eviction on the in-memory store, restart on SQLite) and comparing
everything observable after the cut.
-/
namespace Acts.C12
open Acts.Gen

/-- what `step` reads of a task: its state, predecessor link, data, error, registered hooks, times, creation stamp and node -/
def taskStateRead : List String := ["state", "prev", "data", "err", "hooks", "start_time", "end_time", "timestamp", "node_data", "tid"]

/-- K1: each of them is written by `Task::into_data` … -/
theorem task_state_written : ∀ f ∈ taskStateRead, f ∈ taskFieldsWritten := by decide

/-- K1: … is a column of the task record … -/
theorem task_state_is_a_column : ∀ f ∈ taskStateRead, f ∈ recordFields .tasks := by decide

/-- K1: … and is read back by `load_tasks` -/
theorem task_state_restored : ∀ f ∈ taskStateRead, f ∈ taskFieldsRestored := by decide

/-- K1: of a process the state, the error, the env and the model are written and read back -/
theorem proc_state_roundtrip : ∀ f ∈ ["state", "err", "env", "model"], f ∈ procFieldsWritten ∧ f ∈ procFieldsRestored ∧ f ∈ recordFields .procs := by
  decide

/-- K1: a stored node is re-bound by id to the rebuilt tree (so links of static nodes come from the model, not from the row) -/
theorem node_rebinding : nodeRebindsById = true := by decide

/-- W (documented limitation of `load_proc`, outside the property's observables): the end time and the creation stamp of a
process are not restored by a lazy reload -/
theorem proc_end_time_not_restored : "end_time" ∉ procFieldsRestored ∧ "timestamp" ∉ procFieldsRestored := by decide

end Acts.C12
