import ActsModel.Gen.State

/-!
C04, the clause "a needs-branch starts after a needed sibling finished", as a predicate on the stream of creations and state writes of one
process — for every instance of the branch (a step may be entered more than once): when a task of a branch with `needs` leaves `pending`,
a task of a branch it names, created beneath the same task of the step, is in a terminal state.
-/
namespace Acts.Spec
open Acts.Gen

structure NTask where
  tid : Nat
  nid : String
  prev : Option Nat
  state : TaskState := .none
  deriving Repr

inductive NEv where
  | new (t : NTask)
  | tr (tid : Nat) (old new : TaskState)
  deriving Repr

/-- the siblings the branch task `t` waits for: tasks created beneath the same step task whose node is named in `ns` -/
def neededSiblings (ts : List NTask) (t : NTask) (ns : List String) : List NTask :=
  ts.filter fun s => s.tid != t.tid && s.prev == t.prev && ns.contains s.nid

def needsStep (needs : List (String × List String)) (ts : List NTask) (i : Nat) : NEv → List NTask × Option (Nat × Nat)
  | .new t => (ts ++ [t], none)
  | .tr tid old new =>
    let ts' := ts.map fun t => if t.tid == tid then { t with state := new } else t
    match ts.find? (·.tid == tid) with
    | none => (ts', none)
    | some t =>
      match needs.lookup t.nid with
      | none => (ts', none)
      | some ns =>
        if old == .pending && new == .running && !(neededSiblings ts t ns).any (·.state.isCompleted) then (ts', some (i, tid))
        else (ts', none)

/-- first position (and task) at which a needs-branch left `pending` with none of its needed siblings ended -/
def needsMonitor (needs : List (String × List String)) : List NTask → Nat → List NEv → Option (Nat × Nat)
  | _, _, [] => none
  | ts, i, e :: es =>
    match needsStep needs ts i e with
    | (_, some v) => some v
    | (ts', none) => needsMonitor needs ts' (i + 1) es

def needsRun (needs : List (String × List String)) : List NTask → Nat → List NEv → List NTask
  | ts, _, [] => ts
  | ts, i, e :: es => needsRun needs (needsStep needs ts i e).1 (i + 1) es

theorem needsMonitor_none_cons (needs : List (String × List String)) (ts : List NTask) (i : Nat) (e : NEv) (es : List NEv)
    (h : needsMonitor needs ts i (e :: es) = none) :
    (needsStep needs ts i e).2 = none ∧ needsMonitor needs (needsStep needs ts i e).1 (i + 1) es = none := by
  unfold needsMonitor at h
  split at h
  · exact absurd h (by simp)
  · rename_i ts' heq
    rw [heq]
    exact ⟨rfl, h⟩

theorem needsMonitor_append (needs : List (String × List String)) (a : List NEv) : ∀ (ts : List NTask) (i : Nat) (b : List NEv),
    needsMonitor needs ts i (a ++ b) = none →
    needsMonitor needs ts i a = none ∧ needsMonitor needs (needsRun needs ts i a) (i + a.length) b = none := by
  induction a with
  | nil => intro ts i b h; simpa [needsMonitor, needsRun] using h
  | cons x xs ih =>
    intro ts i b h
    obtain ⟨h1, h2⟩ := needsMonitor_none_cons needs ts i x (xs ++ b) h
    obtain ⟨h3, h4⟩ := ih _ _ b h2
    refine ⟨?_, ?_⟩
    · unfold needsMonitor
      split
      · rename_i v heq; rw [heq] at h1; simp at h1
      · rename_i ts' heq; rw [heq] at h3; exact h3
    · simp only [needsRun, List.length_cons]
      rw [show i + (xs.length + 1) = i + 1 + xs.length by omega]
      exact h4

/-- what the monitor has checked when it lets a needs-branch leave `pending` -/
theorem needsStep_pass (needs : List (String × List String)) (ts : List NTask) (i tid : Nat) (t : NTask) (ns : List String)
    (ht : ts.find? (·.tid == tid) = some t) (hn : needs.lookup t.nid = some ns)
    (h : (needsStep needs ts i (.tr tid .pending .running)).2 = none) :
    ∃ s ∈ neededSiblings ts t ns, s.state.isCompleted = true := by
  simp only [needsStep, ht, hn] at h
  by_cases hc : (neededSiblings ts t ns).any (·.state.isCompleted) = true
  · obtain ⟨s, hs, hst⟩ := List.any_eq_true.mp hc
    exact ⟨s, hs, hst⟩
  · simp [hc] at h

end Acts.Spec
