#!/usr/bin/env python3
"""run checks against a seeded change: apply seeded/<dir>/patch.diff to /repo, run the checks, undo.
usage: python3 tools/seedcheck.py seeded/<dir> [--tier quick] [--seed N] [Cnn ...]   (default: all claimed checks)"""
import json
import os
import subprocess
import sys
import time

ROOT = os.path.dirname(os.path.dirname(os.path.abspath(__file__)))


def sh(cmd, **kw):
    return subprocess.run(cmd, shell=True, capture_output=True, text=True, **kw)


def main():
    args = sys.argv[1:]
    d = os.path.join(ROOT, args[0]) if not os.path.isabs(args[0]) else args[0]
    tier, seed, props = "quick", None, []
    i = 1
    while i < len(args):
        if args[i] == "--tier":
            tier = args[i + 1]; i += 2
        elif args[i] == "--seed":
            seed = args[i + 1]; i += 2
        else:
            props.append(args[i]); i += 1
    if not props:
        props = [c["property_id"] for c in json.load(open(os.path.join(ROOT, "MANIFEST.json")))["checks"]]
    if sh("git -C /repo status --porcelain").stdout.strip():
        print("refusing: /repo has uncommitted changes"); return 2
    r = sh(f"git -C /repo apply {os.path.join(d, 'patch.diff')}")
    if r.returncode != 0:
        print("patch does not apply:", r.stderr[:400]); return 2
    out = {}
    # the evidence files describe runs on the unchanged tree: keep them out of the way of the runs on the changed tree
    saved = {}
    for p in props:
        ep = os.path.join(ROOT, "evidence", f"{p}.json")
        if os.path.exists(ep):
            saved[ep] = open(ep).read()
    try:
        for p in props:
            t0 = time.time()
            env = dict(os.environ)
            if seed:
                env["VERIF_SEED"] = seed
            r = sh(f"python3 {ROOT}/tools/check.py {p} --tier {tier}", env=env, cwd=ROOT)
            lines = [l for l in r.stdout.splitlines() if not l.startswith("KNOWN-FINDING")]
            viol = [l for l in lines if l.startswith("VIOLATION")]
            sigs = []
            for l in viol[:6]:
                path = l.split("replay=")[1].split()[0]
                try:
                    rp = json.load(open(path))
                    sigs.append({"signature": rp.get("signature"), "what": str(rp.get("what"))[:300], "no_failing_input": l.rstrip().endswith("no-failing-input-found")})
                except Exception:
                    sigs.append({"line": l})
            out[p] = {"exit": r.returncode, "violations": len(viol), "first": sigs, "wall": round(time.time() - t0, 1),
                      "tail": (lines[-1] if lines else r.stderr[-300:])[:300]}
            print(p, "exit", r.returncode, "violations", len(viol), (sigs[0].get("signature") if sigs else ""), flush=True)
    finally:
        sh("git -C /repo checkout -- .")
        for ep, text in saved.items():
            open(ep, "w").write(text)
        left = sh("git -C /repo status --porcelain").stdout.strip()
        if left:
            print("WARNING: /repo not clean after undo:", left)
    res_path = os.path.join(d, "checks.json")
    prev = json.load(open(res_path)) if os.path.exists(res_path) else {}
    prev.setdefault(tier, {}).update(out)
    json.dump(prev, open(res_path, "w"), indent=1)
    return 0


if __name__ == "__main__":
    sys.exit(main())
