import ActsModel.Model.Expr
import ActsModel.Gen.Consts

/-!
The variable scoping rules of `scheduler/process/task.rs` (`find`, `update_data`, `set_data`) on a plain scope
chain: the task's own data first, then its ancestors, nearest first.
-/
namespace Acts.Scope
open Acts Acts.Gen

abbrev Chain := List Vars

/-- keys that never leave their task: `ACT_PRI_KEYS_REGEX` = `^(data|__).*` -/
def isPrivate (k : String) : Bool := Consts.priKeyPrefixes.any fun pre => k.startsWith pre

/-- `Task::find`: own data, then the ancestors nearest first -/
def find (c : Chain) (k : String) : Option Json := c.findSome? (·.get k)

/-- update the outermost scope of the list that holds the key (`refs.iter().rev()`, first hit) -/
def updateOutermost (anc : List Vars) (k : String) (v : Json) : List Vars :=
  match anc with
  | [] => []
  | a :: rest =>
    if rest.any (·.has k) then a :: updateOutermost rest k v
    else if a.has k then Vars.set a k v :: rest
    else a :: rest

/-- `Task::update_data` for one key -/
def update (c : Chain) (k : String) (v : Json) : Chain :=
  match c with
  | [] => []
  | self :: anc =>
    let anc' := if isPrivate k then anc else updateOutermost anc k v
    Vars.set self k v :: anc'

end Acts.Scope
