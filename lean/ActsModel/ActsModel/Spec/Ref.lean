/-!
Reference interpretation of the control-flow fragment (C01 / C03 / C04): steps, sequential acts
(irq / msg), branches guarded by a condition or `else`, conditional steps and acts.  Conditions are
already evaluated (they only read the start inputs in this fragment).  The interpretation is a
function of the workflow and of the set of interrupts answered so far — there is no schedule, no
declaration order of branches and no thread count in it.
-/
namespace Acts.Ref

inductive Guard where
  | cond (holds : Bool)
  | otherwise                    -- the `else` branch
  deriving Repr, DecidableEq

mutual
inductive RStep where
  | mk (id : String) (cond : Bool) (branches : List RBranch) (acts : List RAct)
inductive RBranch where
  | mk (id : String) (guard : Guard) (steps : List RStep)
inductive RAct where
  | irq (id : String) (cond : Bool)
  | msg (id : String) (cond : Bool)
end

def RBranch.guard : RBranch → Guard | .mk _ g _ => g
def RBranch.id : RBranch → String | .mk i _ _ => i

/-- does some condition branch of the list hold? (then the `else` branch does not run) -/
def RBranch.condHolds (b : RBranch) : Bool :=
  match b.guard with
  | .cond h => h
  | .otherwise => false

def anyCondHolds : List RBranch → Bool
  | [] => false
  | b :: bs => b.condHolds || anyCondHolds bs

abbrev Answered := String → Bool

/-! `done`: the construct, once started, has reached a terminal state.  `opens`: the interrupts it is waiting on. -/
mutual
def doneStep (a : Answered) : RStep → Bool
  | .mk _ c bs as => if !c then true else doneBranches a (anyCondHolds bs) bs && doneActs a as
def doneSteps (a : Answered) : List RStep → Bool
  | [] => true
  | s :: ss => doneStep a s && doneSteps a ss
def doneBranch (a : Answered) (someCond : Bool) : RBranch → Bool
  | .mk _ g ss =>
    match g with
    | .cond h => if h then doneSteps a ss else true
    | .otherwise => if someCond then true else doneSteps a ss
def doneBranches (a : Answered) (someCond : Bool) : List RBranch → Bool
  | [] => true
  | b :: bs => doneBranch a someCond b && doneBranches a someCond bs
def doneAct (a : Answered) : RAct → Bool
  | .irq i c => if c then a i else true
  | .msg _ _ => true
def doneActs (a : Answered) : List RAct → Bool
  | [] => true
  | x :: xs => doneAct a x && doneActs a xs
end

mutual
def opensStep (a : Answered) : RStep → List String
  | .mk _ c bs as => if !c then [] else opensBranches a (anyCondHolds bs) bs ++ opensActs a as
/-- steps of a list run one after the other: only the first unfinished one is active -/
def opensSteps (a : Answered) : List RStep → List String
  | [] => []
  | s :: ss => if doneStep a s then opensSteps a ss else opensStep a s
def opensBranch (a : Answered) (someCond : Bool) : RBranch → List String
  | .mk _ g ss =>
    match g with
    | .cond h => if h then opensSteps a ss else []
    | .otherwise => if someCond then [] else opensSteps a ss
def opensBranches (a : Answered) (someCond : Bool) : List RBranch → List String
  | [] => []
  | b :: bs => opensBranch a someCond b ++ opensBranches a someCond bs
def opensAct (a : Answered) : RAct → List String
  | .irq i c => if c && !a i then [i] else []
  | .msg _ _ => []
/-- acts of a step run one after the other -/
def opensActs (a : Answered) : List RAct → List String
  | [] => []
  | x :: xs => if doneAct a x then opensActs a xs else opensAct a x
end

structure RWorkflow where
  id : String
  steps : List RStep

def RWorkflow.done (a : Answered) (w : RWorkflow) : Bool := doneSteps a w.steps
def RWorkflow.opens (a : Answered) (w : RWorkflow) : List String := opensSteps a w.steps

end Acts.Ref

namespace Acts.Ref

/-- a branch whose condition holds and whose steps are all done (the engine decides the `else` branch only then) -/
def holdingDone (a : Answered) : RBranch → Bool
  | .mk _ (.cond true) ss => doneSteps a ss
  | _ => false

def anyHoldingDone (a : Answered) : List RBranch → Bool
  | [] => false
  | b :: bs => holdingDone a b || anyHoldingDone a bs

/-! the nodes that have started, with the state the interpretation assigns to them.  The `else` branch is `pending` while a
sibling whose condition holds is still running and `skipped` once such a sibling has finished (the code decides it then). -/
mutual
def statesStep (a : Answered) : RStep → List (String × String)
  | .mk i c bs as =>
    if !c then [(i, "skipped")]
    else (i, if doneBranches a (anyCondHolds bs) bs && doneActs a as then "completed" else "running") ::
      (statesBranches a (anyCondHolds bs) (anyHoldingDone a bs) bs ++ statesActs a as)
def statesSteps (a : Answered) : List RStep → List (String × String)
  | [] => []
  | s :: ss => statesStep a s ++ (if doneStep a s then statesSteps a ss else [])
def statesBranch (a : Answered) (someCond someDone : Bool) : RBranch → List (String × String)
  | .mk i g ss =>
    match g with
    | .cond h =>
      if !h then [(i, "skipped")] else (i, if doneSteps a ss then "completed" else "running") :: statesSteps a ss
    | .otherwise =>
      if someCond then [(i, if someDone then "skipped" else "pending")]
      else (i, if doneSteps a ss then "completed" else "running") :: statesSteps a ss
def statesBranches (a : Answered) (someCond someDone : Bool) : List RBranch → List (String × String)
  | [] => []
  | b :: bs => statesBranch a someCond someDone b ++ statesBranches a someCond someDone bs
def statesAct (a : Answered) : RAct → List (String × String)
  | .irq i c => [(i, if !c then "skipped" else if a i then "completed" else "interrupted")]
  | .msg i c => [(i, if !c then "skipped" else "completed")]
def statesActs (a : Answered) : List RAct → List (String × String)
  | [] => []
  | x :: xs => statesAct a x ++ (if doneAct a x then statesActs a xs else [])
end

def RWorkflow.states (a : Answered) (w : RWorkflow) : List (String × String) :=
  (w.id, if doneSteps a w.steps then "completed" else "running") :: statesSteps a w.steps

end Acts.Ref
