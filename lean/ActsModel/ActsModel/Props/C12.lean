import ActsModel.Gen.Reload
import ActsModel.Gen.Fields

/-!
# C12 — Restart / reload transparency at quiescent points
Proof-level content: everything the scheduler reads of a task or a process is written to its row and read
back on reload (K1 over the translated `into_data` / `load_tasks` / `load_proc` field lists), and both back
ends keep these columns (C10).  That a continued run is indistinguishable from the uninterrupted one is
decided by running both on the engine (eviction on the in-memory store, restart on SQLite) and comparing
everything observable after the cut.
-/
namespace Acts.C12
open Acts.Gen

/-- what `step` reads of a task: its state, predecessor link, data, error, registered hooks, times, creation stamp and node -/
def taskStateRead : List String := ["state", "prev", "data", "err", "hooks", "start_time", "end_time", "timestamp", "node_data", "tid"]

/-- K1: each of them is written by `Task::into_data` … -/
theorem task_state_written : ∀ f ∈ taskStateRead, f ∈ taskFieldsWritten := by decide

/-- K1: … is a column of the task record … -/
theorem task_state_is_a_column : ∀ f ∈ taskStateRead, f ∈ recordFields .tasks := by decide

/-- K1: … and is read back by `load_tasks` -/
theorem task_state_restored : ∀ f ∈ taskStateRead, f ∈ taskFieldsRestored := by decide

/-- K1: of a process the state, the error, the env and the model are written and read back -/
theorem proc_state_roundtrip : ∀ f ∈ ["state", "err", "env", "model"], f ∈ procFieldsWritten ∧ f ∈ procFieldsRestored ∧ f ∈ recordFields .procs := by
  decide

/-- K1: a stored node is re-bound by id to the rebuilt tree (so links of static nodes come from the model, not from the row) -/
theorem node_rebinding : nodeRebindsById = true := by decide

/-- W (documented limitation of `load_proc`, outside the property's observables): the end time and the creation stamp of a
process are not restored by a lazy reload -/
theorem proc_end_time_not_restored : "end_time" ∉ procFieldsRestored ∧ "timestamp" ∉ procFieldsRestored := by decide

-- ------------------------------------------------------------------ nodes built at run time (generated acts)

/-- links between run-time nodes -/
inductive Link where
  | child (node builder : String)
  | next (node follower : String)
  deriving DecidableEq, Repr

/-- `dyn_build_act` over the acts of one builder: in a sequence the first node hangs below the builder and every later one
follows its predecessor; in parallel all hang below the builder (shape read from the source: `dynBuildShape`) -/
def buildLinks (builder : String) (seq : Bool) : Option String → List String → List Link
  | _, [] => []
  | none, n :: ns => .child n builder :: buildLinks builder seq (some n) ns
  | some p, n :: ns => (if seq then .next p n else .child n builder) :: buildLinks builder seq (some n) ns

/-- what `Node::data` stores per built node: its id and whether it is chained (no parent link of its own, a predecessor) -/
def describe (seq : Bool) : Option String → List String → List (String × Bool)
  | _, [] => []
  | none, n :: ns => (n, false) :: describe seq (some n) ns
  | some _, n :: ns => (n, seq) :: describe seq (some n) ns

/-- `restore_nodes`: a chained node becomes the `next` of the previously restored one, any other a child of the builder -/
def restoreLinks (builder : String) : Option String → List (String × Bool) → List Link
  | _, [] => []
  | none, (n, _) :: ns => .child n builder :: restoreLinks builder (some n) ns
  | some p, (n, c) :: ns => (if c then .next p n else .child n builder) :: restoreLinks builder (some n) ns

/-- **Run-time nodes round-trip** (K3: every builder, both modes, every list of generated nodes): what a reload rebuilds
from the stored description is linked exactly as it was built. -/
theorem runtime_nodes_roundtrip (builder : String) (seq : Bool) (prev : Option String) (ns : List String) :
    restoreLinks builder prev (describe seq prev ns) = buildLinks builder seq prev ns := by
  induction ns generalizing prev with
  | nil => cases prev <;> rfl
  | cons n ns ih => cases prev <;> simp [describe, restoreLinks, buildLinks, ih]

/-- the stored description keeps every node, in order -/
theorem describe_ids (seq : Bool) (prev : Option String) (ns : List String) : (describe seq prev ns).map (·.1) = ns := by
  induction ns generalizing prev with
  | nil => cases prev <;> rfl
  | cons n ns ih => cases prev <;> simp [describe, ih]

/-- K1: the source has this shape on both sides, stores `nodes` and `chained`, and writes the builder's row after building -/
theorem runtime_nodes_tables : dynBuildShape = true ∧ restoreRelinks = true ∧ buildActsPersists = true ∧
    "nodes" ∈ storedNodeFields ∧ "chained" ∈ storedNodeFields := by decide

example : buildLinks "a1" true none ["b1", "b2", "b3"] = [.child "b1" "a1", .next "b1" "b2", .next "b2" "b3"] := by decide

end Acts.C12
