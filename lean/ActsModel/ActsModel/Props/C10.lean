import ActsModel.Gen.Fields
import ActsModel.Lemmas.Store

/-!
# C10 — Store contract: faithful records and one query semantics on every back end
-/
namespace Acts.C10
open Acts.Gen Acts.Store

/-- a record as a function from field name to value -/
abbrev Rec := String → Val

-- ------------------------------------------------------------------ mapper round trips (K1 + refinement)

/-- the in-memory document written for a record: key ↦ value of the mapped field -/
def memWrite (c : Coll) (r : Rec) : String → Option Val := fun k => ((memDoc c).lookup k).map r
/-- serde reads every record field from the key of the same name; a missing key of an `Option` field reads as null -/
def memRead (_c : Coll) (d : String → Option Val) : Rec := fun f => (d f).getD .null

/-- K1 (translator): every field of every record is written by the in-memory mapper under its own name -/
theorem mem_fields_complete : ∀ c ∈ Coll.all, ∀ f ∈ recordFields c, (memDoc c).lookup f = some f := by
  decide

/-- find ∘ create is the identity on every field, in-memory back end -/
theorem mem_find_create (c : Coll) (r : Rec) (f : String) (hf : f ∈ recordFields c) :
    memRead c (memWrite c r) f = r f := by
  have hc : c ∈ Coll.all := by cases c <;> decide
  simp [memRead, memWrite, mem_fields_complete c hc f hf]

/-- the SQLite row written by `create` (column ↦ value of the bound field) and by `update` -/
def sqlInsertRow (c : Coll) (r : Rec) : String → Option Val := fun col => ((sqlInsert c).lookup col).map r
def sqlUpdateRow (c : Coll) (old : String → Option Val) (r : Rec) : String → Option Val :=
  fun col => match (sqlUpdate c).lookup col with
    | some f => some (r f)
    | none => old col
/-- `from_row`: field ↦ value of the column it reads -/
def sqlRead (c : Coll) (row : String → Option Val) : Rec :=
  fun f => match (sqlFromRow c).lookup f with
    | some col => (row col).getD .null
    | none => .null

/-- K1 (translator): every field is read from the column that `create` binds to the same field, and every field
but the key is rewritten by `update` through the same column -/
theorem sql_rowmap_identity : ∀ c ∈ Coll.all, ∀ f ∈ recordFields c,
    ∃ col, (sqlFromRow c).lookup f = some col ∧ (sqlInsert c).lookup col = some f ∧
      (f = "id" ∨ (sqlUpdate c).lookup col = some f) := by
  decide

theorem sql_find_create (c : Coll) (r : Rec) (f : String) (hf : f ∈ recordFields c) :
    sqlRead c (sqlInsertRow c r) f = r f := by
  have hc : c ∈ Coll.all := by cases c <;> decide
  obtain ⟨col, h1, h2, _⟩ := sql_rowmap_identity c hc f hf
  simp [sqlRead, sqlInsertRow, h1, h2]

/-- update replaces every field except the key -/
theorem sql_find_update (c : Coll) (old : String → Option Val) (r : Rec) (f : String) (hf : f ∈ recordFields c)
    (hid : f ≠ "id") : sqlRead c (sqlUpdateRow c old r) f = r f := by
  have hc : c ∈ Coll.all := by cases c <;> decide
  obtain ⟨col, h1, _, h3⟩ := sql_rowmap_identity c hc f hf
  rcases h3 with h3 | h3
  · exact absurd h3 hid
  · simp [sqlRead, sqlUpdateRow, h1, h3]

/-- `update` never rebinds the key column -/
theorem sql_update_keeps_id : ∀ c ∈ Coll.all, (sqlUpdate c).lookup "id" = none := by decide

-- ------------------------------------------------------------------ query = page ∘ sort ∘ filter

/-- well-formed query: every AND/OR group has at least one expression (`ExecutorQuery::into_query` never builds
an empty group; an empty group is rejected by the generator) -/
def _root_.Acts.Store.Query.WF (q : Query) : Prop := ∀ c ∈ q.conds, c.exprs ≠ []

/-- K4: the accumulation of id sets in `collect.rs` selects exactly the records that satisfy the filter -/
theorem mem_filter_eq_spec (db : List Row) (hnd : (db.map (·.id)).Nodup) (q : Query) (hq : q.WF) :
    memFilter db q = specFilter db q := by
  unfold memFilter specFilter
  by_cases he : q.conds = []
  · simp only [he, List.isEmpty_nil, ↓reduceIte]
    exact (List.filter_eq_self.mpr (by intro a _; simp [Query.holds, he])).symm
  · have : q.conds.isEmpty = false := by cases h : q.conds <;> simp_all
    simp only [this, Bool.false_eq_true, ↓reduceIte]
    apply List.filter_congr
    intro r hr
    exact contains_querySet db hnd q he hq r hr

theorem mem_query_eq_spec (db : List Row) (hnd : (db.map (·.id)).Nodup) (q : Query) (hq : q.WF) :
    memQuery db q = specQuery db q := by
  unfold memQuery specQuery; rw [mem_filter_eq_spec db hnd q hq]

/-- every selected record satisfies the filter and every record that satisfies it is selected -/
theorem spec_filter_iff (db : List Row) (q : Query) (r : Row) :
    r ∈ specFilter db q ↔ r ∈ db ∧ q.holds r = true := by
  simp [specFilter, List.mem_filter]

/-- sorting only permutes -/
theorem sort_perm (order : List (String × Bool)) (rows : List Row) : (sortRows order rows).Perm rows := by
  unfold sortRows; split
  · exact List.Perm.refl _
  · exact List.mergeSort_perm _ _

/-- the count reported with a page is the number of records that satisfy the filter, whatever the window -/
theorem count_is_total (db : List Row) (q : Query) : (specQuery db q).count = (specFilter db q).length := by
  simp [specQuery, page, (sort_perm q.order _).length_eq]

/-- the rows of a page are the window [offset, offset + limit) of the ordered result -/
theorem page_is_window (db : List Row) (q : Query) :
    (specQuery db q).rows = ((sortRows q.order (specFilter db q)).drop q.offset).take q.lim := rfl

theorem page_rows_le_limit (db : List Row) (q : Query) : (specQuery db q).rows.length ≤ q.lim := by
  simp [specQuery, page, List.length_take]; omega

theorem page_rows_subset (db : List Row) (q : Query) (r : Row) (h : r ∈ (specQuery db q).rows) :
    r ∈ db ∧ q.holds r = true := by
  have h1 : r ∈ sortRows q.order (specFilter db q) := List.mem_of_mem_drop (List.mem_of_mem_take h)
  exact (spec_filter_iff db q r).mp ((sort_perm _ _).mem_iff.mp h1)

/-- numbers are ordered numerically (the defect of the text comparison: "10" < "9") -/
theorem cmp_numeric (a b : Int) : Val.cmp (.int a) (.int b) = compare a b := rfl
example : Val.cmp (.int 9) (.int 10) = .lt := by decide

-- ------------------------------------------------------------------ CRUD on the keyed collection

theorem find_update (db : List Row) (r : Row) (h : (find db r.id).isSome) : find (update db r) r.id = some r := by
  induction db with
  | nil => simp [find] at h
  | cons x xs ih =>
    by_cases hx : (x.id == r.id) = true
    · have hx2 : x.id = r.id := by simpa using hx
      simp [update, find, List.find?_cons, hx2]
    · have hx' : (x.id == r.id) = false := by simpa using hx
      have h' : (find xs r.id).isSome := by simpa [find, List.find?_cons, hx'] using h
      have := ih h'
      simp only [update, find, List.map_cons, hx', Bool.false_eq_true, ↓reduceIte, List.find?_cons] at this ⊢
      exact this

theorem find_delete (db : List Row) (id : String) : find (delete db id) id = none := by
  simp [find, delete, List.find?_eq_none]

theorem delete_frame (db : List Row) (id other : String) (h : other ≠ id) :
    find (delete db id) other = find db other := by
  induction db with
  | nil => rfl
  | cons x xs ih =>
    unfold delete find at *
    by_cases hx : x.id = id
    · have : (x.id != id) = false := by simp [hx]
      have hne : (x.id == other) = false := by simp [hx]; exact fun h' => h h'.symm
      simp only [List.filter_cons, this, Bool.false_eq_true, ↓reduceIte, List.find?_cons, hne]
      exact ih
    · have : (x.id != id) = true := by simpa using hx
      simp only [List.filter_cons, this, ↓reduceIte, List.find?_cons]
      cases (x.id == other) <;> simp [ih]

theorem update_frame (db : List Row) (r : Row) (other : String) (h : other ≠ r.id) :
    (find (update db r) other).map (·.id) = (find db other).map (·.id) ∧
    (∀ x, find db other = some x → find (update db r) other = some x) := by
  induction db with
  | nil => simp [find, update]
  | cons x xs ih =>
    unfold update find at *
    by_cases hx : (x.id == r.id) = true
    · have hxo : (x.id == other) = false := by
        have : x.id = r.id := by simpa using hx
        simp [this]; exact fun h' => h h'.symm
      have hro : (r.id == other) = false := by simp; exact fun h' => h h'.symm
      simp only [List.map_cons, hx, ↓reduceIte, List.find?_cons, hro, hxo]
      exact ih
    · have hx' : (x.id == r.id) = false := by simpa using hx
      simp only [List.map_cons, hx', Bool.false_eq_true, ↓reduceIte, List.find?_cons]
      cases hxo : (x.id == other)
      · simpa using ih
      · simp

theorem find_create (db : List Row) (r : Row) : find (create db r) r.id = some r := by
  induction db with
  | nil => simp [create, insertSorted, find]
  | cons x xs ih =>
    unfold create insertSorted find
    split
    · simp
    · split
      · simp
      · rename_i h1 h2
        have : (x.id == r.id) = false := by
          simp at h2 ⊢; exact fun h' => h2 h'.symm
        simp only [List.find?_cons, this]
        exact ih

/-- non-vacuity: a concrete three-record collection on which an AND group whose first expression matches nothing
selects nothing (the widening defect would select record "b") -/
def exDb : List Row :=
  [⟨"a", [("id", .str "a"), ("status", .int 1), ("t", .int 5)]⟩,
   ⟨"b", [("id", .str "b"), ("status", .int 1), ("t", .int 1)]⟩,
   ⟨"c", [("id", .str "c"), ("status", .int 2), ("t", .int 9)]⟩]
def exQ : Query := ⟨[⟨true, [⟨.eq, "status", .int 0⟩, ⟨.lt, "t", .int 3⟩]⟩], [], 0, 10⟩
example : (exDb.map (·.id)).Nodup ∧ exQ.WF := by
  refine ⟨by decide, ?_⟩
  intro c hc; simp [exQ] at hc; subst hc; simp
example : (memQuery exDb exQ).rows = [] := by decide

end Acts.C10
