import ActsModel.Spec.Ref

/-!
# C04 — Control flow conforms to the YAML: order, branch selection, skips
The reference interpretation `Spec/Ref.lean` is a function of the workflow, the condition values
and the answered set only — `deterministic` is true by construction (no schedule or thread-count
argument exists).  The theorems below are the laws the property names; the engine is compared with
the interpretation node by node at every quiescent point, under every release order the harness draws.
-/
namespace Acts.C04
open Acts.Ref

/-- the declaration order of the branches of a step does not matter: whether some condition holds … -/
theorem anyCondHolds_perm {bs bs' : List RBranch} (h : bs.Perm bs') : anyCondHolds bs = anyCondHolds bs' := by
  induction h with
  | nil => rfl
  | cons b _ ih => simp [anyCondHolds, ih]
  | swap b c l => simp only [anyCondHolds]; cases c.condHolds <;> cases b.condHolds <;> simp
  | trans _ _ ih1 ih2 => exact ih1.trans ih2

theorem doneBranches_perm_aux (a : Answered) (sc : Bool) {bs bs' : List RBranch} (h : bs.Perm bs') :
    doneBranches a sc bs = doneBranches a sc bs' := by
  induction h with
  | nil => rfl
  | cons b _ ih => simp [doneBranches, ih]
  | swap b c l => simp only [doneBranches]; cases doneBranch a sc c <;> cases doneBranch a sc b <;> simp
  | trans _ _ ih1 ih2 => exact ih1.trans ih2

theorem opensBranches_perm_aux (a : Answered) (sc : Bool) {bs bs' : List RBranch} (h : bs.Perm bs') :
    (opensBranches a sc bs).Perm (opensBranches a sc bs') := by
  induction h with
  | nil => exact List.Perm.refl _
  | cons b _ ih => simp only [opensBranches]; exact List.Perm.append_left _ ih
  | swap b c l =>
    simp only [opensBranches]
    rw [← List.append_assoc, ← List.append_assoc]
    exact List.Perm.append_right _ List.perm_append_comm
  | trans _ _ ih1 ih2 => exact ih1.trans ih2

theorem anyHoldingDone_perm (a : Answered) {bs bs' : List RBranch} (h : bs.Perm bs') :
    anyHoldingDone a bs = anyHoldingDone a bs' := by
  induction h with
  | nil => rfl
  | cons b _ ih => simp [anyHoldingDone, ih]
  | swap b c l => simp only [anyHoldingDone]; cases holdingDone a c <;> cases holdingDone a b <;> simp
  | trans _ _ ih1 ih2 => exact ih1.trans ih2

theorem statesBranches_perm_aux (a : Answered) (sc sd : Bool) {bs bs' : List RBranch} (h : bs.Perm bs') :
    (statesBranches a sc sd bs).Perm (statesBranches a sc sd bs') := by
  induction h with
  | nil => exact List.Perm.refl _
  | cons b _ ih => simp only [statesBranches]; exact List.Perm.append_left _ ih
  | swap b c l =>
    simp only [statesBranches]
    rw [← List.append_assoc, ← List.append_assoc]
    exact List.Perm.append_right _ List.perm_append_comm
  | trans _ _ ih1 ih2 => exact ih1.trans ih2

/-- **the result does not depend on the declaration order of branches**: permuting the branches of a step changes neither
whether the step is finished, nor (up to order) the interrupts it waits on, nor the nodes that ran and their states -/
theorem perm_branches (a : Answered) (i : String) (c : Bool) (as : List RAct) {bs bs' : List RBranch} (h : bs.Perm bs') :
    doneStep a (.mk i c bs as) = doneStep a (.mk i c bs' as) ∧
    (opensStep a (.mk i c bs as)).Perm (opensStep a (.mk i c bs' as)) ∧
    (statesStep a (.mk i c bs as)).Perm (statesStep a (.mk i c bs' as)) := by
  have hc := anyCondHolds_perm h
  have hd := doneBranches_perm_aux a (anyCondHolds bs) h
  refine ⟨?_, ?_, ?_⟩
  · simp only [doneStep]; rw [← hc, hd]
  · simp only [opensStep]
    cases c with
    | false => exact List.Perm.refl _
    | true =>
      simp only [Bool.not_true, Bool.false_eq_true, ↓reduceIte]
      rw [← hc]
      exact List.Perm.append_right _ (opensBranches_perm_aux a _ h)
  · simp only [statesStep]
    cases c with
    | false => exact List.Perm.refl _
    | true =>
      simp only [Bool.not_true, Bool.false_eq_true, ↓reduceIte]
      rw [← hc, hd, ← anyHoldingDone_perm a h]
      exact List.Perm.cons _ (List.Perm.append_right _ (statesBranches_perm_aux a _ _ h))

/-- **the else branch runs iff no sibling condition held** -/
theorem else_iff (a : Answered) (someCond someDone : Bool) (i : String) (ss : List RStep) :
    statesBranch a someCond someDone (.mk i .otherwise ss) =
      if someCond then [(i, if someDone then "skipped" else "pending")]
      else (i, if doneSteps a ss then "completed" else "running") :: statesSteps a ss := by
  cases someCond <;> simp [statesBranch]

/-- in particular nothing beneath the else branch ever starts when a sibling condition held -/
theorem else_never_starts (a : Answered) (someDone : Bool) (i : String) (ss : List RStep) :
    (statesBranch a true someDone (.mk i .otherwise ss)).length = 1 := by
  simp [statesBranch]

/-- every branch whose condition holds runs (its steps are started); one whose condition fails is skipped and nothing
beneath it starts -/
theorem cond_branch_runs (a : Answered) (sc sd h : Bool) (i : String) (ss : List RStep) :
    statesBranch a sc sd (.mk i (.cond h) ss) =
      if h then (i, if doneSteps a ss then "completed" else "running") :: statesSteps a ss else [(i, "skipped")] := by
  cases h <;> simp [statesBranch]

/-- **a step starts only after its predecessor is terminal**: while a step of a list is unfinished, nothing of the later
steps has started and only it can be waiting -/
theorem step_order (a : Answered) (s : RStep) (ss : List RStep) (h : doneStep a s = false) :
    statesSteps a (s :: ss) = statesStep a s ∧ opensSteps a (s :: ss) = opensStep a s := by
  simp [statesSteps, opensSteps, h]

/-- and once it is finished the successor is started (a skipped step hands over as well) -/
theorem step_successor (a : Answered) (s : RStep) (ss : List RStep) (h : doneStep a s = true) :
    statesSteps a (s :: ss) = statesStep a s ++ statesSteps a ss := by
  simp [statesSteps, h]

/-- **acts of a step run one after another** -/
theorem acts_sequential (a : Answered) (x : RAct) (xs : List RAct) (h : doneAct a x = false) :
    statesActs a (x :: xs) = statesAct a x ∧ opensActs a (x :: xs) = opensAct a x := by
  simp [statesActs, opensActs, h]

/-- a conditional step or act whose condition fails is skipped, and the flow continues behind it -/
theorem skipped_step_continues (a : Answered) (i : String) (bs : List RBranch) (as : List RAct) (ss : List RStep) :
    statesSteps a (.mk i false bs as :: ss) = (i, "skipped") :: statesSteps a ss := by
  simp [statesSteps, statesStep, doneStep]

theorem skipped_act_continues (a : Answered) (i : String) (xs : List RAct) :
    statesActs a (.irq i false :: xs) = (i, "skipped") :: statesActs a xs := by
  simp [statesActs, statesAct, doneAct]

/-- non-vacuity: permuting the three branches of the example leaves the outcome unchanged -/
example : (statesStep (fun i => i == "a1") (.mk "s1" true [.mk "b3" .otherwise [], .mk "b1" (.cond true) [.mk "s2" true [] [.irq "a1" true]],
    .mk "b2" (.cond false) []] [])).Perm
    (statesStep (fun i => i == "a1") (.mk "s1" true [.mk "b1" (.cond true) [.mk "s2" true [] [.irq "a1" true]], .mk "b2" (.cond false) [],
    .mk "b3" .otherwise []] [])) :=
  (perm_branches _ "s1" true [] ((List.Perm.swap _ _ _).trans (List.Perm.cons _ (List.Perm.swap _ _ _)))).2.2

end Acts.C04
