/-!
JSON values as the engine sees them (`serde_json::Value` without `preserve_order`: object keys sorted).
A double is either an integral value that a double represents exactly (`exact z`, |z| ≤ 2^53) or an
opaque payload that is only ever copied (`other bits`).
-/
namespace Acts

inductive F64 where
  | exact (z : Int)
  | other (bits : Nat)
  deriving DecidableEq, Repr, Inhabited

inductive Json where
  | null
  | bool (b : Bool)
  | int (z : Int)
  | flt (f : F64)
  | str (s : String)
  | arr (xs : List Json)
  | obj (kvs : List (String × Json))
  deriving Repr, Inhabited

abbrev Vars := List (String × Json)

def safeBound : Int := 9007199254740992   -- 2^53

end Acts
