import Lean.Data.Json
open Lean

namespace Acts.Driver

def jstr (j : Json) (k : String) : String := (j.getObjValAs? String k).toOption.getD ""
def jnat (j : Json) (k : String) : Nat := (j.getObjValAs? Nat k).toOption.getD 0
def jint (j : Json) (k : String) : Int := (j.getObjValAs? Int k).toOption.getD 0
def jbool (j : Json) (k : String) : Bool := (j.getObjValAs? Bool k).toOption.getD false
def jarr (j : Json) (k : String) : Array Json :=
  match j.getObjVal? k with
  | .ok (.arr a) => a
  | _ => #[]
def jget (j : Json) (k : String) : Json := (j.getObjVal? k).toOption.getD Json.null
def asStr (j : Json) : String := match j with | .str s => s | _ => ""
def asArr (j : Json) : Array Json := match j with | .arr a => a | _ => #[]
def asNat (j : Json) : Nat := (j.getNat?).toOption.getD 0
def asInt (j : Json) : Int := (j.getInt?).toOption.getD 0
def optNat : Option Nat → Json | some n => Json.num n | none => Json.null

end Acts.Driver
