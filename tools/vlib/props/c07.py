"""C07 — data flow: inputs, act outputs and workflow outputs follow the scoping rules"""
import copy
import json

from .. import gen, opcorr
from ..core import obs_of
from ..rng import Rng

ASSUMPTIONS = [
    "writers are transform.set acts and client options on interrupts with declared outputs; readers are conditions, message inputs/outputs and the terminal event; "
    "`code` scripts and {{template}} readers are covered by C14 and are not part of this operational fragment",
    "each generated name is declared (held) by at most one enclosing scope, as the property's quantifier says",
]

NAMES = ["n1", "n2", "n3", "n4"]


class DataGen:
    """set / irq fragment with names declared at exactly one enclosing scope"""

    def __init__(self, rng):
        self.rng = rng
        self.n = {"s": 0, "b": 0, "a": 0}
        self.exprs = {}
        self.free = list(NAMES)       # names not yet declared on the current path
        self.val = 10

    def fresh(self, k):
        self.n[k] += 1
        return f"{k}{self.n[k]}"

    def value(self):
        self.val += 1
        return self.val

    def declare(self, node, avail):
        """declare some not-yet-declared names as inputs of this node; returns the names now in scope"""
        r = self.rng
        mine = []
        for nm in list(avail["free"]):
            if r.chance(1, 4):
                mine.append(nm)
        if mine:
            node["inputs"] = {nm: r.pick([0, None, self.value()]) for nm in mine}
        return {"free": [x for x in avail["free"] if x not in mine], "scope": avail["scope"] + mine}

    def cond(self, scope):
        if not scope:
            return None
        nm = self.rng.pick(scope)
        e = ["bin", self.rng.pick(["==", "!=", ">", "<"]), ["var", nm], ["lit", self.rng.pick([0, 11, 12, 13, 14, 20])]]
        # an unset (null) name compares with a number: keep to ==/!= then
        e[1] = self.rng.pick(["==", "!="])
        text = gen.js(e)
        self.exprs[text] = e
        return text

    def act(self, av):
        r = self.rng
        k = r.below(10)
        a = {"id": self.fresh("a")}
        scope = av["scope"]
        if k < 4 and scope:
            a["uses"] = gen.SET
            params = {r.pick(scope): self.value()}
            if r.chance(1, 4):
                params["__p" + a["id"]] = self.value()
            if r.chance(1, 5):
                params["data"] = self.value()
            if r.chance(1, 5):
                params["loose" + a["id"]] = self.value()      # a name nobody declares: stays on the act (and is exposed to the next task)
            a["params"] = params
        elif k < 8:
            a["uses"] = gen.IRQ
            a["key"] = "k" + a["id"]
            if scope and r.chance(2, 3):
                a["outputs"] = {r.pick(scope): None}
        else:
            a["uses"] = gen.MSG
            a["key"] = "k" + a["id"]
        if r.chance(1, 5):
            c = self.cond(scope)
            if c:
                a["if"] = c
        return a

    def step(self, depth, av):
        r = self.rng
        s = {"id": self.fresh("s")}
        av = self.declare(s, av)
        if r.chance(1, 6):
            c = self.cond(av["scope"])
            if c:
                s["if"] = c
        if depth > 0 and r.chance(1, 3):
            brs = []
            for _ in range(r.range(1, 2)):
                b = {"id": self.fresh("b"), "if": "true"}
                self.exprs["true"] = ["lit", True]
                bav = self.declare(b, av)
                b["steps"] = [self.step(depth - 1, bav) for _ in range(r.range(1, 2))]
                brs.append(b)
            s["branches"] = brs
        else:
            s["acts"] = [self.act(av) for _ in range(r.range(1, 3))]
        # no `outputs` on steps/branches: a declared output is copied into the direct children as an input and would make them
        # second holders of the name (outside the property's at-most-one-holder quantifier; see theorem farthest_wins)
        return s

    def workflow(self, mid):
        w = {"id": mid}
        av = self.declare(w, {"free": list(NAMES), "scope": []})
        w["steps"] = [self.step(2, av) for _ in range(self.rng.range(1, 3))]
        outs = {nm: None for nm in NAMES if self.rng.chance(1, 2)}
        if outs:
            w["outputs"] = outs
        return w


def interleave_scenario(seed, i):
    """two branches write one root-declared name in turn, with values from a pool of two: an act that inherited a copy of the name from its
    predecessor writes that very value back after the other branch has changed the scope (1, 2, 1 on the scope ends as 1)"""
    rng = Rng(seed * 961748927 + i)
    nm = rng.pick(NAMES)
    mk = lambda aid, out: dict({"id": aid, "uses": gen.IRQ, "key": "k" + aid}, **({"outputs": {nm: None}} if out else {}))
    n1 = rng.range(2, 4)
    b1 = {"id": "b1", "if": "true", "steps": [{"id": "s1", "acts": [mk(f"p{j}", j < n1 - 1 or rng.chance(1, 2)) for j in range(n1)]}]}
    b2 = {"id": "b2", "if": "true", "steps": [{"id": "s2", "acts": [mk(f"q{j}", True) for j in range(rng.range(1, 3))]}]}
    w = {"id": "m1", "inputs": {nm: 0}, "outputs": {nm: None}, "steps": [{"id": "s0", "branches": [b1, b2]}]}
    ops = [["deploy", 0], ["start", "m1", {"pid": "p1"}]]
    pool = [rng.range(101, 150), rng.range(151, 199)]
    for _ in range(8):
        ops.append(["runall", rng.pick(["fifo", "lifo"]), rng.below(1 << 30)])
        ops.append(["act", "next", "p1", {"open": rng.below(2)}, {nm: rng.pick(pool)}])
    ops.append(["runall"])
    return {"id": f"c07-{seed}-{i}-interleave", "config": {"keep": True, "dump_each": True}, "models": [w], "ops": ops, "exprs": {"true": ["lit", True]}, "two": False}


def gen_scenario(seed, i):
    if i % 10 == 7:
        return interleave_scenario(seed, i)
    rng = Rng(seed * 961748927 + i)
    g = DataGen(rng.fork("wf"))
    w = g.workflow("m1")
    two = rng.chance(1, 3)
    # start values for some names (declared with another default by the model, or not declared at all)
    sv = {nm: 500 + j for j, nm in enumerate(NAMES) if rng.chance(1, 3)}
    ops = [["deploy", 0], ["start", "m1", dict({"pid": "p1"}, **sv)]]
    if two:
        ops.append(["start", "m1", {"pid": "p2", "n1": 777}])
    val = 100
    for _ in range(12):
        ops.append(["runall", rng.pick(["fifo", "lifo"]), rng.below(1 << 30)])
        val += 1
        pid = "p2" if two and rng.chance(1, 3) else "p1"
        mark = val if pid == "p1" else 7000 + val
        opts = {nm: mark for nm in NAMES if rng.chance(3, 4)}
        opts["extra"] = mark
        if rng.chance(1, 4):
            opts["__secret"] = mark
        ops.append(["act", rng.weighted([("next", 15), ("skip", 2), ("submit", 2)]), pid, {"open": rng.below(3)}, opts])
    ops.append(["runall"])
    if i % 6 == 4:
        # the process is dropped from the cache at quiescent points: what was written — also a write that reached two holders — comes
        # back from the rows
        out = []
        for op in ops:
            out.append(op)
            if op[0] == "runall" and rng.chance(1, 2):
                out.append(["evict", "p1"])
        ops = out
    return {"id": f"c07-{seed}-{i}", "config": {"keep": True, "dump_each": True}, "models": [w], "ops": ops, "exprs": g.exprs, "two": two}


def node_decl(w):
    """nid -> declared outputs / input names"""
    out = {}

    def walk(x):
        if isinstance(x, dict):
            if "id" in x:
                out[x["id"]] = {"outputs": list((x.get("outputs") or {}).keys()), "inputs": list((x.get("inputs") or {}).keys())}
            for v in x.values():
                walk(v)
        elif isinstance(x, list):
            for v in x:
                walk(v)
    walk(w)
    return out


def ancestors(dump, tid):
    tasks = {t["tid"]: t for t in dump["tasks"]}
    out = []
    t = tid
    while t in tasks:
        lvl = tasks[t]["level"]
        p = tasks[t]["prev"]
        par = None
        while p is not None and p in tasks:
            if tasks[p]["level"] < lvl:
                par = p
                break
            p = tasks[p]["prev"]
        if par is None:
            break
        out.append(par)
        t = par
    return out


def run(ctx):
    ctx.check_theorems("ActsModel.Props.C07")
    n = 500 if ctx.tier == "quick" else 6000
    scs = [gen_scenario(ctx.seed, i) for i in range(n)]
    results = ctx.harness("run", scs)
    models = ctx.driver([opcorr.model_request(sc) for sc in scs], tag="dm")
    stats = {"writes_by_action": 0, "holder_updates": 0, "private_writes": 0, "two_process": 0, "terminal_events": 0, "op_model_agree": 0}
    for sc, res, mod in zip(scs, results, models):
        ctx.cov["evaluations"] += 1
        if res.get("panic") or res.get("crashed"):
            ctx.violation("C07|engine-panic", f"engine panicked: {str(res.get('panic'))[:100]}", {"scenario": sc})
            continue
        decl = node_decl(sc["models"][0])
        by_op = {st["op"]: st["obs"] for st in res.get("steps", [])}
        prev = {}
        bad = None
        if sc["two"]:
            stats["two_process"] += 1
        for i, op in enumerate(sc["ops"]):
            obs = by_op.get(i)
            if obs is None:
                break
            dumps = {o["pid"]: o for o in obs if o.get("k") == "dump" and not o.get("absent")}
            # (0) a value given at start is the value of that name in the root scope, whatever default the model declares:
            #     read off the inputs the root reports when it is created (before any act can write)
            for o in obs:
                if o.get("k") == "gen" and o.get("type") == "workflow" and o.get("state") == "created":
                    sop = next((x for x in sc["ops"] if x[0] == "start" and x[2].get("pid") == o["pid"]), None)
                    if sop:
                        for k, v in sop[2].items():
                            if k != "pid" and (o.get("inputs") or {}).get(k) != v:
                                bad = ("start-value-lost", f"op {i}: {o['pid']} was started with {k}={v} but its root scope starts with {(o.get('inputs') or {}).get(k)}")
                        stats["start_values"] = stats.get("start_values", 0) + len(sop[2]) - 1
            if op[0] == "act" and any(o.get("k") == "res" and o.get("ok") for o in obs):
                pid = op[2]
                tgt = [o for o in obs if o.get("k") == "target"][0]["tid"]
                before, after = prev.get(pid), dumps.get(pid)
                if before and after:
                    stats["writes_by_action"] += 1
                    tb = {t["tid"]: t for t in before["tasks"]}
                    ta = {t["tid"]: t for t in after["tasks"]}
                    nid = tb[tgt]["nid"] if tgt in tb else None
                    outs = decl.get(nid, {}).get("outputs", [])
                    opts = op[4]
                    eff = {k: v for k, v in opts.items() if (k in outs if outs else True)}
                    anc = set(ancestors(before, tgt))
                    # (2) no scope outside the writer's ancestry changes; (4) private keys stay on the task
                    for t, x in tb.items():
                        if t == tgt or t not in ta:
                            continue
                        for k, v in eff.items():
                            a_has, b_has = k in ta[t]["data"], k in x["data"]
                            changed = (a_has != b_has) or (a_has and ta[t]["data"][k] != x["data"][k])
                            if changed and t not in anc:
                                bad = ("leak-outside-ancestry", f"op {i}: key {k} of task {t} ({x['nid']}) changed by an action on {tgt}, which is not beneath it")
                            if changed and (k.startswith("__")):
                                bad = ("private-key-propagated", f"op {i}: private key {k} reached task {t}")
                                stats["private_writes"] += 1
                    # options beyond the declared outputs do not reach any task
                    if outs:
                        for k in opts:
                            if k not in outs and tgt in ta and k in ta[tgt]["data"] and k not in tb[tgt]["data"]:
                                bad = ("options-not-cut", f"op {i}: option {k} is not a declared output of {nid} but reached the task data")
                    # (1) the holder sees the value: the outermost ancestor that held the name now has it
                    for k, v in eff.items():
                        if k.startswith("__") or k.startswith("data"):
                            continue
                        holders = [t for t in ancestors(before, tgt) if k in tb[t]["data"]]
                        if holders:
                            h = holders[-1]
                            stats["holder_updates"] += 1
                            if ta[h]["data"].get(k) != v and h in ta:
                                bad = ("holder-not-updated", f"op {i}: {k}={v} written at {tgt}; holder {h} has {ta[h]['data'].get(k)}")
            # (6) nothing crosses processes: p1's values are < 7000, p2's markers are 777 / >= 7000
            for pid, d in dumps.items():
                for t in d["tasks"]:
                    for k, v in t["data"].items():
                        if isinstance(v, int) and not isinstance(v, bool):
                            if pid == "p1" and (v == 777 or v >= 7000):
                                bad = ("cross-process-leak", f"op {i}: p1 task {t['tid']} holds {k}={v} (a value of p2)")
                            if pid == "p2" and 100 < v < 7000 and v != 777:
                                bad = ("cross-process-leak", f"op {i}: p2 task {t['tid']} holds {k}={v} (a value of p1)")
            # (5) terminal event outputs: exactly the declared keys plus `data`, each with the value the root holds
            for o in obs:
                if o.get("k") == "pev" and o.get("chan") == "default" and o.get("ev") == "complete":
                    stats["terminal_events"] += 1
                    want_keys = sorted(set(decl[sc["models"][0]["id"]]["outputs"]) | {"data"})
                    got = o.get("outputs") or {}
                    if sorted(got.keys()) != want_keys:
                        bad = ("terminal-output-keys", f"terminal event of {o['pid']} has outputs {sorted(got.keys())}, declared {want_keys}")
                    else:
                        d = dumps.get(o["pid"])
                        if d:
                            root = d["tasks"][0]["data"]
                            for k in want_keys:
                                if got[k] != root.get(k):
                                    bad = ("terminal-output-value", f"output {k}={got[k]} but the root holds {root.get(k)}")
            if bad:
                break
            prev.update(dumps)
        if bad:
            ctx.cov["monitor_failures"] += 1
            ctx.violation(f"C07|{bad[0]}", bad[1], {"scenario": sc})
            continue
        if stats["holder_updates"]:
            ctx.nontrivial([sc["models"], sc["ops"]])
        r = opcorr.compare(sc, res, mod, ["new", "tr", "res", "queue", "gen", "pev"], with_dump=True)
        if r and r[1] not in ("unsupported", "exec-after-removal", "engine-stuck"):
            ctx.proof_break("correspondence: Op model", f"{sc['id']} op {r[0]} stream {r[1]}: {r[2][:400]}")
        else:
            stats["op_model_agree"] += 1
    ctx.sample({"scenario": scs[0]["id"], "model": scs[0]["models"][0], "ops": scs[0]["ops"][:6]}, limit=1)
    # ---- free-running, several workers: the act behind an interrupt sees what the interrupt was answered with (its `if` reads it)
    rscs = []
    for k in range(4 if ctx.tier == "quick" else 24):
        r = Rng(ctx.seed * 4093 + k)
        v = r.range(2, 9)
        holder = r.pick(["root", "step"])
        w = {"id": "m1", "steps": [{"id": "s1", "acts": [{"id": "a1", "uses": gen.IRQ, "key": "k1"}, {"id": "a2", "uses": gen.IRQ, "key": "k2", "if": f"x == {v}"},
                                                        {"id": "a3", "uses": gen.IRQ, "key": "k3", "if": f"x != {v}"}]}]}
        if holder == "root":
            w["inputs"], w["outputs"] = {"x": 1}, {"x": None}
        else:
            w["steps"][0]["inputs"] = {"x": 1}
        npr = 40
        ops = [["deploy", 0]] + [["start", "m1", {"pid": f"p{q}"}] for q in range(npr)] + [["sleep", 100]]
        ops += [["act", "next", f"p{q}", {"nid": "a1", "k": -1}, {"x": v}] for q in range(npr)]
        ops += [["sleep", 200]]
        rscs.append({"id": f"c07-race-{k}", "config": {"keep": True, "mode": "free", "workers": r.pick([2, 4, 8]), "dump_each": False}, "models": [w], "ops": ops, "v": v})
    rres = ctx.harness("run", [{k: v for k, v in sc.items() if k != "v"} for sc in rscs], tag="race", shards=2)
    for sc, res in zip(rscs, rres):
        ctx.cov["evaluations"] += 1
        if res.get("panic") or res.get("crashed"):
            ctx.violation("C07|engine-panic", f"engine panicked: {str(res.get('panic'))[:100]}", {"scenario": sc})
            continue
        nid_of, wrong = {}, []
        for _, o in obs_of(res, {"new", "tr"}):
            if o["k"] == "new":
                nid_of[(o["pid"], o["tid"])] = o["nid"]
            else:
                nid = nid_of.get((o["pid"], o["tid"]))
                if (nid == "a2" and o["new"] == "skipped") or (nid == "a3" and o["new"] == "interrupted"):
                    wrong.append((o["pid"], nid, o["new"]))
        stats["race_processes"] = stats.get("race_processes", 0) + sum(1 for n_ in nid_of.values() if n_ == "a1")
        if wrong:
            ctx.violation("C07|successor-read-before-write", f"a1 was completed with x = {sc['v']}; in {len(wrong)} of the processes the act behind it evaluated its condition on the old value: {wrong[:3]} "
                          f"({sc['config']['workers']} workers)", {"scenario": {k: v for k, v in sc.items() if k != "v"}})
        else:
            ctx.nontrivial(["race", sc["models"], sc["config"]["workers"]])
    ctx.cov["correspondence"] = {"distribution": stats, "streams_compared": ["data of every task, message inputs/outputs, terminal-event outputs vs Op model (which uses Scope.update / Scope.find)",
                                                                             "dump before/after every accepted action: frame, holder update, private keys, option cut", "two processes of one model: no value crosses"]}
    ctx.cov["rule"] = ("set/irq/msg workflows in which each of four names is declared by at most one enclosing scope at a random depth; writers: transform.set and client options cut to declared "
                       "outputs, private and data* keys, undeclared names; readers: conditions, messages, terminal event; non-trivial = a write that updates a holder; distinct by (model, ops)")
    ctx.cov["clauses_proved"] = ["writer reads its own write", "unique holder receives the value; later readers whose ancestry reaches it see it", "only the holder changes (frame)",
                                 "private keys stay local", "outermost holder wins without the uniqueness hypothesis (W)"]
    ctx.cov["clauses_not_proved"] = ["the engine implements Scope.update / Scope.find (differential on every task's data)", "terminal-event outputs = declared keys with last values (monitor)"]


def replay(ctx, data):
    ctx.build([])
    sc = data["replay"].get("scenario")
    if sc:
        res = ctx.harness("run", [sc])[0]
        for st in res["steps"]:
            for o in st["obs"]:
                if o.get("k") == "dump" and not o.get("absent"):
                    print(st["op"], o["pid"], [(t["tid"], t["nid"], t["data"]) for t in o["tasks"]])
    return 0
