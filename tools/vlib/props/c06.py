"""C06 — errors propagate upward unless a matching catch takes them, exactly once"""
import json

from .. import gen, opcorr
from ..core import obs_of
from ..rng import Rng

ASSUMPTIONS = [
    "errors are raised by the client error action and by failing conditions (undefined variable in an `if`); invalid package parameters are covered by the act-init error path of the operational model only",
    "the chain of a task is the engine's own parent relation (prev walk by node level) taken from the dump before the error",
]

TERMINAL = {"completed", "submitted", "backed", "cancelled", "error", "aborted", "skipped", "removed"}


def gen_scenario(seed, i, plain=False):
    rng = Rng(seed * 86028121 + i)
    if not plain and i % 10 == 3:
        return call_catch_scenario(rng, i)
    if not plain and i % 10 == 6:
        return reload_scenario(seed, i)
    if not plain and i % 10 == 8:
        return container_catch_scenario(rng, i)
    g = gen.WfGen(rng.fork("wf"), depth=rng.pick([1, 2]), max_steps=3, max_branches=2, max_acts=2, p_if=8, p_branches=35,
                  needs=False, mixed=False, act_kinds=((gen.IRQ, 7), (gen.MSG, 1)), catches=True)
    w = g.workflow("m1")
    ops = [["deploy", 0], ["start", "m1", {"pid": "p1", "x": rng.below(4), "y": rng.below(4)}], ["runall"]]
    for _ in range(rng.range(2, 6)):
        r = rng.below(10)
        if r < 6:
            ops.append(["act", "error", "p1", {"open": rng.below(4)}, {"ecode": rng.pick(["e1", "e2", "e3"]), "message": "boom"}])
        else:
            ops.append(["act", "next", "p1", {"open": rng.below(4)}, {}])
        ops.append(["runall", rng.pick(["fifo", "lifo"]), rng.below(1 << 30)])
    for _ in range(8):
        ops.append(["act", "next", "p1", {"open": 0}, {}])
        ops.append(["runall"])
    return {"id": f"c06-{seed}-{i}", "config": {"keep": True, "dump_each": True}, "models": [w], "ops": ops, "exprs": g.exprs, "features": sorted(g.features)}


def call_catch_scenario(rng, i):
    """the error of a sub-process is returned to the calling act, which declares a catch: the handler runs once, the calling act then
    completes and the flow goes on behind it, as if no error had happened"""
    hacts = rng.pick([[], [{"id": "h1a", "uses": gen.MSG, "key": "kh1a"}], [{"id": "h1a", "uses": gen.IRQ, "key": "kh1a"}]])
    c = {"steps": [{"id": "h1", "acts": hacts}] if (hacts or rng.chance(1, 2)) else []}
    if rng.chance(1, 2):
        c["on"] = "e1"
    call = {"id": "call1", "uses": "acts.core.subflow", "params": {"to": "c1", "options": {"pid": "p1-call1"}}, "catches": [c]}
    s1 = {"id": "s1", "acts": [call] + ([{"id": "a2", "uses": gen.IRQ, "key": "ka2"}] if rng.chance(1, 2) else [])}
    if rng.chance(1, 3):
        s1 = {"id": "s1", "branches": [{"id": "b1", "if": "(x == 0)", "steps": [{"id": "s1x", "acts": s1["acts"]}]},
                                      {"id": "b2", "if": "(x == 0)", "steps": [{"id": "s1y", "acts": [{"id": "a3", "uses": gen.IRQ, "key": "ka3"}]}]}]}
    parent = {"id": "m1", "steps": [s1, {"id": "s2", "acts": [{"id": "z", "uses": gen.IRQ, "key": "kz"}]}]}
    child = {"id": "c1", "steps": [{"id": "cs1", "acts": [{"id": "ci", "uses": gen.IRQ, "key": "kci"}]}]}
    pol = rng.pick(["fifo", "lifo", "rand"])
    ops = [["deploy", 0], ["deploy", 1], ["start", "m1", {"pid": "p1", "x": 0, "y": 0}], ["runall", pol, rng.below(1 << 30)],
           ["act", "error", "p1-call1", {"nid": "ci", "k": -1}, {"ecode": "e1", "message": "boom"}], ["runall", pol, rng.below(1 << 30)]]
    for _ in range(6):
        ops += [["act", "next", "p1", {"open": 0}, {}], ["runall", pol, rng.below(1 << 30)]]
    return {"id": f"c06-call-{i}", "config": {"keep": True, "dump_each": True}, "models": [parent, child], "ops": ops,
            "exprs": {"(x == 0)": ["bin", "==", ["var", "x"], ["lit", 0]]}, "features": ["call-catch"], "expect_completed": True}


def container_catch_scenario(rng, i):
    """a container act (block) that declares a catch: the error of one of its child acts is taken by that catch, the steps of the catch
    run once, the other children go on, and when everything beneath it has ended the act completes and the flow continues behind it"""
    mode = rng.pick(["sequence", "parallel"])
    kids = [{"id": "c1", "uses": gen.IRQ, "key": "kc1"}] + ([{"id": "c2", "uses": gen.IRQ, "key": "kc2"}] if rng.chance(1, 2) else [])
    hacts = rng.pick([[], [{"id": "h1a", "uses": gen.MSG, "key": "kh1a"}], [{"id": "h1a", "uses": gen.IRQ, "key": "kh1a"}]])
    c = {"steps": [{"id": "h1", "acts": hacts}] if (hacts or rng.chance(1, 2)) else []}
    if rng.chance(1, 2):
        c["on"] = "e1"
    blk = {"id": "call1", "uses": "acts.core.block", "params": {"mode": mode, "acts": kids}, "catches": [c]}
    parent = {"id": "m1", "steps": [{"id": "s1", "acts": [blk]}, {"id": "s2", "acts": [{"id": "z", "uses": gen.IRQ, "key": "kz"}]}]}
    pol = rng.pick(["fifo", "lifo", "rand"])
    ops = [["deploy", 0], ["start", "m1", {"pid": "p1", "x": 0, "y": 0}], ["runall", pol, rng.below(1 << 30)]]
    if len(kids) == 2 and mode == "parallel" and rng.chance(1, 2):
        ops += [["act", "next", "p1", {"nid": "c2", "k": -1}, {}], ["runall", pol, rng.below(1 << 30)]]
    ops += [["act", "error", "p1", {"nid": "c1", "k": -1}, {"ecode": "e1", "message": "boom"}], ["runall", pol, rng.below(1 << 30)]]
    for _ in range(6):
        ops += [["act", "next", "p1", {"open": 0}, {}], ["runall", pol, rng.below(1 << 30)]]
    return {"id": f"c06-block-{i}", "config": {"keep": True, "dump_each": True}, "models": [parent], "ops": ops, "exprs": {},
            "features": ["container-catch"], "expect_completed": True, "no_bubble": True}


def reload_scenario(seed, i):
    """the catches of a task are part of what a reload has to bring back: the process is dropped from the cache (in-memory store) or the
    engine restarted (SQLite) before the error is raised"""
    sc = gen_scenario(seed, 100000 + i, plain=True)
    rng = Rng(seed * 9176 + i)
    store = "sqlite" if i % 2 == 0 else "mem"
    ops = []
    for op in sc["ops"]:
        if op[0] == "act" and rng.chance(2, 3):
            ops.append(["restart"] if (store == "sqlite" and rng.chance(1, 2)) else ["evict", "p1"])
        ops.append(op)
    sc["ops"] = ops
    sc["id"] = f"c06-reload-{seed}-{i}"
    sc["config"] = {"keep": True, "dump_each": True, "store": store}
    sc["features"] = sorted(set(sc["features"]) | {"reload"})
    return sc


def chain_of(dump, tid):
    tasks = {t["tid"]: t for t in dump["tasks"]}

    def parent(t):
        lvl = tasks[t]["level"]
        p = tasks[t]["prev"]
        while p is not None and p in tasks:
            if tasks[p]["level"] < lvl:
                return p
            p = tasks[p]["prev"]
        return None
    out = []
    t = tid
    while t is not None and t in tasks:
        x = tasks[t]
        hooks = x.get("hooks") or {}
        cs = []
        for b in hooks.get("ErrorCatch", []):
            if "Catch" in b:
                cs.append(b["Catch"].get("on"))
        out.append({"tid": t, "catches": cs, "processed": bool(x["data"].get("$is_catch_processed")), "closed": x["state"] in TERMINAL and t != tid})
        t = parent(t)
    return out


def run(ctx):
    ctx.check_theorems("ActsModel.Props.C06")
    n = 1000 if ctx.tier == "quick" else 6000
    scs = [gen_scenario(ctx.seed, i) for i in range(n)]
    results = ctx.harness("run", scs)
    models = ctx.driver([opcorr.model_request(sc) for sc in scs], tag="dm")
    reqs, where = [], []
    for k, (sc, res) in enumerate(zip(scs, results)):
        prev_dump = None
        by_op = {st["op"]: st["obs"] for st in res.get("steps", [])}
        for i, op in enumerate(sc["ops"]):
            obs = by_op.get(i)
            if obs is None:
                break
            if op[0] == "act" and op[1] == "error" and op[2] == "p1" and prev_dump is not None and not sc.get("no_bubble"):
                ok = any(o.get("k") == "res" and o.get("ok") for o in obs)
                tgt = [o for o in obs if o.get("k") == "target"]
                if ok and tgt:
                    ch = chain_of(prev_dump, tgt[0]["tid"])
                    reqs.append({"cmd": "c06.bubble", "code": op[4]["ecode"], "chain": ch})
                    where.append((k, i, ch))
            d = [o for o in obs if o.get("k") == "dump" and o.get("pid") == "p1" and not o.get("absent")]
            if d:
                prev_dump = d[0]
    answers = ctx.driver(reqs, tag="db")
    stats = {"errors_raised": 0, "caught": 0, "uncaught": 0, "stopped": 0, "nested_pass_through": 0, "second_error_same_task": 0, "op_model_agree": 0}
    flagged = set()
    pending_catch = {}
    for (k, i, ch), an in zip(where, answers):
        sc, res = scs[k], results[k]
        ctx.cov["evaluations"] += 1
        if k in flagged or not isinstance(an, dict) or "outcome" not in an:
            continue
        stats["errors_raised"] += 1
        code = sc["ops"][i][4]["ecode"]
        obs = {st["op"]: st["obs"] for st in res.get("steps", [])}[i]
        trs = [(o["tid"], o["old"], o["new"]) for o in obs if o.get("k") == "tr"]
        became_error = [t for t, o, nw in trs if nw == "error"]
        revived = [t for t, o, nw in trs if o == "error" and nw == "running"]
        news = [(o["nid"], o.get("prev")) for o in obs if o.get("k") == "new"]
        pev_err = [o for o in obs if o.get("k") == "pev" and o.get("chan") == "default" and o.get("ev") == "error"]
        d_after = [o for o in obs if o.get("k") == "dump" and o.get("pid") == "p1" and not o.get("absent")]
        out = an["outcome"]
        kind = out["kind"]
        stats[{"caught": "caught", "uncaught": "uncaught", "stopped": "stopped"}[kind]] += 1
        if any(m["processed"] for m in ch):
            stats["second_error_same_task"] += 1
        if kind == "caught" and len(an["errors"]) >= 2:
            stats["nested_pass_through"] += 1
        passed_catch = any(m.get("catches") for m in ch)
        if kind == "caught" or (kind == "uncaught" and passed_catch):
            # an error that a catch took, or that went past at least one catch list that did not match
            ctx.nontrivial([sc["models"], sc["ops"][: i + 1]])
        bad = None
        # members below the catcher (and the act itself) are marked with the original code
        want_err = an["errors"] + ([out["tid"]] if kind == "caught" else [])
        if sorted(set(became_error)) != sorted(set(want_err)):
            bad = ("wrong-members-marked", f"tasks written error {sorted(set(became_error))}, expected {sorted(set(want_err))}")
        elif kind == "caught":
            if revived != [out["tid"]]:
                bad = ("catcher-not-revived-once", f"revived {revived}, expected [{out['tid']}]")
            else:
                # its catch steps (prev = catcher) are started exactly once, or it completes at once when the catch is empty
                started = [nid for nid, pv in news if pv == out["tid"]]
                catcher_nid = next((t["nid"] for t in (d_after[0]["tasks"] if d_after else []) if t["tid"] == out["tid"]), None)
                decl = declared_catches(sc["models"][0], catcher_nid)
                want_first = [c["steps"][0]["id"] for c in decl if c.get("on") == out.get("on") and c.get("steps")]
                universe = {s["id"] for c in decl for s in c.get("steps", [])}
                started = [x for x in started if x in universe]      # the successor of an act is created with the same prev
                if len(started) != len(set(started)):
                    bad = ("catch-steps-started-twice", f"catch steps {started}")
                elif sorted(started) != sorted(want_first):
                    bad = ("wrong-catch-steps", f"catch steps started {started}, the catch for {out.get('on')!r} on {catcher_nid} declares {want_first}")
                else:
                    for c in decl:
                        if c.get("on") == out.get("on") and c.get("steps"):
                            pending_catch.setdefault(k, []).append([s["id"] for s in c["steps"]])
                if pev_err:
                    bad = ("error-event-despite-catch", "the process delivered an error event although the error was caught")
        elif kind == "uncaught":
            if len(pev_err) != 1:
                bad = ("error-events", f"{len(pev_err)} error events for one uncaught error")
            elif d_after and d_after[0]["state"] != "error":
                bad = ("process-not-error", f"process state {d_after[0]['state']}")
            else:
                # code and message are the original ones on every member
                for t in d_after[0]["tasks"] if d_after else []:
                    if t["tid"] in an["errors"] and ((t.get("err") or {}).get("ecode") != code or (t.get("err") or {}).get("message") != "boom"):
                        bad = ("code-or-message-changed", f"task {t['tid']} carries {t.get('err')}")
        elif kind == "stopped":
            if pev_err:
                bad = ("error-event-from-ended-ancestor", "error event although the propagation reached an ancestor that had already ended")
        # members above the catcher are untouched
        if not bad and kind == "caught":
            above = [m["tid"] for m in ch[len(an["errors"]) + 1:]]
            touched = [t for t, o, nw in trs if t in above and nw in ("error",)]
            if touched:
                bad = ("member-above-catcher-touched", f"{touched}")
        if bad:
            flagged.add(k)
            ctx.cov["monitor_failures"] += 1
            ctx.violation(f"C06|{bad[0]}|{kind}", f"error {code} at op {i}: {bad[1]}; chain {[(m['tid'], m['catches'], m['processed']) for m in ch]}",
                          {"scenario": sc, "op": i, "chain": ch, "prediction": an, "transitions": trs})
    # a sub-process error returned to a calling act with a matching catch: the handler runs once, the call completes, the flow goes on
    for k, (sc, res) in enumerate(zip(scs, results)):
        if not sc.get("expect_completed") or k in flagged:
            continue
        ctx.cov["evaluations"] += 1
        stats["call_catch_runs"] = stats.get("call_catch_runs", 0) + 1
        if res.get("panic") or res.get("crashed"):
            ctx.violation("C06|engine-panic", f"engine panicked: {str(res.get('panic'))[:100]}", {"scenario": sc})
            continue
        last = None
        perr = 0
        for _, o in obs_of(res, {"dump", "pev"}):
            if o.get("k") == "dump" and o.get("pid") == "p1" and not o.get("absent"):
                last = o
            if o.get("k") == "pev" and o.get("pid") == "p1" and o.get("chan") == "default" and o.get("ev") == "error":
                perr += 1
        ctx.nontrivial([sc["models"], sc["ops"]])
        if last is None:
            continue
        st = {}
        for t in last["tasks"]:
            st.setdefault(t["nid"], []).append(t["state"])
        declared_h1 = any(x.get("id") == "h1" for c in _catches_of(sc["models"][0], "call1") for x in c.get("steps", []))
        bad = None
        if perr:
            bad = ("error-event-despite-catch", f"{perr} error event(s) of the caller although the calling act declares a matching catch")
        elif last["state"] != "completed":
            bad = ("caller-not-finished", f"everything was answered, the caller is {last['state']}: call1 {st.get('call1')}, h1 {st.get('h1')}, z {st.get('z')}")
        elif declared_h1 and len(st.get("h1", [])) != 1:
            bad = ("catch-steps-not-run-once", f"handler step h1 ran {len(st.get('h1', []))} times")
        elif st.get("call1") != ["completed"]:
            bad = ("catcher-not-completed", f"the calling act ended as {st.get('call1')}")
        if bad:
            flagged.add(k)
            ctx.cov["monitor_failures"] += 1
            ctx.violation(f"C06|call-catch|{bad[0]}", bad[1], {"scenario": sc})
    # exactly once over the whole history (theorem `caught_at_most_once`): whatever errors were raised, by the client or by the flow itself,
    # before and after reloads, a task instance is revived by its catch at most once in a run
    for k, (sc, res) in enumerate(zip(scs, results)):
        if k in flagged:
            continue
        ctx.cov["evaluations"] += 1
        nrev = {}
        for _, o in obs_of(res, {"tr"}):
            if o.get("old") == "error" and o.get("new") == "running":
                key = (o.get("pid"), o["tid"])
                nrev[key] = nrev.get(key, 0) + 1
        stats["tasks_revived_by_catch"] = stats.get("tasks_revived_by_catch", 0) + len(nrev)
        twice = sorted(key for key, c in nrev.items() if c > 1)
        if twice:
            flagged.add(k)
            ctx.cov["monitor_failures"] += 1
            ctx.violation("C06|caught-twice", f"task(s) {twice} took an error with a catch more than once ({[nrev[x] for x in twice]} times)", {"scenario": sc, "tasks": twice})
    # every step of a catch that took an error runs exactly once by the end of the run (everything was answered)
    for k, ids in pending_catch.items():
        if k in flagged:
            continue
        sc, res = scs[k], results[k]
        last = None
        for _, o in obs_of(res, {"dump"}):
            if o.get("pid") == "p1" and not o.get("absent"):
                last = o
        if last is None or last["state"] not in ("completed",):
            continue
        # a step that was skipped by its own `if` hands over to its successor; one that was closed while it ran (skipped as an open task
        # beneath a task that failed, or as the sibling of a step in which an act failed) hands over only if something beneath it was
        # still open and is answered later: both outcomes are accepted for such an instance, never more than one run of the successor
        ran = set()
        for _, o in obs_of(res, {"tr"}):
            if o.get("pid") == "p1" and o.get("new") in ("running", "interrupted"):
                ran.add(o["tid"])
        inst = {}
        for t in last["tasks"]:
            inst.setdefault(t["nid"], []).append("closed" if (t["state"] == "skipped" and t["tid"] in ran) else t["state"])
        # per handler list h1..hn: h1 runs once per caught error; h(k+1) runs once per instance of h(k) that handed over (completed / skipped),
        # and not at all after an instance of h(k) that failed (its error went to an outer catch) or was closed otherwise
        taken = {}
        for lst in ids:
            taken[tuple(lst)] = taken.get(tuple(lst), 0) + 1
        for lst, ncaught in taken.items():
            want = ncaught
            maybe = 0      # instances of the predecessor that were closed while they ran: whether they still hand over depends on what was open beneath them
            for j, sid in enumerate(lst):
                got = len(inst.get(sid, []))
                if not (want <= got <= want + maybe):
                    flagged.add(k)
                    ctx.violation("C06|catch-steps-not-run-once", f"catch step {sid} (step {j + 1} of its handler) ran {got} times, expected {want} ({ncaught} caught error(s); predecessors {[(x, inst.get(x)) for x in lst[:j]]}) although the process completed",
                                  {"scenario": sc, "catch_steps": list(lst)})
                    break
                want = sum(1 for st in inst.get(sid, []) if st in ("completed", "skipped"))
                maybe = sum(1 for st in inst.get(sid, []) if st == "closed")
            if k in flagged:
                break
    ctx.sample({"scenario": scs[0]["id"], "model": scs[0]["models"][0], "ops": scs[0]["ops"][:8]}, limit=1)
    ctx.cov["correspondence"] = {"distribution": stats, "streams_compared": ["transitions/creations/error events of every error action vs Catch.bubble on the pre-error chain", "whole stepped run vs Op model"]}
    ctx.cov["rule"] = ("catches at act and step level, nested two deep, several codes, catch-all, empty catch, several catches with the same code; errors e1/e2/e3 raised at any open act, "
                       "repeatedly, with other acts open; non-trivial = an error that a catch takes, or that goes past at least one catch list that does not match; distinct by (model, op prefix)")
    ctx.cov["clauses_proved"] = ["first matching catch wins", "nearest open member with an unused matching catch takes the error; below marked, above untouched", "uncaught: all marked",
                                 "once-flag", "at most one catch per task over every history of errors (caught_at_most_once)", "a declared matching catch on an open chain takes the error (matching_catch_takes)", "non-matching catch is a no-op", "caught error is silent (K1 emit table)"]
    ctx.cov["clauses_not_proved"] = ["the catching task completes and its successor starts (operational model correspondence + C01/C03 monitors)"]


def _catches_of(w, nid):
    found = []

    def walk(x):
        if isinstance(x, dict):
            if x.get("id") == nid and "catches" in x:
                found.extend(x["catches"])
            for v in x.values():
                walk(v)
        elif isinstance(x, list):
            for v in x:
                walk(v)
    walk(w)
    return found


def declared_catches(w, nid):
    found = []

    def walk(x):
        if isinstance(x, dict):
            if x.get("id") == nid and ("acts" in x or "uses" in x or "branches" in x or "catches" in x):
                found.append(x.get("catches") or [])
            for v in x.values():
                walk(v)
        elif isinstance(x, list):
            for v in x:
                walk(v)
    walk(w)
    return found[0] if found else []


def replay(ctx, data):
    ctx.build([])
    sc = data["replay"].get("scenario")
    if sc:
        res = ctx.harness("run", [sc])[0]
        for st in res["steps"]:
            print(st["op"], sc["ops"][st["op"]][:3] if st["op"] < len(sc["ops"]) else "", [(o["tid"], o["old"], o["new"]) for o in st["obs"] if o.get("k") == "tr"])
    return 0
