"""C16 — generated acts and lifecycle hooks run exactly as many times as specified"""
import json
from collections import Counter, defaultdict

from .. import gen
from ..core import obs_of
from ..rng import Rng

ASSUMPTIONS = [
    "lifecycle events are read off the state transitions of a task (created: initialised and neither skipped nor failed by its own init; completed: it reached a "
    "terminal non-error state), independently of the engine's emission path; which event classes reach which hooks (own / nearest step / root) is the table "
    "translated from run_hooks",
    "hook acts are message acts with unique keys: a firing is one message with that key",
    "histories answer interrupts with `next` in seeded orders and push acts into open steps; error / skip / back answers are exercised by C05 / C06",
]

PAR, SEQ = "acts.core.parallel", "acts.core.sequence"
TERMINAL_STATES = {"completed", "submitted", "backed", "cancelled", "error", "aborted", "skipped", "removed"}
TERMINAL = {"completed", "submitted", "backed", "cancelled", "error", "aborted", "skipped", "removed"}
DONE = TERMINAL - {"error"}
EVENTS = ["created", "completed", "before_update", "updated", "step"]


class G:
    def __init__(self, rng):
        self.rng = rng
        self.n = Counter()
        self.generators = {}   # act id -> (mode, items, acts spec)
        self.hooks = {}        # key -> (attached nid, kind, on)

    def fresh(self, k):
        self.n[k] += 1
        return f"{k}{self.n[k]}"

    def leaf(self, prefix, j):
        uses = self.rng.weighted([(gen.IRQ, 3), (gen.MSG, 2)])
        return {"uses": uses, "key": f"{prefix}_{j}"}

    def generator(self, aid, depth):
        mode = self.rng.pick([PAR, SEQ])
        n = self.rng.weighted([(0, 2), (1, 3), (2, 4), (3, 3), (4, 1)])
        # elements of any JSON type (user names, numbers, records)
        items = [self.rng.weighted([(self.rng.pick(["u", "v", "w"]) + str(q), 5), (10 * q + 1, 2), ({"id": q, "name": "n%d" % q}, 1), (q % 2 == 0, 1)]) for q in range(n)]
        acts = []
        for j in range(self.rng.range(1, 3)):
            if depth > 0 and self.rng.chance(1, 5):
                sub = self.generator(f"{aid}_{j}", depth - 1)
                acts.append(sub)
            else:
                acts.append(self.leaf("g" + aid, j))
        a = {"uses": mode, "params": {"in": items, "acts": acts}}
        return a

    def hooks_for(self, nid, kind):
        out = []
        for _ in range(self.rng.range(1, 2)):
            key = self.fresh("H")
            on = self.rng.pick(EVENTS)
            self.hooks[key] = (nid, kind, on)
            out.append({"uses": gen.MSG, "on": on, "key": key})
        return out

    def workflow(self):
        w = {"id": "m1", "steps": []}
        if self.rng.chance(1, 3):
            w["setup"] = self.hooks_for("m1", "workflow")
        for _ in range(self.rng.range(1, 3)):
            s = {"id": self.fresh("s"), "acts": []}
            if self.rng.chance(1, 3):
                s["setup"] = self.hooks_for(s["id"], "step")
            for _ in range(self.rng.range(0 if self.rng.chance(1, 6) else 1, 3)):
                aid = self.fresh("a")
                r = self.rng.below(10)
                if r < 5:
                    a = self.generator(aid, 1)
                    a["id"] = aid
                elif r < 8:
                    a = {"id": aid, "uses": gen.IRQ, "key": "k" + aid}
                else:
                    a = {"id": aid, "uses": gen.MSG, "key": "k" + aid}
                if self.rng.chance(1, 5):
                    a["setup"] = self.hooks_for(aid, "act")
                s["acts"].append(a)
            w["steps"].append(s)
        return w


def expansion_requests(a, out):
    """one `c16.expand` request per generator (nested ones too): the Lean definition the theorems are about is the oracle"""
    keys = [sub["key"] if sub["uses"] not in (PAR, SEQ) else "#gen%d" % j for j, sub in enumerate(a["params"]["acts"])]
    # the model treats an element as a token: it is handed over as its JSON text
    out.append({"cmd": "c16.expand", "items": [json.dumps(v, sort_keys=True) for v in a["params"]["in"]], "acts": keys})
    for sub in a["params"]["acts"]:
        if sub["uses"] in (PAR, SEQ):
            expansion_requests(sub, out)


def expected_leaves(a, answers):
    """(key, uses, $index, $value) of every leaf act a generator must open, from the expansions computed by the Lean model
    (`answers` is consumed in the order `expansion_requests` produced them)"""
    groups = answers.pop(0)["groups"]
    subs = {("#gen%d" % j): sub for j, sub in enumerate(a["params"]["acts"]) if sub["uses"] in (PAR, SEQ)}
    uses = {sub["key"]: sub["uses"] for sub in a["params"]["acts"] if sub["uses"] not in (PAR, SEQ)}
    inner = {k: expected_leaves(sub, answers) for k, sub in subs.items()}
    out = []
    for g in groups:
        for key, idx, val in g:
            if key in subs:
                out += inner[key]
            else:
                out.append((key, uses[key], idx, val))
    return out


def gen_scenario(seed, i, tier):
    rng = Rng(seed * 39916801 + i)
    g = G(rng.fork("wf"))
    w = g.workflow()
    policy = rng.pick(["fifo", "fifo", "lifo", "rand"])
    ops = [["deploy", 0], ["start", "m1", {"pid": "p1"}], ["runall", policy, rng.below(1 << 30)]]
    npush = 0
    for _ in range(26):
        if i % 5 == 4 and rng.chance(1, 8):
            # back to an earlier step: the steps after it, generators included, run again
            ops.append(["act", "back", "p1", {"open": rng.below(3)}, {"to": rng.pick(w["steps"])["id"]}])
        elif rng.chance(1, 9):
            s = rng.pick(w["steps"])["id"]
            npush += 1
            ops.append(["act", "push", "p1", {"nid": s, "k": 0}, {"uses": rng.pick([gen.IRQ, gen.MSG]), "key": f"pushed{npush}"}])
        else:
            ops.append(["act", "next", "p1", {"open": rng.below(5)}, {}])
        ops.append(["runall", policy, rng.below(1 << 30)])
    cfg = {"keep": True, "dump_each": True}
    if i % 6 == 2:
        # the process is reloaded while groups are open: dropped from the cache (in-memory store) or the engine restarted (SQLite); the
        # nodes a generator built at run time come back with their links
        cfg["store"] = "sqlite" if rng.chance(1, 2) else "mem"
        out = []
        for op in ops:
            out.append(op)
            if op[0] == "runall" and len(out) > 3 and rng.chance(1, 3):
                out.append(["restart"] if (cfg["store"] == "sqlite" and rng.chance(1, 2)) else ["evict", "p1"])
        ops = out
    return {"id": f"c16-{seed}-{i}", "config": cfg, "models": [w], "ops": ops, "hooks": g.hooks, "policy": policy}


def analyse(sc, res):
    """returns (violations, stats) of one run"""
    bad = []
    w = sc["models"][0]
    events = []   # flat, ordered
    for st in res.get("steps", []):
        for o in st["obs"]:
            events.append((st["op"], o))
    last_dump = None
    for op, o in events:
        if o.get("k") == "dump" and o.get("pid") == "p1" and not o.get("absent"):
            last_dump = o
    if last_dump is None:
        return bad, {}
    tasks = {t["tid"]: t for t in last_dump["tasks"]}
    hook_tids = {tid for tid, t in tasks.items() if (t.get("data") or {}).get("$is_event_processed")}
    news = {o["tid"]: o for _, o in events if o.get("k") == "new"}
    order = {}
    trs = defaultdict(list)
    for pos, (op, o) in enumerate(events):
        if o.get("k") == "tr":
            trs[o["tid"]].append((pos, o["old"], o["new"]))
        if o.get("k") == "new":
            order[o["tid"]] = pos
    finished = any(o.get("k") == "pev" and o.get("ev") in ("complete", "error") for _, o in events)
    stats = {"finished": finished, "groups": 0, "fires": 0, "pushes": 0}

    # a back closes what is open and runs earlier steps again: a generator it interrupts never opens its remaining groups
    had_back = any(sc["ops"][st["op"]][0] == "act" and sc["ops"][st["op"]][1] == "back" and any(o.get("k") == "res" and o.get("ok") for o in st["obs"])
                   for st in res.get("steps", []) if st["op"] < len(sc["ops"]))
    sched_obs = []
    dumps_by_op, op_pos = [], {}
    for pos, (op, o) in enumerate(events):
        op_pos[op] = pos
        if o.get("k") == "dump" and o.get("pid") == "p1" and not o.get("absent"):
            dumps_by_op.append((op, o))
    # ---- generated acts
    msgs = [(pos, o) for pos, (op, o) in enumerate(events) if o.get("k") == "gen"]
    by_nid = defaultdict(list)
    for tid, t in tasks.items():
        by_nid[t["nid"]].append(t)
    for s in w["steps"]:
        for a in s["acts"]:
            if a["uses"] not in (PAR, SEQ):
                continue
            inst = by_nid.get(a["id"], [])
            if not inst:
                continue
            gt = inst[0]
            one = Counter(expected_leaves(a, list(sc["_expand"][a["id"]])))
            # a generator whose step ran again (after a back) expands once per run
            ran = [t for t in inst if not (len([n_ for _, o_, n_ in trs[t["tid"]]]) >= 2 and [n_ for _, o_, n_ in trs[t["tid"]]][:2] == ["ready", "skipped"])]
            ninst = max(1, len(ran))
            exp = Counter({k: v * ninst for k, v in one.items()})
            if ninst > 1 or had_back:
                gdone_all = all(t["state"] in DONE for t in ran)
                if gdone_all or had_back:
                    started = Counter()
                    keys = {k for k, _, _, _ in one} | {sub["key"] for sub in all_leaf_specs(a)}
                    for pos, o in msgs:
                        if o["key"] in keys and ((o["uses"] == gen.IRQ and o["state"] == "created") or (o["uses"] == gen.MSG and o["state"] == "completed")):
                            opt = (o.get("inputs") or {}).get("options") or {}
                            started[(o["key"], o["uses"], opt.get("$index"), json.dumps(opt.get("$value"), sort_keys=True) if "$value" in opt else None)] += 1
                    stats["groups"] += len(a["params"]["in"]) * ninst
                    if started != exp and not any(t["state"] in ("backed", "cancelled") for tid_, t in tasks.items()):
                        pass
                    # acts that were open when the back arrived are closed by it, not answered: only an excess is a failure here
                    if started - exp:
                        bad.append((f"generated-acts-count|{a['uses'].split('.')[-1]}", f"generator {a['id']} over {a['params']['in']} ran {ninst} times; unexpected {list((started - exp).items())[:2]}"))
                continue
            stats["groups"] += len(a["params"]["in"])
            keys = {k for k, _, _, _ in exp} | {sub["key"] for sub in all_leaf_specs(a)}
            started = Counter()
            for pos, o in msgs:
                if o["key"] in keys and ((o["uses"] == gen.IRQ and o["state"] == "created") or (o["uses"] == gen.MSG and o["state"] == "completed")):
                    opt = (o.get("inputs") or {}).get("options") or {}
                    started[(o["key"], o["uses"], opt.get("$index"), json.dumps(opt.get("$value"), sort_keys=True) if "$value" in opt else None)] += 1
            gdone = gt["state"] in DONE
            if gdone and started != exp:
                miss = list((exp - started).items())[:2]
                extra = list((started - exp).items())[:2]
                what = "index-or-value" if {x[:2] for x in exp} == {x[:2] for x in started} and sum(exp.values()) == sum(started.values()) else "count"
                bad.append((f"generated-acts-{what}|{a['uses'].split('.')[-1]}", f"generator {a['id']} over {a['params']['in']} completed; missing {miss} unexpected {extra}"))
            if not gdone and (started - exp):
                bad.append((f"generated-acts-count|{a['uses'].split('.')[-1]}", f"generator {a['id']} over {a['params']['in']}: unexpected {list((started - exp).items())[:2]}"))
            # completion only after every generated act is terminal
            desc = descendants(gt["tid"], news, tasks)
            tdone = [p for p, old, new in trs[gt["tid"]] if new in DONE]
            if tdone:
                for d in desc:
                    if d in hook_tids:
                        continue
                    dterm = [p for p, old, new in trs[d] if new in TERMINAL]
                    if not dterm or min(dterm) > tdone[0]:
                        bad.append(("generator-completed-early", f"generator {a['id']} completed while generated task {tasks[d]['nid']} ({tasks[d]['state']}) was not terminal"))
                        break
            # the groups in progress at every quiescent point, for the abstract scheduling `Generate.Gen` evaluated by the Lean driver
            if len(inst) == 1 and not had_back:
                blocks = sorted([c for c in desc if news[c]["level"] == news[gt["tid"]]["level"] + 1 and tasks[c].get("uses") == "acts.core.block"
                                 and c not in hook_tids], key=lambda c: order[c])
                for op_i, o in dumps_by_op:
                    if order[gt["tid"]] > op_pos.get(op_i, -1):
                        continue
                    live = {t["tid"]: t["state"] for t in o["tasks"]}
                    if live.get(gt["tid"]) in (None, "none", "ready"):
                        continue
                    fin = [k for k, b in enumerate(blocks) if live.get(b) in TERMINAL]
                    act = [k for k, b in enumerate(blocks) if b in live and live[b] not in TERMINAL]
                    sched_obs.append({"gen": a["id"], "op": op_i, "seq": a["uses"] == SEQ, "n": len(a["params"]["in"]), "finished": fin, "active": act,
                                      "complete": live.get(gt["tid"]) in DONE})
            # top-level shape: parallel opens every group at once, sequence one after another in list order
            first = a["params"]["acts"][0]
            if first["uses"] not in (PAR, SEQ):
                firsts = [(pos, (o.get("inputs") or {}).get("options", {}).get("$index")) for pos, o in msgs if o["key"] == first["key"] and
                          ((o["uses"] == gen.IRQ and o["state"] == "created") or (o["uses"] == gen.MSG and o["state"] == "completed"))]
                idx = [k for _, k in firsts]
                if a["uses"] == SEQ:
                    if idx != sorted(idx):
                        bad.append(("sequence-out-of-order", f"sequence {a['id']} opened its groups in order {idx}"))
                    # group k+1 opens only after every act of group k is terminal
                    blocks = [c for c in desc if news[c]["level"] == news[gt["tid"]]["level"] + 1]
                    blocks.sort(key=lambda c: order[c])
                    for b1, b2 in zip(blocks, blocks[1:]):
                        d1 = [b1] + descendants(b1, news, tasks)
                        t1 = [min([p for p, o_, n_ in trs[d] if n_ in TERMINAL] or [1 << 60]) for d in d1 if d not in hook_tids]
                        if t1 and max(t1) > order[b2]:
                            bad.append(("sequence-overlap", f"sequence {a['id']}: a group was opened before the previous one had ended"))
                            break
                elif len(a["params"]["in"]) >= 2 and first["uses"] == gen.IRQ:
                    ops_of = {op for op, o in events if o.get("k") == "gen" and o["key"] == first["key"] and o["state"] == "created"}
                    # all groups are opened before any client answer: within the run of one `runall`
                    if gdone or len(idx) == len(a["params"]["in"]):
                        if len(ops_of) > 1:
                            bad.append(("parallel-not-at-once", f"parallel {a['id']} opened its groups over several client rounds {sorted(ops_of)}"))

    # no client sends an error in these histories: a task that failed was failed by the engine (a generator that cannot read its list, a hook that
    # cannot be dispatched)
    failed = [(t["nid"], (t.get("err") or {}).get("message", "")[:120]) for t in tasks.values() if t["state"] == "error"]
    if failed and not bad:
        gens = {a["id"]: a for s_ in w["steps"] for a in s_["acts"] if a["uses"] in (PAR, SEQ)}
        nid, msg = failed[0]
        kind = gens[nid]["uses"].split(".")[-1] if nid in gens else "task"
        bad.append((f"engine-failed-a-task|{kind}", f"{nid} ended in error without any error action: {msg}"))

    # ---- hooks
    def nearest_step(tid):
        cur = tasks.get(tid)
        seen = 0
        lvl = cur["level"] if cur else 0
        while cur is not None and seen < 200:
            seen += 1
            p = tasks.get(cur.get("prev")) if cur.get("prev") else None
            if p is None:
                return None
            if p["level"] < lvl and p["kind"] == "step":
                return p["tid"]
            if p["level"] < lvl:
                lvl = p["level"]
            cur = p
        return None

    root = next((tid for tid, t in tasks.items() if t["kind"] == "workflow"), None)
    fires = Counter()
    for pos, o in msgs:
        if o["key"] in sc["hooks"] and o["state"] == "completed":
            fires[o["key"]] += 1
    # lifecycle events of every non-hook task, from its transitions
    created, completed = Counter(), Counter()
    for tid, t in tasks.items():
        if tid in hook_tids:
            continue
        seq = [new for _, old, new in trs[tid]]
        if not seq:
            continue
        if len(seq) >= 2 and seq[0] == "ready" and seq[1] in ("skipped", "error"):
            continue   # its own init skipped or failed it: no hooks were registered and no created event
        if seq == ["skipped"] or seq == ["error"]:
            continue
        created[tid] = 1
        completed[tid] = sum(1 for x in seq if x in DONE)
    # which hooks the events reach is computed by the Lean model (`fires` over the translated class tables)
    def evs(tid):
        """lifecycle events of a task, as the states they report"""
        if not created[tid]:
            return []
        seq = [new for _, old, new in trs[tid]]
        first = next((x for x in reversed(seq[:2]) if x in ("ready", "interrupted", "pending")), "ready")
        return [first] + [x for x in seq if x in DONE]

    hook_reqs = []
    for key, (nid, kind, on) in sc["hooks"].items():
        own, acts_, steps_ = [], [], []
        for t in by_nid.get(nid, []):
            tid = t["tid"]
            if not created[tid]:
                continue
            own += evs(tid)
            if kind in ("step", "workflow"):
                for aid, at in tasks.items():
                    if at["kind"] != "act" or aid in hook_tids:
                        continue
                    if (kind == "workflow" and tid == root) or (kind == "step" and nearest_step(aid) == tid):
                        acts_ += evs(aid)
            if kind == "step":
                steps_ += evs(tid)
            elif kind == "workflow":
                for sid, stt in tasks.items():
                    if stt["kind"] == "step":
                        steps_ += evs(sid)
        hook_reqs.append((key, {"cmd": "c16.fires", "hooks": [[on, key]], "own": own, "acts": acts_, "steps": steps_}))
    for key in sc["hooks"]:
        stats["fires"] += fires[key]
    stats["_hook_reqs"] = hook_reqs
    stats["_sched_obs"] = sched_obs
    stats["_fires"] = fires

    # ---- push
    for st in res.get("steps", []):
        op = sc["ops"][st["op"]]
        if op[0] == "act" and op[1] == "push":
            r = [o for o in st["obs"] if o.get("k") == "res"]
            target = [o for o in st["obs"] if o.get("k") == "target"]
            created_now = [o for o in st["obs"] if o.get("k") == "new"]
            if r and r[0].get("ok"):
                stats["pushes"] += 1
                mine = [o for o in created_now if target and o.get("prev") == target[0].get("tid")]
                if len(mine) != 1 or len(created_now) != 1 or mine[0]["kind"] != "act":
                    bad.append(("push-count", f"push into {op[3]} created {len(created_now)} tasks ({len(mine)} under the step)"))
            elif r and created_now:
                bad.append(("push-refused-but-created", f"refused push into {op[3]} created {len(created_now)} tasks"))
    return bad, stats


def all_leaf_specs(a):
    out = []
    for sub in a["params"]["acts"]:
        if sub["uses"] in (PAR, SEQ):
            out += all_leaf_specs(sub)
        else:
            out.append(sub)
    return out


def descendants(tid, news, tasks):
    """tasks created below `tid`: reachable over prev links through tasks of a deeper node level"""
    base = news[tid]["level"]
    kids = defaultdict(list)
    for t, o in news.items():
        if o.get("prev"):
            kids[o["prev"]].append(t)
    out, stack = [], [tid]
    while stack:
        x = stack.pop()
        for c in kids.get(x, []):
            if news[c]["level"] > base and c in tasks:
                out.append(c)
                stack.append(c)
    return out


def judge(ctx, scs, results):
    """runs the monitors of all scenarios; the expansions and the hook dispatch are computed by the Lean driver"""
    reqs, spans = [], []
    for sc in scs:
        sc["_expand"] = {}
        for s in sc["models"][0]["steps"]:
            for a in s["acts"]:
                if a["uses"] in (PAR, SEQ):
                    r = []
                    expansion_requests(a, r)
                    spans.append((sc, a["id"], len(reqs), len(r)))
                    reqs += r
    answers = ctx.driver(reqs, tag="dx") if reqs else []
    for sc, aid, start, n in spans:
        sc["_expand"][aid] = answers[start:start + n]
    out = []
    hook_reqs, where = [], []
    for sc, res in zip(scs, results):
        if res.get("panic"):
            out.append(([("engine-panic", f"engine panicked: {str(res['panic'])[:120]}")], {}))
            continue
        bad, stats = analyse(sc, res)
        for key, rq in stats.pop("_hook_reqs", []):
            where.append((len(out), key))
            hook_reqs.append(rq)
        out.append((bad, stats))
    # scheduling of the groups: engine vs `Gen` (active groups and completion after the finished groups)
    sreqs, swhere = [], []
    for k, (bad, stats) in enumerate(out):
        for ob in stats.pop("_sched_obs", []):
            sreqs.append({"cmd": "c16.sched", "seq": ob["seq"], "n": ob["n"], "finish": sorted(ob["finished"])})
            swhere.append((k, ob))
    sans = ctx.driver(sreqs, tag="ds") if sreqs else []
    for (k, ob), an in zip(swhere, sans):
        bad, stats = out[k]
        stats["sched_points"] = stats.get("sched_points", 0) + 1
        if bad or not isinstance(an, dict) or not an.get("states"):
            continue
        last = an["states"][-1]
        # quiescent point: the engine has opened everything that may be open
        if sorted(last["active"]) != sorted(ob["active"]) and not ob["complete"]:
            bad.append((f"groups-in-progress|{'sequence' if ob['seq'] else 'parallel'}", f"generator {ob['gen']} after op {ob['op']}: groups {ob['finished']} of {ob['n']} finished; in progress {ob['active']}, the scheduling model says {last['active']}"))
        elif ob["complete"] and not last["complete"]:
            bad.append(("generator-completed-early", f"generator {ob['gen']} after op {ob['op']} is complete with groups {ob['finished']} of {ob['n']} finished"))
    verdicts = ctx.driver(hook_reqs, tag="dh") if hook_reqs else []
    for (k, key), vd in zip(where, verdicts):
        bad, stats = out[k]
        fires = stats["_fires"]
        expect = sum(1 for lst in ("own", "acts", "steps") for x in vd.get(lst, []) if x == key)
        if fires[key] != expect and not any(b[0].startswith("hook-count") for b in bad):
            nid, kind, on = scs[k]["hooks"][key]
            bad.append((f"hook-count|{on}|{kind}|{'more' if fires[key] > expect else 'fewer'}", f"hook {key} (on {on} of {kind} {nid}) fired {fires[key]} times for {expect} matching events"))
    for bad, stats in out:
        stats.pop("_fires", None)
    return out


def rerun_scenarios(seed, n):
    """a generator whose list is a variable runs a second time after a back, over another list (shorter, empty, longer): the second run opens the
    groups of the new list and nothing of the first run"""
    scs = []
    for i in range(n):
        rng = Rng(seed * 479001599 + i)
        first = [f"u{q}" for q in range(rng.range(1, 3))]
        second = rng.pick([[], [], ["w0"], ["w0", "w1", "w2"]])
        uses = rng.pick([PAR, SEQ])
        w = {"id": "m1", "inputs": {"items": first},
             "steps": [{"id": "s1", "acts": [{"id": "a0", "uses": gen.IRQ, "key": "k0"}]},
                       {"id": "s2", "acts": [{"id": "g", "uses": uses, "params": {"in": "{{ items }}", "acts": [{"uses": gen.IRQ, "key": "gk"}]}}]},
                       {"id": "s3", "acts": [{"id": "a9", "uses": gen.IRQ, "key": "k9"}]}]}
        ops = [["deploy", 0], ["start", "m1", {"pid": "p1"}], ["runall"], ["act", "next", "p1", {"nid": "a0", "k": 0}, {}], ["runall"],
               ["act", "back", "p1", {"open": 0}, {"to": "s1"}], ["runall"],
               ["act", "set_process_vars", "p1", {"open": 0}, {"items": second}], ["runall"],
               ["act", "next", "p1", {"nid": "a0", "k": 1}, {}], ["runall"]]
        for _ in range(len(second) + 3):
            ops += [["act", "next", "p1", {"open": 0}, {}], ["runall"]]
        scs.append({"id": f"c16-rerun-{i}", "config": {"keep": True, "dump_each": True}, "models": [w], "ops": ops, "first": first, "second": second, "uses": uses})
    return scs


def judge_rerun(ctx, scs):
    results = ctx.harness("run", [{k: v for k, v in sc.items() if k not in ("first", "second", "uses")} for sc in scs], tag="rr")
    exp = ctx.driver([{"cmd": "c16.expand", "items": [json.dumps(v) for v in sc["second"]], "acts": ["gk"]} for sc in scs], tag="dre")
    for sc, res, ex in zip(scs, results, exp):
        ctx.cov["evaluations"] += 1
        if res.get("panic"):
            ctx.violation("C16|engine-panic", f"engine panicked: {str(res['panic'])[:120]}", {"scenario": sc})
            continue
        # groups opened by the second run: `gk` interrupts created after the second answer of a0
        second_start = next((j for j, op in enumerate(sc["ops"]) if op[0] == "act" and op[3] == {"nid": "a0", "k": 1}), None)
        opened = Counter()
        for st in res.get("steps", []):
            if second_start is None or st["op"] < second_start:
                continue
            for o in st["obs"]:
                if o.get("k") == "gen" and o.get("key") == "gk" and o.get("state") == "created":
                    opt = (o.get("inputs") or {}).get("options") or {}
                    opened[(opt.get("$index"), json.dumps(opt.get("$value")))] += 1
        want = Counter((idx, val) for g in ex.get("groups", []) for _, idx, val in g)
        finished = any(o.get("k") == "pev" and o.get("ev") == "complete" for st in res.get("steps", []) for o in st["obs"])
        ok_back = any(o.get("k") == "res" and o.get("ok") for st in res.get("steps", []) if sc["ops"][st["op"]][:2] == ["act", "back"] for o in st["obs"])
        if not ok_back:
            continue
        if opened != want:
            ctx.violation(f"C16|generated-acts-count|rerun|{sc['uses'].split('.')[-1]}", f"second run of the generator over {sc['second']} (first run over {sc['first']}) opened {sorted(opened.items())}, "
                          f"the expansion of the new list is {sorted(want.items())}", {"scenario": sc})
        elif not finished:
            ctx.violation(f"C16|generator-does-not-complete|rerun", f"second run of the generator over {sc['second']}: every interrupt was answered but the process did not finish", {"scenario": sc})
        else:
            ctx.nontrivial(["rerun", sc["first"], sc["second"], sc["uses"]])


def run(ctx):
    ctx.check_theorems("ActsModel.Props.C16")
    judge_rerun(ctx, rerun_scenarios(ctx.seed, 24 if ctx.tier == "quick" else 400))
    n = 250 if ctx.tier == "quick" else 5000
    scs = [gen_scenario(ctx.seed, i, ctx.tier) for i in range(n)]
    def batches():
        for lo in range(0, len(scs), 500):
            part = scs[lo:lo + 500]
            res = ctx.harness("run", [{k: v for k, v in sc.items() if k not in ("hooks", "policy")} for sc in part], tag="h%d" % (lo // 500))
            for pair in zip(part, judge(ctx, part, res)):
                yield pair
    tot = Counter()
    for sc, (bad, stats) in batches():
        ctx.cov["evaluations"] += 1
        for k, v in stats.items():
            tot[k] += int(v)
        sc.pop("_expand", None)
        if bad:
            ctx.cov["monitor_failures"] += 1
            sig, what = bad[0]
            ctx.violation(f"C16|{sig}", what, {"scenario": sc})
        elif stats.get("groups") or stats.get("fires") or stats.get("pushes"):
            ctx.nontrivial([sc["models"], sc["ops"]])
    # ---- (recorded finding, fixed scenarios) the client skips one generated act of a parallel generator while the other groups are open:
    #      the generating act must not end before every generated act is terminal
    fscs = []
    for nel, which in ((2, 0), (3, 0), (3, 2), (4, 1)):
        w = {"id": "m1", "steps": [{"id": "s1", "acts": [{"id": "g", "uses": PAR, "params": {"in": list(range(nel)), "acts": [{"id": "ga", "uses": gen.IRQ, "key": "kg"}]}}]},
                                   {"id": "s2", "acts": [{"id": "z", "uses": gen.IRQ, "key": "kz"}]}]}
        fscs.append({"id": f"c16-skip-one-group-{nel}-{which}", "config": {"keep": True, "dump_each": True}, "models": [w], "exprs": {},
                     "ops": [["deploy", 0], ["start", "m1", {"pid": "p1"}], ["runall"], ["act", "skip", "p1", {"open": which}, {}], ["runall"]]})
    for fsc, fres in zip(fscs, ctx.harness("run", fscs, tag="sk", shards=1)):
        ctx.cov["evaluations"] += 1
        last = None
        for _, o in obs_of(fres, {"dump"}):
            if o.get("pid") == "p1" and not o.get("absent"):
                last = o
        if last is None:
            continue
        tot["skip_one_group_runs"] += 1
        g = [t for t in last["tasks"] if t["nid"] == "g"]
        open_acts = [t["tid"] for t in last["tasks"] if t["nid"] == "ga" and t["state"] in ("interrupted", "running", "pending", "ready", "none")]
        if g and g[0]["state"] in TERMINAL_STATES and open_acts:
            ctx.violation("C16|generator-ends-before-groups|skip-one-group", f"one generated act of the parallel generator g was skipped by the client: g is {g[0]['state']} "
                          f"and the flow has gone on while the generated acts {open_acts} are still open", {"scenario": fsc})
        else:
            ctx.nontrivial(["skip-one-group", fsc["id"]])
    ctx.sample({"model": scs[0]["models"][0], "ops": scs[0]["ops"][:5]}, limit=1)
    ctx.cov["correspondence"] = {"distribution": dict(tot), "streams_compared": ["messages of generated acts ($index/$value, order, round) against `Generate.expand` evaluated by the Lean driver", "hook messages against `Generate.fires` (Lean) over the lifecycle events read off the transitions",
                                                                               "tasks created by a push"]}
    ctx.cov["rule"] = ("workflows with parallel / sequence generators over lists of 0..4 elements, 1..3 acts per group, one level of nested generators, lifecycle hooks (five events) on workflow / steps / acts, "
                       "pushes into steps; interrupts answered in seeded orders under FIFO / LIFO / random release orders; non-trivial = a run with generated groups, hook firings or pushes")
    ctx.cov["clauses_proved"] = ["expansion: one group per element, own index and value for every act of the group, list order (K3)", "sequence opens group k+1 only when group k is done; parallel opens all; the generator is done iff all groups are (K3 on the abstract generator)",
                                 "a hook fires once per event of its class and never for another class (K1 + K3 over event lists)"]
    ctx.cov["clauses_not_proved"] = ["that the engine's generators and hooks refine these models (decided by the monitors)"]


def replay(ctx, data):
    ctx.build([])
    sc = data["replay"]["scenario"]
    res = ctx.harness("run", [{k: v for k, v in sc.items() if k not in ("hooks", "policy", "_expand")}])[0]
    print(judge(ctx, [sc], [res])[0][0])
    return 0
