"""correspondence between the real engine (stepped harness) and the operational Lean model, op by op"""
import json


def norm_engine(o):
    k = o.get("k")
    if k == "new":
        return ("new", o["pid"], o["tid"], o["nid"], o["kind"], o.get("prev"))
    if k == "tr":
        return ("tr", o["pid"], o["tid"], o["old"], o["new"])
    if k == "ptr":
        return ("ptr", o["pid"], o["old"], o["new"])
    if k == "gen":
        return ("gen", o["pid"], o["tid"], o["nid"], o["type"], o["state"], o["key"], o["uses"], o["tag"],
                json.dumps(o.get("inputs"), sort_keys=True), json.dumps(o.get("outputs"), sort_keys=True))
    if k == "pev" and o.get("chan") == "default":
        return ("pev", o["ev"], o["pid"], o["state"], json.dumps(o.get("outputs"), sort_keys=True))
    if k == "res":
        return ("res", bool(o.get("ok")), None if o.get("ok") else o.get("err"))
    if k == "queue":
        return ("queue", json.dumps(o.get("q")))
    return None


def norm_model(o):
    k = o.get("k")
    if k == "pev":
        return ("pev", o["ev"], o["pid"], o["state"], json.dumps(o.get("outputs"), sort_keys=True))
    if k == "res":
        return ("res", bool(o.get("ok")), None if o.get("ok") else o.get("err"))
    if k in ("rm", "dump"):
        return None
    return norm_engine(o)


def dump_norm(d):
    if d is None or d.get("absent"):
        return None
    return {"state": d.get("state"), "env": d.get("env"), "err": d.get("err"),
            "tasks": [{"tid": t["tid"], "nid": t["nid"], "state": t["state"], "prev": t["prev"], "data": t["data"], "err": t["err"]} for t in d.get("tasks", [])]}


ERR_EQUIV = {"not-found": None}


def compare(sc, eng, mod, kinds, with_dump=False):
    """returns None or (op index, kind of disagreement, detail) for the first differing op; unsupported model features -> ('unsupported', ...)"""
    esteps = {st["op"]: st["obs"] for st in eng.get("steps", [])}
    msteps = mod.get("steps", []) if isinstance(mod, dict) else []
    removed = set()
    for i, op in enumerate(sc["ops"]):
        if i < len(msteps):
            removed |= {o["pid"] for o in msteps[i]["obs"] if o.get("k") == "rm"}
        if i not in esteps or i >= len(msteps):
            if i in esteps and any(o.get("k") == "dead" for o in esteps[i]):
                return None
            break
        eobs = esteps[i]
        mobs = msteps[i]["obs"]
        if any(o.get("k") == "stuck" for o in eobs):
            return (i, "engine-stuck", "the engine's scheduler loop died or work never drained")
        if any(o.get("k") == "dead" for o in eobs):
            return None
        unsupported = [o for o in mobs if o.get("k") == "res" and str(o.get("err", "")).startswith("unsupported")]
        unsupported += [o for o in mobs if o.get("k") == "tr" and False]
        for o in mobs:
            if o.get("k") == "gen" or o.get("k") == "pev":
                ins = o.get("inputs", {})
                if isinstance(ins, dict) and str(ins.get("message", "")).startswith("unsupported"):
                    unsupported.append(o)
            if o.get("k") == "dump":
                for t in o.get("tasks", []):
                    if t.get("err") and str(t["err"].get("message", "")).startswith("unsupported"):
                        unsupported.append(t)
        if unsupported:
            return (i, "unsupported", json.dumps(unsupported[0])[:200])
        e = [x for x in (norm_engine(o) for o in eobs) if x and x[0] in kinds]
        m = [x for x in (norm_model(o) for o in mobs) if x and x[0] in kinds]
        # observation order: the harness lists the trace first, then res, then deliveries; compare per kind
        for kind in kinds:
            ek = [x for x in e if x[0] == kind]
            mk = [x for x in m if x[0] == kind]
            if kind == "res":
                # error text of a failing task is canonicalised by class only
                ek = [(a, b, ERR_EQUIV.get(c, c)) for a, b, c in ek]
                mk = [(a, b, ERR_EQUIV.get(c, c)) for a, b, c in mk]
            if ek != mk:
                j = next((k for k in range(min(len(ek), len(mk))) if ek[k] != mk[k]), min(len(ek), len(mk)))
                # the engine keeps executing queued tasks of a process it has already removed (they hold the process alive);
                # the model has dropped the process: not a disagreement of the model but the territory of a known defect
                pid_of = (ek[j][1] if j < len(ek) and len(ek[j]) > 1 else None)
                if pid_of in removed_before(msteps, i):
                    return (i, "exec-after-removal", f"engine executes a task of removed process {pid_of}")
                return (i, kind, f"engine[{j}]={ek[j] if j < len(ek) else None} model[{j}]={mk[j] if j < len(mk) else None} (engine {len(ek)} / model {len(mk)} items)")
        if with_dump:
            ed = {o["pid"]: dump_norm(o) for o in eobs if o.get("k") == "dump"}
            md = {o["pid"]: dump_norm(o) for o in mobs if o.get("k") == "dump"}
            # a process that was dropped from the cache (`evict`) has no live image until something reaches it again: its rows are
            # compared by C11 / C12, its image again at the next operation that loads it
            evicted = {op[1] for op in sc["ops"][: i + 1] if op and op[0] == "evict"}
            for pid, d in ed.items():
                if d is None:
                    if pid in md and pid not in evicted:
                        return (i, "dump", f"process {pid} gone in the engine, present in the model")
                    continue
                if pid not in md:
                    return (i, "dump", f"process {pid} live in the engine, absent in the model")
                x, y = d, md[pid]
                if x["state"] != y["state"] or x["env"] != y["env"]:
                    return (i, "dump", f"proc {pid}: engine state={x['state']} env={x['env']}, model state={y['state']} env={y['env']}")
                if len(x["tasks"]) != len(y["tasks"]):
                    return (i, "dump", f"proc {pid}: {len(x['tasks'])} tasks vs {len(y['tasks'])}")
                for a, b in zip(x["tasks"], y["tasks"]):
                    for f in ("tid", "nid", "state", "prev", "data"):
                        if f == "data" and pid in evicted and isinstance(a[f], dict) and isinstance(b[f], dict):
                            # `$params` is a memo of the evaluated parameters: it is not part of the rows (C11) and is gone after a reload
                            a = dict(a, data={k: v for k, v in a[f].items() if k != "$params"})
                            b = dict(b, data={k: v for k, v in b[f].items() if k != "$params"})
                        if a[f] != b[f]:
                            return (i, "dump", f"task {a['tid']} ({a['nid']}) field {f}: engine {json.dumps(a[f])[:150]} model {json.dumps(b[f])[:150]}")
                    if (a["err"] or {}).get("ecode") != (b["err"] or {}).get("ecode") or bool(a["err"]) != bool(b["err"]):
                        return (i, "dump", f"task {a['tid']} err: engine {a['err']} model {b['err']}")
    return None


def removed_before(msteps, i):
    out = set()
    for k in range(min(i, len(msteps))):
        out |= {o["pid"] for o in msteps[k]["obs"] if o.get("k") == "rm"}
    return out


def model_request(sc, exprs=None):
    return {"cmd": "op.run", "models": sc["models"], "exprs": exprs if exprs is not None else sc.get("exprs", {}),
            "config": sc.get("config", {}), "ops": sc["ops"]}
