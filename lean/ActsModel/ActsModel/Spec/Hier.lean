import ActsModel.Gen.State
import ActsModel.Gen.Emit

/-!
C03 as predicates on the observation stream of one process: hierarchical completion, process state
mirrors the root, exactly one start and one terminal event, nothing open behind a non-error ending.
-/
namespace Acts.Spec
open Acts.Gen

structure HTask where
  tid : Nat
  kind : String
  level : Nat
  prev : Option Nat
  state : TaskState := .none
  hook : Bool := false            -- a lifecycle-hook act (never reviews its parent)
  deriving Repr

inductive HEv where
  | new (t : HTask)
  | tr (tid : Nat) (s : TaskState)
  | hook (tid : Nat)                                   -- the task turned out to be a hook act
  | pev (kind : String)                                -- start / complete / error delivered
  | quiescent (procState : TaskState)                  -- a quiescent point: the process state as the API shows it
  deriving Repr

/-- `Task::parent` on the observed tasks -/
def hParent (ts : List HTask) (t : HTask) : Option HTask :=
  let rec go (fuel : Nat) (prev : Option Nat) : Option HTask :=
    match fuel, prev with
    | 0, _ => none
    | _, none => none
    | fuel + 1, some q =>
      match ts.find? (·.tid == q) with
      | none => none
      | some p => if p.level < t.level then some p else go fuel p.prev
  go (ts.length + 1) t.prev

def hHasAncestor (ts : List HTask) (anc : Nat) (t : HTask) : Bool :=
  let rec go (fuel : Nat) (t : HTask) : Bool :=
    match fuel with
    | 0 => false
    | fuel + 1 => match hParent ts t with
      | some p => p.tid == anc || go fuel p
      | none => false
  go (ts.length + 1) t

structure HState where
  tasks : List HTask := []
  starts : Nat := 0
  terminals : Nat := 0
  nonErrorEnd : Bool := false

/-- first violated clause: (position, clause, task id concerned) -/
def hierStep (st : HState) (i : Nat) : HEv → HState × Option (Nat × String × Nat)
  | .new t => ({ st with tasks := st.tasks ++ [t] }, none)
  | .hook tid => ({ st with tasks := st.tasks.map fun t => if t.tid == tid then { t with hook := true } else t }, none)
  | .tr tid s =>
    let tasks := st.tasks.map fun t => if t.tid == tid then { t with state := s } else t
    let st' := { st with tasks := tasks }
    -- (a) a task written `completed` has no open task beneath it
    if s == .completed then
      match tasks.find? fun t => !t.state.isCompleted && !t.hook && hHasAncestor tasks tid t with
      | some open_ => (st', some (i, "completed-with-open-descendant", open_.tid))
      | none => (st', none)
    else (st', none)
  | .pev kind =>
    if kind == "start" then
      let st' := { st with starts := st.starts + 1 }
      (st', if st'.starts > 1 then some (i, "second-start-event", 0) else none)
    else
      let st' := { st with terminals := st.terminals + 1, nonErrorEnd := st.nonErrorEnd || kind == "complete" }
      if st'.terminals > 1 then (st', some (i, "second-terminal-event", 0))
      else if st.starts == 0 then (st', some (i, "terminal-event-without-start", 0))
      else (st', none)
  | .quiescent procState =>
    let root := st.tasks.find? (·.tid == 0)
    match root with
    | some r =>
      -- (b) the process state equals the root's (a root that has not left `none` belongs to a running process)
      if r.state != procState && !(r.state == .none && procState == .running) then (st, some (i, "process-state-differs-from-root", 0))
      -- (d) after a non-error terminal event nothing but hook acts is open
      else if st.nonErrorEnd then
        match st.tasks.find? fun t => !t.state.isCompleted && !t.hook with
        | some t => (st, some (i, "open-task-after-nonerror-terminal-event", t.tid))
        | none => (st, none)
      else if r.state.isCompleted && st.terminals == 0 then (st, some (i, "terminal-root-without-event", 0))
      else
        -- (e) nothing is open beneath a task that reported `completed` — also not a task that was started beneath it afterwards
        match st.tasks.find? fun t => !t.state.isCompleted && !t.hook &&
            st.tasks.any (fun a => a.state == .completed && hHasAncestor st.tasks a.tid t) with
        | some t => (st, some (i, "open-task-beneath-completed-ancestor", t.tid))
        | none => (st, none)
    | none => (st, none)

def hierMonitor : HState → Nat → List HEv → Option (Nat × String × Nat)
  | _, _, [] => none
  | st, i, e :: es =>
    match hierStep st i e with
    | (_, some v) => some v
    | (st', none) => hierMonitor st' (i + 1) es

end Acts.Spec
