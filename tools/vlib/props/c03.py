"""C03 — hierarchical completion and exactly one terminal event per process"""
import json

from .. import gen, opcorr
from ..core import obs_of
from ..rng import Rng

ASSUMPTIONS = [
    "events are observed on the default channel's start/complete/error callbacks",
    "parent/child is the engine's own relation (walk prev until a smaller node level), recomputed by the Lean monitor from the creation trace",
]


def handler_family(rng, i):
    """handler lists (catch / timeout) of two and more steps: the later steps hang behind the first one, not below the step that owns the
    list, and the owner still has to wait for them"""
    def hsteps(prefix):
        n = rng.range(2, 3)
        out = []
        for j in range(n):
            last = j == n - 1
            out.append({"id": f"{prefix}{j}", "acts": [{"id": f"{prefix}a{j}", "uses": gen.IRQ if (last or rng.chance(1, 3)) else gen.MSG, "key": f"k{prefix}{j}"}]})
        return out

    use_timeout = rng.chance(1, 3)
    if use_timeout:
        s1 = {"id": "s1", "acts": [{"id": "a1", "uses": gen.IRQ, "key": "ka1"}], "timeout": [{"on": "1s", "steps": hsteps("t")}]}
        if rng.chance(1, 2):
            s1["acts"][0]["timeout"] = s1.pop("timeout")
        w = {"id": "m1", "steps": [s1, {"id": "s2", "acts": [{"id": "a9", "uses": gen.IRQ, "key": "ka9"}]}]}
        ops = [["deploy", 0], ["start", "m1", {"pid": "p1", "x": 0, "y": 0}], ["runall"], ["tick", 2000], ["runall"]]
    else:
        owner_is_step = rng.chance(2, 3)
        catch = [{"on": rng.pick([None, "e1"]), "steps": hsteps("c")}]
        if catch[0]["on"] is None:
            catch[0].pop("on")
        a1 = {"id": "a1", "uses": gen.IRQ, "key": "ka1"}
        s1 = {"id": "s1", "branches": [{"id": "b1", "if": "true", "steps": [{"id": "s11", "acts": [a1]}]},
                                       {"id": "b2", "if": "true", "steps": [{"id": "s12", "acts": [{"id": "a2", "uses": gen.IRQ, "key": "ka2"}]}]}]}
        if owner_is_step:
            s1["catches"] = catch
        else:
            a1["catches"] = catch
        w = {"id": "m1", "steps": [s1, {"id": "s2", "acts": [{"id": "a9", "uses": gen.IRQ, "key": "ka9"}]}]}
        ops = [["deploy", 0], ["start", "m1", {"pid": "p1", "x": 0, "y": 0}], ["runall"],
               ["act", "error", "p1", {"nid": "a1", "k": 0}, {"ecode": "e1", "message": "boom"}], ["runall"]]
    # the regular work ends while the handler is still open, then the handler ends
    for _ in range(rng.range(3, 6)):
        ops.append(["act", "next", "p1", {"open": rng.below(3)}, {}])
        ops.append(["runall", rng.pick(["fifo", "lifo"]), rng.below(1 << 30)])
    for _ in range(5):
        ops.append(["act", "next", "p1", {"open": 0}, {}])
        ops.append(["runall"])
    return {"id": f"c03-h-{i}", "config": {"keep": rng.chance(2, 3), "dump_each": True, "tick_secs": 1}, "models": [w], "ops": ops, "exprs": {"true": ["lit", True]},
            "features": ["handler-list", "timeout" if use_timeout else "catch"]}


def acting_act_scenario():
    """the recorded finding `orphan:acting-act` in its smallest form: an action act fails its own step, the step's empty catch takes the error"""
    w = {"id": "m1", "steps": [{"id": "s1", "catches": [{"on": "e9", "steps": []}],
                                "branches": [{"id": "b1", "if": "true", "steps": [{"id": "s11", "acts": [
                                    {"id": "a1", "uses": "acts.core.action", "params": {"action": "error", "options": {"ecode": "e9", "message": "from inside"}}},
                                    {"id": "a2", "uses": gen.IRQ, "key": "ka2"}]}]}]},
                               {"id": "s2", "acts": [{"id": "a3", "uses": gen.IRQ, "key": "ka3"}]}]}
    ops = [["deploy", 0], ["start", "m1", {"pid": "p1", "x": 0, "y": 0}], ["runall"]]
    for _ in range(3):
        ops += [["act", "next", "p1", {"open": 0}, {}], ["runall"]]
    return {"id": "c03-acting-act", "config": {"keep": True, "dump_each": True}, "models": [w], "ops": ops, "exprs": {"true": ["lit", True]}, "features": ["action-act", "catch", "branches"]}


def queued_scenario(rng, i):
    """a task that is closed while it still waits in the scheduler queue: an answer creates the next act of a chain, and before the scheduler
    runs it the process is ended (or the step closed) from another branch"""
    chain = [{"id": f"x{j}", "uses": gen.IRQ if j != 2 or rng.chance(2, 3) else gen.MSG, "key": f"kx{j}"} for j in range(1, rng.range(3, 4) + 1)]
    other = [{"id": "y1", "uses": gen.IRQ, "key": "ky1"}]
    w = {"id": "m1", "steps": [{"id": "s1", "branches": [{"id": "b1", "if": "true", "steps": [{"id": "s11", "acts": chain}]},
                                                        {"id": "b2", "if": "true", "steps": [{"id": "s12", "acts": other}]}]},
                               {"id": "s2", "acts": [{"id": "a9", "uses": gen.IRQ, "key": "ka9"}]}]}
    ops = [["deploy", 0], ["start", "m1", {"pid": "p1", "x": 0, "y": 0}], ["runall"],
           ["act", "next", "p1", {"nid": "x1", "k": 0}, {}]]
    if rng.chance(1, 3):
        ops.append(["run", 0])
    ops.append(["act", rng.pick(["abort", "abort", "error", "skip"]), "p1", {"nid": "y1", "k": 0}, {"ecode": "e1", "message": "x"}])
    ops.append(["runall", rng.pick(["fifo", "lifo"]), rng.below(1 << 30)])
    for _ in range(4):
        ops.append(["act", "next", "p1", {"open": 0}, {}])
        ops.append(["runall"])
    return {"id": f"c03-q-{i}", "config": {"keep": rng.chance(2, 3), "dump_each": True}, "models": [w], "ops": ops, "exprs": {"true": ["lit", True]},
            "features": ["branches", "queued"]}


def failing_hook_scenario(rng, i):
    """a lifecycle hook whose act fails after its owner — the last step, or the whole process — has reported its end: the ending stays what it was"""
    bad = {"uses": gen.CODE, "on": rng.pick(["completed", "completed", "updated", "step"]), "params": "throw new Error('hook failed');"}
    steps = [{"id": f"s{j}", "acts": [{"id": f"a{j}", "uses": gen.IRQ if rng.chance(2, 3) else gen.MSG, "key": f"ka{j}"}]} for j in range(1, rng.range(1, 3) + 1)]
    w = {"id": "m1", "steps": steps}
    where = rng.below(3)
    if where == 0:
        w["setup"] = [bad]
    elif where == 1:
        steps[-1]["setup"] = [bad]
    else:
        steps[-1]["acts"][-1]["setup"] = [dict(bad, on="completed")]
    ops = [["deploy", 0], ["start", "m1", {"pid": "p1", "x": 0, "y": 0}], ["runall"]]
    for _ in range(5):
        ops.append(["act", "next", "p1", {"open": 0}, {}])
        ops.append(["runall", rng.pick(["fifo", "lifo"]), rng.below(1 << 30)])
    return {"id": f"c03-fh-{i}", "config": {"keep": rng.chance(2, 3), "dump_each": True}, "models": [w], "ops": ops, "exprs": {}, "features": ["hooks", "failing-hook"]}


def late_hook_error_scenario(rng, i):
    """the act of an `on: completed` hook stays open (an interrupt) after its owner has ended — by next, skip, submit or remove — and is
    answered with `error` while the process is still alive: the owner's ending stays what it was"""
    hk = {"id": "hk", "uses": gen.IRQ, "key": "khk", "on": "completed"}
    a1 = {"id": "a1", "uses": gen.IRQ, "key": "ka1", "setup": [hk]}
    if rng.chance(1, 3):
        a1["catches"] = [{"steps": [{"id": "h1", "acts": [{"id": "h1a", "uses": gen.IRQ, "key": "kh1a"}]}]}]
    w = {"id": "m1", "steps": [{"id": "s1", "acts": [a1]}, {"id": "s2", "acts": [{"id": "a2", "uses": gen.IRQ, "key": "ka2"}]}]}
    how = rng.pick(["skip", "submit", "remove", "next", "skip", "submit"])
    ops = [["deploy", 0], ["start", "m1", {"pid": "p1", "x": 0, "y": 0}], ["runall"],
           ["act", how, "p1", {"nid": "a1", "k": -1}, {}], ["runall", rng.pick(["fifo", "lifo"]), rng.below(1 << 30)],
           ["act", "error", "p1", {"nid": "hk", "k": -1}, {"ecode": "e1", "message": "late"}], ["runall", rng.pick(["fifo", "lifo"]), rng.below(1 << 30)]]
    for _ in range(4):
        ops.append(["act", "next", "p1", {"open": 0}, {}])
        ops.append(["runall"])
    return {"id": f"c03-lhe-{i}", "config": {"keep": True, "dump_each": True}, "models": [w], "ops": ops, "exprs": {}, "features": ["hooks", "late-hook-error"]}


def timeout_after_end_scenario(rng, i):
    """a timeout rule of a task that has ended — by next, skip, submit or remove — before its limit: the clock passes the limit while the
    process is still alive, and later ends; nothing is started beneath the ended task, nothing is open behind the terminal event"""
    rule = {"on": "2s", "steps": [{"id": "t1", "acts": [{"id": "t1a", "uses": gen.IRQ, "key": "kt1a"}]}]}
    a1 = {"id": "a1", "uses": gen.IRQ, "key": "ka1"}
    s1 = {"id": "s1", "acts": [a1]}
    (a1 if rng.chance(2, 3) else s1)["timeout"] = [rule]
    w = {"id": "m1", "steps": [s1, {"id": "s2", "acts": [{"id": "a2", "uses": gen.IRQ, "key": "ka2"}]}]}
    how = rng.pick(["skip", "submit", "remove", "next", "skip", "submit"])
    ops = [["deploy", 0], ["clock", rng.below(900)], ["start", "m1", {"pid": "p1", "x": 0, "y": 0}], ["runall"],
           ["tick", rng.pick([100, 900, 1500])], ["runall"],
           ["act", how, "p1", {"nid": "a1", "k": -1}, {}], ["runall"],
           ["tick", rng.pick([2000, 2500, 60000])], ["runall"],
           ["act", "next", "p1", {"nid": "a2", "k": -1}, {}], ["runall"],
           ["tick", 5000], ["runall"]]
    return {"id": f"c03-tae-{i}", "config": {"keep": True, "dump_each": True}, "models": [w], "ops": ops, "exprs": {}, "features": ["timeout", "timeout-after-end"]}


def gen_scenario(seed, i):
    if i == 0:
        return acting_act_scenario()
    rng = Rng(seed * 179424673 + i)
    if i % 8 == 1:
        return failing_hook_scenario(rng, i) if i % 16 == 1 else late_hook_error_scenario(rng, i)
    if i % 8 == 5:
        return queued_scenario(rng, i) if i % 16 == 5 else timeout_after_end_scenario(rng, i)
    if i % 8 == 7:
        return handler_family(rng, i)
    g = gen.WfGen(rng.fork("wf"), depth=rng.pick([1, 2, 2]), max_steps=3, max_branches=3, max_acts=3, p_if=10, p_branches=60,
                  needs=rng.chance(1, 4), mixed=rng.chance(1, 3), act_kinds=((gen.IRQ, 7), (gen.MSG, 1)), catches=rng.chance(1, 5))
    w = g.workflow("m1")
    if i % 8 == 3:
        # acts that end their own step from inside the workflow (acts.core.action with abort / error)
        def walk(steps):
            for st in steps:
                acts = st.get("acts", [])
                if acts and rng.chance(1, 2):
                    k = rng.below(len(acts) + 1)
                    # (skip / submit / next from inside close the step over its open acts: the orphan class already recorded for client actions)
                    # (an error from inside that a catch takes leaves the acting act running — recorded finding, shown by the fixed scenario
                    #  `acting_act_scenario`; the random family raises errors from inside only where nothing catches them)
                    ev = rng.pick(["abort", "error"]) if "catch" not in g.features else "abort"
                    acts.insert(k, {"id": g.fresh("a"), "uses": "acts.core.action", "params": {"action": ev, "options": {"ecode": "e1", "message": "from inside"}}})
                    g.features.add("action-act")
                for b in st.get("branches", []):
                    walk(b.get("steps", []))
        walk(w["steps"])
    ops = [["deploy", 0], ["start", "m1", {"pid": "p1", "x": rng.below(4), "y": rng.below(4)}]]
    ops += gen.random_history(rng.fork("h"), n=rng.range(6, 16), stepped_p=15,
                              actions=["next", "next", "next", "submit", "skip", "remove", "abort", "error", "next"])
    # finish: answer everything that is left
    for _ in range(6):
        ops.append(["act", "next", "p1", {"open": 0}, {}])
        ops.append(["runall"])
    sc = {"id": f"c03-{seed}-{i}", "config": {"keep": rng.chance(2, 3), "dump_each": True}, "models": [w], "ops": ops, "exprs": g.exprs,
          "features": sorted(g.features)}
    return sc


def events_of(sc, res):
    evs = []
    where = []
    hooks = set()
    # which tasks are hook acts is known from the dumps (the mark is set right after the task is created): the monitor is told at creation
    hook_tids = {t["tid"] for st in res.get("steps", []) for o in st["obs"] if o.get("k") == "dump" and o.get("pid") == "p1" and not o.get("absent")
                 for t in o["tasks"] if t["data"].get("$is_event_processed")}
    for st in res.get("steps", []):
        i = st["op"]
        obs = st["obs"]
        for o in obs:
            k = o.get("k")
            if o.get("pid") not in (None, "p1") and k in ("new", "tr", "pev"):
                continue
            if k == "new":
                evs.append(["new", o["tid"], o["kind"], o.get("level", 0), o.get("prev")])
                where.append(i)
                if o["tid"] in hook_tids and o["tid"] not in hooks:
                    hooks.add(o["tid"])
                    evs.append(["hook", o["tid"]])
                    where.append(i)
            elif k == "hookact" and o["tid"] not in hooks:
                # the engine's own record that the task just created is the act of a lifecycle hook
                hooks.add(o["tid"])
                evs.append(["hook", o["tid"]])
                where.append(i)
            elif k == "tr":
                evs.append(["tr", o["tid"], o["new"]])
                where.append(i)
            elif k == "pev" and o.get("chan") == "default":
                evs.append(["pev", o["ev"]])
                where.append(i)
        d = [o for o in obs if o.get("k") == "dump" and o.get("pid") == "p1"]
        q = [o for o in obs if o.get("k") == "queue"]
        if d and not d[0].get("absent"):
            for t in d[0]["tasks"]:
                if t["data"].get("$is_event_processed") and t["tid"] not in hooks:
                    hooks.add(t["tid"])
                    evs.append(["hook", t["tid"]])
                    where.append(i)
            if q and len(q[0]["q"]) == 0:
                evs.append(["q", d[0]["state"]])
                where.append(i)
    return evs, where


def run(ctx):
    ctx.check_theorems("ActsModel.Props.C03")
    n = 1200 if ctx.tier == "quick" else 8000
    scs = [gen_scenario(ctx.seed, i) for i in range(n)]
    results = ctx.harness("run", scs)
    models = ctx.driver([opcorr.model_request(sc) for sc in scs], tag="dm")
    evl = [events_of(sc, res) for sc, res in zip(scs, results)]
    verdicts = ctx.driver([{"cmd": "c03.monitor", "events": e} for e, _ in evl], tag="dv")
    stats = {"scenarios": n, "parallel_open": 0, "terminal_events": 0, "error_endings": 0, "abort_endings": 0, "op_model_agree": 0, "stuck": 0}
    for sc, res, mod, (evs, where), vd in zip(scs, results, models, evl, verdicts):
        ctx.cov["evaluations"] += 1
        if res.get("panic") or res.get("crashed"):
            ctx.violation("C03|engine-panic", f"engine panicked: {str(res.get('panic'))[:100]}", {"scenario": sc})
            continue
        stuck = [i for i, o in obs_of(res, {"stuck"})]
        if stuck:
            stats["stuck"] += 1
            ctx.violation("C03|scheduler-dies-after-terminal-event",
                          f"op {stuck[0]}: a task of an already removed process was executed and the scheduler loop panicked (the engine stops for every process)",
                          {"scenario": sc, "op": stuck[0]})
            continue
        # non-trivial: two interrupts open at once at some quiescent point
        par = False
        for _, o in obs_of(res, {"dump"}):
            if not o.get("absent") and sum(1 for t in o["tasks"] if t["state"] == "interrupted") >= 2:
                par = True
        if par:
            stats["parallel_open"] += 1
            ctx.nontrivial([sc["models"], sc["ops"]])
        pevs = [o for _, o in obs_of(res, {"pev"}) if o.get("chan") == "default" and o.get("ev") != "start"]
        stats["terminal_events"] += len(pevs)
        stats["error_endings"] += sum(1 for o in pevs if o.get("ev") == "error")
        stats["abort_endings"] += sum(1 for o in pevs if o.get("state") == "aborted")
        if isinstance(vd, dict) and vd.get("ok") is False:
            ctx.cov["monitor_failures"] += 1
            at = vd.get("at", 0)
            op = where[at] if at < len(where) else None
            why = vd.get("why")
            trigger = sc["ops"][op][1] if op is not None and sc["ops"][op][0] == "act" else (sc["ops"][op][0] if op is not None else "?")
            feat = "mixed" if "mixed" in sc["features"] else ("branches" if "branches" in sc["features"] else "linear")
            if why in ("completed-with-open-descendant", "open-task-beneath-completed-ancestor"):
                orphan = orphan_cause(evs[: at + 1], vd.get("tid")) if why == "completed-with-open-descendant" else "started-later"
                # an acts.core.action act that has ended its own step (with an error that a catch above takes, or any way that lets the flow go on)
                # is itself still running, completes afterwards and starts its successor: one root cause, whatever ancestor is seen closed first
                nid_of = {o["tid"]: o["nid"] for _, o in obs_of(res, {"new"})}
                acting = {a["id"] for st_ in all_steps(sc["models"][0].get("steps", [])) for a in st_.get("acts", []) if a.get("uses") == "acts.core.action"}
                prev_of = {o["tid"]: o.get("prev") for _, o in obs_of(res, {"new"})}
                if nid_of.get(vd.get("tid")) in acting or nid_of.get(prev_of.get(vd.get("tid"))) in acting:
                    orphan = "orphan:acting-act"
                sig = f"C03|completed-with-open-descendant|{orphan}"
            elif why == "open-task-after-nonerror-terminal-event":
                # which action ended the process
                ender = next((sc["ops"][i][1] for i, o in obs_of(res, {"pev"}) if o.get("chan") == "default" and o.get("ev") == "complete" and sc["ops"][i][0] == "act"), "run")
                sig = f"C03|{why}|{ender}|{feat}"
            else:
                sig = f"C03|{why}|{trigger}|{feat}"
            if why == "completed-with-open-descendant":
                pass
            ctx.violation(sig, f"{why} at event {at} (op {op} {sc['ops'][op][:3] if op is not None else ''}), task {vd.get('tid')}; features {sc['features']}",
                          {"scenario": sc, "op": op, "event_index": at, "events": evs[max(0, at - 6): at + 1]})
            continue
        r = opcorr.compare(sc, res, mod, ["new", "tr", "ptr", "res", "queue", "pev"], with_dump=True)
        if r and r[1] not in ("unsupported", "exec-after-removal", "engine-stuck"):
            ctx.proof_break("correspondence: Op model", f"{sc['id']} op {r[0]} stream {r[1]}: {r[2][:300]}")
        else:
            stats["op_model_agree"] += 1
    ctx.sample({"scenario": scs[0]["id"], "model": scs[0]["models"][0], "ops": scs[0]["ops"][:8]}, limit=1)
    ctx.cov["correspondence"] = {"distribution": stats, "streams_compared": ["creation/transition trace + process events + quiescent dumps -> Lean monitor hierMonitor", "stepped runs vs Op model (incl. process events)"]}
    ctx.cov["rule"] = ("parallel shapes (>=2 branches with interrupts, steps mixing branches and act chains, catches), every action kind applied in one branch while siblings are open, "
                       "duplicate actions, keep_processes on and off; non-trivial = >=2 interrupts open at once at some quiescent point; distinct by (model, ops)")
    ctx.cov["clauses_proved"] = ["the monitor is sound for every stream: an accepted stream has at most one start and one terminal event (the terminal one after the start), nothing but hook acts open "
                                 "beneath a task at its `completed` write, the process state equal to the root's at every quiescent point, nothing open behind a `complete` event (K3)",
                                 "event table: complete xor error, exactly for terminal states (K1)", "a task without catch revive enters a terminal state at most once (all legal traces)",
                                 "Ref: completed iff everything beneath is done; finished => nothing open"]
    ctx.cov["clauses_not_proved"] = ["hierarchical completion of the engine under parallel composition (monitor on engine traces)"]


def all_steps(steps):
    for st in steps:
        yield st
        for b in st.get("branches", []):
            yield from all_steps(b.get("steps", []))
        for c in st.get("catches", []) + st.get("timeout", []):
            yield from all_steps(c.get("steps", []))
        for a in st.get("acts", []):
            for c in a.get("catches", []) + a.get("timeout", []):
                yield from all_steps(c.get("steps", []))


def orphan_cause(evs, tid):
    """is the open task sitting beneath an ancestor that has already been closed without it? -> orphan:<kind>-<state> of the nearest such ancestor"""
    tasks = {}
    for e in evs:
        if e[0] == "new":
            tasks[e[1]] = {"kind": e[2], "level": e[3], "prev": e[4], "state": "none"}
        elif e[0] == "tr" and e[1] in tasks:
            tasks[e[1]]["state"] = e[2]

    def parent(t):
        lvl = tasks[t]["level"]
        p = tasks[t]["prev"]
        while p is not None and p in tasks:
            if tasks[p]["level"] < lvl:
                return p
            p = tasks[p]["prev"]
        return None
    terminal = ("completed", "skipped", "aborted", "removed", "submitted", "error", "backed", "cancelled")
    t = tid
    seen = 0
    chain = []
    while t is not None and t in tasks and seen < 100:
        p = parent(t)
        if p is not None:
            chain.append(p)
        t = p
        seen += 1
    # the last event is the `completed` write that tripped the monitor: skip that task itself unless nothing else is closed
    closed = [p for p in chain if tasks[p]["state"] in terminal]
    inner = [p for p in closed[:-1]] if len(closed) > 1 else closed
    if inner:
        p = inner[0]
        return f"orphan:{tasks[p]['kind']}-{tasks[p]['state']}"
    return "counted-early"


def replay(ctx, data):
    ctx.build([])
    sc = data["replay"].get("scenario")
    if sc:
        res = ctx.harness("run", [sc])[0]
        evs, where = events_of(sc, res)
        vd = ctx.driver([{"cmd": "c03.monitor", "events": evs}])[0]
        print(vd)
        for e, w in zip(evs, where):
            print(w, e)
    return 0
