import ActsModel.Gen.Emit
import ActsModel.Gen.Fields

/-!
# C11 — The store always holds a complete image of what the engine knows
The proof-level content is about *what a row can hold* and *when the task event writes it*; that every
in-memory write is followed by a row write before the next quiescent point is decided on the engine
(live dump vs stored rows after every operation, both back ends).
-/
namespace Acts.C11
open Acts.Gen

/-- K1 (`on_task`): the row is written first, then the hooks run, then the message is built — a handler that reacts to a message
finds the row in the store -/
theorem upsert_precedes_message : onTaskOrder = ["upsert", "hooks", "message"] := by decide

/-- K1: a task row has a column for everything the property compares, and so has a process row -/
theorem rows_carry_the_image :
    (∀ f ∈ ["state", "prev", "data", "err", "start_time", "end_time", "hooks", "node_data", "tid", "pid"], f ∈ recordFields .tasks) ∧
    (∀ f ∈ ["state", "err", "env", "model", "start_time", "end_time"], f ∈ recordFields .procs) := by decide

/-- K1: and both back ends keep every one of these columns (the in-memory mappers used to drop `err`) -/
theorem image_columns_survive :
    (∀ f ∈ recordFields .tasks, (memDoc .tasks).lookup f = some f) ∧ (∀ f ∈ recordFields .procs, (memDoc .procs).lookup f = some f) ∧
    (∀ f ∈ recordFields .tasks, ∃ col, (sqlFromRow .tasks).lookup f = some col ∧ (sqlInsert .tasks).lookup col = some f) ∧
    (∀ f ∈ recordFields .procs, ∃ col, (sqlFromRow .procs).lookup f = some col ∧ (sqlInsert .procs).lookup col = some f) := by
  decide

end Acts.C11
