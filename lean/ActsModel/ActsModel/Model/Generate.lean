import ActsModel.Gen.Emit

/-!
# Generated acts (parallel / sequence / block) and lifecycle hooks

* `expand`: what a generator builds from its list: one group per element, every act of the group carrying the
  group's index and value (`parallel.rs` / `sequence.rs` build one block per element, `block.rs` copies the block's
  options to every act).
* `Gen`: the abstract scheduling of the groups.  A sequence opens group `k` when all groups before it are finished,
  a parallel generator opens all of them; the generator is complete when every group is finished.
* `fires`: hook dispatch.  `run_hooks` looks the lifecycle class of the event up and runs every statement registered
  under that class, once.
-/
namespace Acts.Generate
open Acts.Gen

structure Opened where
  key : String
  index : Nat
  value : String
  deriving DecidableEq, Repr

def expandGroup (acts : List String) (k : Nat) (v : String) : List Opened := acts.map (fun a => ⟨a, k, v⟩)

def expandFrom (acts : List String) : Nat → List String → List (List Opened)
  | _, [] => []
  | k, v :: vs => expandGroup acts k v :: expandFrom acts (k + 1) vs

/-- the groups a generator builds from `items` -/
def expand (items acts : List String) : List (List Opened) := expandFrom acts 0 items

-- ------------------------------------------------------------------ scheduling of the groups

structure Gen where
  seq : Bool
  n : Nat
  fin : List Nat
  deriving Repr

def Gen.finished (g : Gen) (k : Nat) : Bool := g.fin.contains k

/-- group `k` has been opened -/
def Gen.opened (g : Gen) (k : Nat) : Bool := decide (k < g.n) && (!g.seq || (List.range k).all g.finished)

/-- the generating act may complete -/
def Gen.complete (g : Gen) : Bool := (List.range g.n).all g.finished

/-- a group can only finish once it is open -/
def Gen.finish (g : Gen) (k : Nat) : Gen := if g.opened k && !g.finished k then { g with fin := k :: g.fin } else g

def Gen.run (g : Gen) (ks : List Nat) : Gen := ks.foldl Gen.finish g

/-- groups that are open and not finished -/
def Gen.active (g : Gen) : List Nat := (List.range g.n).filter (fun k => g.opened k && !g.finished k)

-- ------------------------------------------------------------------ hooks

/-- `run_hooks_by`: every statement registered under the class runs once -/
def fires (hooks : List (LifeCycle × String)) : Option LifeCycle → List String
  | none => []
  | some l => (hooks.filter (fun h => h.1 == l)).map (·.2)

/-- firings of a task's own hooks over the states its events report -/
def firesOwn (hooks : List (LifeCycle × String)) (events : List TaskState) : List String :=
  events.flatMap (fun s => fires hooks (ownLifeCycle s))

/-- firings of a step's (or the root's) hooks over the events of the acts below it -/
def firesFromActs (hooks : List (LifeCycle × String)) (events : List TaskState) : List String :=
  events.flatMap (fun s => fires hooks (actParentLifeCycle s))

/-- pushing an act appends one child -/
def push {α : Type} (children : List α) (a : α) : List α := children ++ [a]

/-! ## The review rule of a generating act (`Act::review`, hand transcription; the fixed skip-one-group scenarios of the C16 check run it on the engine) -/

/-- what the review of a running act sees of one child -/
inductive Child where
  | opn       -- still open (running, interrupted, pending …)
  | success   -- completed / submitted
  | skipped
  | error
  deriving Repr, DecidableEq

inductive Verdict where
  | stay | completed | skipped | error
  deriving Repr, DecidableEq

/-- the loop of `Act::review` over the children in creation order: the first child in error fails the act, the first skipped child
closes it as skipped **at once**, otherwise it completes when every child has succeeded -/
def reviewRule : List Child → Verdict
  | [] => .completed
  | .error :: _ => .error
  | .skipped :: _ => .skipped
  | .success :: cs => reviewRule cs
  | .opn :: cs => match reviewRule cs with
      | .completed => .stay
      | v => v

end Acts.Generate
