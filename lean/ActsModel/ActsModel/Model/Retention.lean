import ActsModel.Gen.Emit

/-!
`Store::remove_proc` / `Cache::remove` and the rule of `on_proc` that calls them.
-/
namespace Acts.Ret
open Acts.Gen

structure TaskRow where
  id : String          -- "<pid>:<tid>"
  pid : String
  deriving DecidableEq, Repr

structure St where
  procs : List String               -- ids of the process rows
  tasks : List TaskRow
  messages : List (String × String) -- (message id, pid)
  deriving Repr

/-- `Store::remove_proc`: the task rows found by `pid = p`, then the process row -/
def removeProc (s : St) (p : String) : St :=
  { s with tasks := s.tasks.filter (·.pid != p), procs := s.procs.filter (· != p) }

/-- `on_proc` on a terminal process -/
def onTerminal (keep : Bool) (s : St) (p : String) : St := if removeOnTerminal keep then removeProc s p else s

end Acts.Ret
