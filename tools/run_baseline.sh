#!/bin/sh
# runs the repository's pinned test suite with the verif feature OFF; prints a pass/fail summary
cd /repo || exit 2
if cargo nextest --version >/dev/null 2>&1 && [ -f /w/lib/nextest.toml ]; then
  exec cargo nextest run --workspace --no-fail-fast --tool-config-file pb:/w/lib/nextest.toml --profile pb --test-threads 8 --offline
else
  exec cargo test --workspace --no-fail-fast --offline
fi
