import ActsModel.Model.Iso
import ActsModel.Gen.Reload

/-!
# C13 — Processes are isolated; the outcome does not depend on load, cache capacity or threads
-/
namespace Acts.C13
open Acts.Iso

variable {S Op Out : Type}

@[simp] theorem upd_same {α : Type} (w : String → α) (p : String) (s : α) : upd w p s p = s := by simp [upd]
@[simp] theorem upd_other {α : Type} (w : String → α) (p q : String) (s : α) (h : q ≠ p) : upd w p s q = w q := by simp [upd, h]

/-- **Isolation.**  However the events of many processes are interleaved, the final state of a process and the outputs it
produced are those of running its own events alone (K3: every step function, every world, every interleaving, every pid). -/
theorem projection (step : S → Op → S × Out) (w : String → S) (es : List (String × Op)) (p : String) :
    (runW step w es).1 p = (run step (w p) (proj p es)).1 ∧
    proj p (runW step w es).2 = (run step (w p) (proj p es)).2 := by
  induction es generalizing w with
  | nil => simp [runW, run, proj]
  | cons e es ih =>
    obtain ⟨q, o⟩ := e
    by_cases h : q = p
    · subst h
      have := ih (upd w q (step (w q) o).1)
      simp only [upd_same] at this
      simp [runW, run, proj] at this ⊢
      exact this
    · have hb : (q == p) = false := by simpa using h
      have := ih (upd w q (step (w q) o).1)
      rw [upd_other _ _ _ _ (Ne.symm h)] at this
      simp [runW, proj, hb] at this ⊢
      exact this

/-- two interleavings with the same per-process event sequences give every process the same outcome -/
theorem schedule_independent (step : S → Op → S × Out) (w : String → S) (es es' : List (String × Op))
    (h : ∀ p, proj p es = proj p es') (p : String) :
    (runW step w es).1 p = (runW step w es').1 p ∧ proj p (runW step w es).2 = proj p (runW step w es').2 := by
  rw [(projection step w es p).1, (projection step w es p).2, (projection step w es' p).1, (projection step w es' p).2, h p]
  exact ⟨rfl, rfl⟩

/-- nothing leaks: a process that receives no event keeps its state and produces nothing -/
theorem untouched (step : S → Op → S × Out) (w : String → S) (es : List (String × Op)) (p : String)
    (h : ∀ e ∈ es, e.1 ≠ p) : (runW step w es).1 p = w p ∧ proj p (runW step w es).2 = [] := by
  have hp : proj p es = [] := by
    simp only [proj, List.map_eq_nil_iff, List.filter_eq_nil_iff]
    intro e he; simpa using h e he
  have := projection step w es p
  rw [hp] at this
  simpa [run] using this

-- ------------------------------------------------------------------ cache capacity and eviction

theorem coherent_step (step : S → Op → S × Out) (c : CS S) (e : CEv Op) (h : Coherent c) : Coherent (cstep step c e).1 := by
  intro p s
  cases e with
  | access q o =>
    by_cases hq : p = q
    · subst hq; simp [cstep]
    · simp [cstep, upd, hq]; exact h p s
  | evict q =>
    by_cases hq : p = q
    · subst hq; simp [cstep, upd]
    · simp [cstep, upd, hq]; exact h p s

theorem get_eq_store (c : CS S) (h : Coherent c) (p : String) : c.get p = c.store p := by
  unfold CS.get
  cases hc : c.cache p with
  | none => rfl
  | some s => simp [h p s hc]

/-- **Capacity independence.**  With write-through, a run with arbitrary evictions (any capacity, any policy, any moment
between steps) leaves the same store and produces the same outputs as the world without any cache. -/
theorem cache_transparent (step : S → Op → S × Out) (c : CS S) (es : List (CEv Op)) (h : Coherent c) :
    (crun step c es).1.store = (runW step c.store (accesses es)).1 ∧
    (crun step c es).2 = (runW step c.store (accesses es)).2 ∧ Coherent (crun step c es).1 := by
  induction es generalizing c with
  | nil => exact ⟨rfl, rfl, h⟩
  | cons e es ih =>
    have hc := coherent_step step c e h
    have := ih (cstep step c e).1 hc
    cases e with
    | access p o =>
      have hg := get_eq_store c h p
      simp only [crun, accesses, runW]
      simp only [cstep, hg] at this ⊢
      exact ⟨this.1, by rw [this.2.1], this.2.2⟩
    | evict p =>
      simp only [crun, accesses]
      simp only [cstep] at this ⊢
      exact this

/-- so two runs that differ only in their evictions agree -/
theorem eviction_independent (step : S → Op → S × Out) (c : CS S) (es es' : List (CEv Op)) (h : Coherent c)
    (hacc : accesses es = accesses es') :
    (crun step c es).1.store = (crun step c es').1.store ∧ (crun step c es).2 = (crun step c es').2 := by
  have a := cache_transparent step c es h
  have b := cache_transparent step c es' h
  rw [a.1, a.2.1, b.1, b.2.1, hacc]
  exact ⟨rfl, rfl⟩

/-- the write-through hypothesis is needed: a cache that only updates its copy loses the step on eviction
(the shape of the persistence defects repaired under C11) -/
theorem lazy_cache_loses_updates :
    let step : Nat → Unit → Nat × Nat := fun s _ => (s + 1, s)
    let c : CS Nat := { store := fun _ => 0, cache := fun _ => none }
    let c1 := (cstepLazy step c (.access "p" ())).1
    let c2 := (cstepLazy step c1 (.evict "p")).1
    (cstepLazy step c2 (.access "p" ())).2 = some ("p", 0) ∧ (cstep step (cstep step (cstep step c (.access "p" ())).1 (.evict "p")).1 (.access "p" ())).2 = some ("p", 1) := by
  simp [cstepLazy, cstep, CS.get, upd]

/-- **the open finding, as a witness on the model** (`C13|two-live-copies-of-a-process`): `cache_transparent` holds for a cache in
which the cached copy is the only live one. In the engine a scheduler thread can keep working on a copy that has left the cache; with
such a step in the history the outcome is no longer that of the process alone: a counter that answers 0, 1, 2 alone answers 0, 1, 1,
and the store ends at 2 instead of 3. (On the engine the check recognises this history by two overlapping copy serials in the trace.) -/
theorem two_live_copies_diverge :
    let step : Nat → Unit → Nat × Nat := fun s _ => (s + 1, s)
    let c : CS2 Nat := { store := fun _ => 0, cache := fun _ => none, held := fun _ => none }
    let r := crun2 step c [.access "p" (), .evict "p", .access "p" (), .heldStep "p" ()]
    r.2 = [("p", 0), ("p", 1), ("p", 1)] ∧ r.1.store "p" = 2 ∧
    (run step 0 [(), (), ()]).2 = [0, 1, 2] ∧ (run step 0 [(), (), ()]).1 = 3 := by
  simp [crun2, cstep2, run, upd]

/-- without steps on held copies the cache of the finding's model is the transparent one: same store, same cache, same outputs -/
theorem cache_transparent_partial (step : S → Op → S × Out) (es : List (CEv Op)) : ∀ (c : CS2 S),
    let lift : CEv Op → CEv2 Op := fun e => match e with | .access p o => .access p o | .evict p => .evict p
    let r2 := crun2 step c (es.map lift)
    let r1 := crun step { store := c.store, cache := c.cache } es
    r2.1.store = r1.1.store ∧ r2.1.cache = r1.1.cache ∧ r2.2 = r1.2 := by
  induction es with
  | nil => intro c; simp [crun2, crun]
  | cons e es ih =>
    intro c
    cases e with
    | access p o =>
      have := ih (cstep2 step c (.access p o)).1
      simp only [List.map_cons, crun2, crun, cstep2, cstep, CS.get] at this ⊢
      obtain ⟨a, b, d⟩ := this
      exact ⟨a, b, by rw [d]⟩
    | evict p =>
      have := ih (cstep2 step c (.evict p)).1
      simp only [List.map_cons, crun2, crun, cstep2, cstep] at this ⊢
      exact this

-- ------------------------------------------------------------------ start

/-- a second start with a present id is refused and changes nothing -/
theorem second_start_refused (present : String → Bool) (p : String) :
    let r1 := start present p
    (start r1.2 p).1 = false ∧ (start r1.2 p).2 = r1.2 := by
  unfold start
  by_cases h : present p = true <;> simp [h]

/-- a start never makes another id present or absent -/
theorem start_frame (present : String → Bool) (p q : String) (h : q ≠ p) : (start present p).2 q = present q := by
  unfold start
  by_cases hp : present p = true <;> simp [hp, h]

/-- K1: the translated `Runtime::start` checks the id through the cache (which falls back to the store) before it creates the process -/
theorem start_checks_first : Acts.Gen.startChecksPid = true := by decide

/-- non-vacuity: two processes, interleaved -/
example : (runW (fun (s : Nat) (o : Nat) => (s + o, s)) (fun _ => 0) [("a", 1), ("b", 5), ("a", 2)]).1 "a" = 3 := by
  simp [runW, upd]

end Acts.C13
