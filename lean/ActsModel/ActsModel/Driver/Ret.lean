import Lean.Data.Json
import ActsModel.Driver.Util
import ActsModel.Model.Retention
open Lean

namespace Acts.Driver
open Acts.Ret

/-- {"keep": false, "finished": ["p1"], "procs": ["p0"], "tasks": [["p0:$", "p0"]]} -> the first violated retention clause -/
def retCase (req : Lean.Json) : Lean.Json :=
  let s : St := { procs := (jarr req "procs").toList.map asStr,
                  tasks := (jarr req "tasks").toList.map (fun t => let a := asArr t; ⟨asStr a[0]!, asStr a[1]!⟩),
                  messages := [] }
  match retentionCheck (jbool req "keep") ((jarr req "finished").toList.map asStr) s with
  | none => Lean.Json.mkObj [("ok", Lean.Json.bool true)]
  | some (why, pid) => Lean.Json.mkObj [("ok", Lean.Json.bool false), ("why", Lean.Json.str why), ("pid", Lean.Json.str pid)]

end Acts.Driver
