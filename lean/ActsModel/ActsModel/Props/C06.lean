import ActsModel.Model.Catch
import ActsModel.Spec.Lifecycle

/-!
# C06 — Errors propagate upward unless a matching catch takes them, exactly once
-/
namespace Acts.C06
open Acts.Gen Acts.Catch

/-- **the first matching catch wins**: `select` returns a catch that takes the code, and no earlier catch of the list does -/
theorem first_match (cs : List (Option String)) (code : String) (on : Option String) (h : select cs code = some on) :
    takes on code = true ∧ ∃ pre post, cs = pre ++ on :: post ∧ ∀ o ∈ pre, takes o code = false := by
  unfold select at h
  induction cs with
  | nil => simp at h
  | cons c cs ih =>
    simp only [List.find?_cons] at h
    by_cases hc : takes c code = true
    · simp only [hc] at h; cases h
      exact ⟨hc, [], cs, rfl, by simp⟩
    · have hc' : takes c code = false := by simpa using hc
      simp only [hc'] at h
      obtain ⟨h1, pre, post, h2, h3⟩ := ih h
      refine ⟨h1, c :: pre, post, by simp [h2], ?_⟩
      intro o ho
      rcases List.mem_cons.mp ho with rfl | ho'
      · exact hc'
      · exact h3 o ho'

/-- **a non-matching catch changes nothing**: if no catch of a task takes the code the task behaves as if it had none -/
theorem nonmatching_noop (cs : List (Option String)) (code : String) (h : ∀ o ∈ cs, takes o code = false) : select cs code = none := by
  unfold select; rw [List.find?_eq_none]; intro o ho; simp [h o ho]

/-- a catch-all takes every code; a coded catch exactly its code -/
theorem takes_iff (on : Option String) (code : String) : takes on code = true ↔ on = none ∨ on = some code := by
  cases on <;> simp [takes]

/-- **propagation**: the error is taken by the *nearest* open member that has an unused matching catch; every member below it
is marked with the error; no member above it is touched -/
theorem bubble_caught (code : String) (ms : List Member) (tid : Nat) (on : Option String) (errs : List Nat)
    (h : bubble code ms = (errs, .caughtAt tid on)) :
    ∃ pre m post, ms = pre ++ m :: post ∧ m.tid = tid ∧ errs = pre.map (·.tid) ∧
      m.closed = false ∧ m.processed = false ∧ select m.catches code = some on ∧
      ∀ x ∈ pre, x.closed = false ∧ (x.processed = true ∨ select x.catches code = none) := by
  induction ms generalizing errs with
  | nil => simp [bubble] at h
  | cons m ms ih =>
    unfold bubble at h
    by_cases hc : m.closed = true
    · simp [hc] at h
    · have hc' : m.closed = false := by simpa using hc
      simp only [hc', Bool.false_eq_true, ↓reduceIte] at h
      cases hs : (if m.processed = true then none else select m.catches code) with
      | some o =>
        simp only [hs] at h
        obtain ⟨rfl, h2⟩ := Prod.mk.inj h
        cases h2
        have hp : m.processed = false := by
          cases hmp : m.processed with
          | true => simp [hmp] at hs
          | false => rfl
        refine ⟨[], m, ms, rfl, rfl, rfl, hc', hp, ?_, by simp⟩
        simpa [hp] using hs
      | none =>
        simp only [hs] at h
        cases hb : bubble code ms with
        | mk errs' out =>
          simp only [hb] at h
          obtain ⟨rfl, rfl⟩ := Prod.mk.inj h
          obtain ⟨pre, m', post, h1, h2, h3, h4, h5, h6, h7⟩ := ih errs' hb
          refine ⟨m :: pre, m', post, by simp [h1], h2, by simp [h3], h4, h5, h6, ?_⟩
          intro x hx
          rcases List.mem_cons.mp hx with rfl | hx'
          · refine ⟨hc', ?_⟩
            cases hmp : x.processed with
            | true => exact Or.inl rfl
            | false => right; simpa [hmp] using hs
          · exact h7 x hx'

/-- **uncaught**: when no member can take it, every member is marked (and the root reports the error) -/
theorem bubble_uncaught (code : String) (ms : List Member) (errs : List Nat) (h : bubble code ms = (errs, .uncaught)) :
    errs = ms.map (·.tid) ∧ ∀ x ∈ ms, x.closed = false ∧ (x.processed = true ∨ select x.catches code = none) := by
  induction ms generalizing errs with
  | nil => simp [bubble] at h; simp [h]
  | cons m ms ih =>
    unfold bubble at h
    by_cases hc : m.closed = true
    · simp [hc] at h
    · have hc' : m.closed = false := by simpa using hc
      simp only [hc', Bool.false_eq_true, ↓reduceIte] at h
      cases hs : (if m.processed = true then none else select m.catches code) with
      | some o => simp [hs] at h
      | none =>
        simp only [hs] at h
        cases hb : bubble code ms with
        | mk errs' out =>
          simp only [hb] at h
          obtain ⟨rfl, rfl⟩ := Prod.mk.inj h
          obtain ⟨h1, h2⟩ := ih errs' hb
          refine ⟨by simp [h1], ?_⟩
          intro x hx
          rcases List.mem_cons.mp hx with rfl | hx'
          · refine ⟨hc', ?_⟩
            cases hmp : x.processed with
            | true => exact Or.inl rfl
            | false => right; simpa [hmp] using hs
          · exact h2 x hx'

/-- **exactly once**: a task that has used its catch does not catch again — a second error passes through it -/
theorem catch_once (code : String) (m : Member) (ms : List Member) (hp : m.processed = true) (hc : m.closed = false) :
    bubble code (m :: ms) = (m.tid :: (bubble code ms).1, (bubble code ms).2) := by
  simp [bubble, hc, hp]

/-- K1 (`on_task` emit predicate): a task revived by its own catch is `running` when the predicate is evaluated, so its
error is never reported to the client; an uncaught `error` is -/
theorem caught_error_silent : ∀ disabled, emitPred .running disabled = false ∧ emitPred .error false = true := by decide

/-- K1: the catch hook is fired for the state `error` and for no other state -/
theorem catch_fires_on_error (s : TaskState) : ownLifeCycle s = some .errorCatch ↔ s = .error := by
  cases s <;> decide

/-- non-vacuity: nested catches, the inner one does not match, the outer catch-all takes the error -/
example : bubble "e2" [⟨3, [], false, false⟩, ⟨2, [some "e1"], false, false⟩, ⟨1, [some "e3", none], false, false⟩, ⟨0, [], false, false⟩]
    = ([3, 2], .caughtAt 1 none) := by decide

end Acts.C06
