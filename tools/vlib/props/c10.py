"""C10 — store contract: faithful records and one query semantics on every back end"""
import os
import sys

from ..core import obs_of, ROOT
from ..rng import Rng

sys.path.insert(0, os.path.join(ROOT, "tools"))
import translate  # noqa: E402

ASSUMPTIONS = [
    "SQLite executes the generated SQL as SQL says (trusted engine, compared not proved)",
    "queries are well-formed: every AND/OR group has at least one expression, keys exist, ordering operators are applied to integer columns",
    "ties between equal sort keys are unspecified: compared only through the key tuples unless id is the last key",
]

COLLS = {"events": ("event", "Event"), "messages": ("message", "Message"), "models": ("model", "Model"),
         "packages": ("package", "Package"), "procs": ("proc", "Proc"), "tasks": ("task", "Task")}

STRINGS = ["", "a", "b", "ab", "A", "10", "9", "ä", "ß∂", "日本", "it's", 'q"uote', "per%cent", "under_score", "x" * 300,
           " lead", "NULL", "null", "0"]
ENUMS = {"MessageState": ["none", "created", "completed", "submitted", "backed", "cancelled", "aborted", "skipped", "error", "removed"],
         "ActRunAs": ["func", "irq", "msg"], "ActPackageCatalog": ["core", "event", "transform", "form", "ai", "app"]}


def field_types(coll):
    fname, sname = COLLS[coll]
    src = translate.strip_comments(translate.read(f"acts/src/store/data/{fname}.rs"))
    return translate.struct_fields(src, sname, coll)


def gen_value(rng, ty, fname):
    if ty == "String":
        return rng.pick(STRINGS)
    if ty == "Option<String>":
        return None if rng.chance(1, 3) else rng.pick(STRINGS)
    if ty == "i64":
        return rng.pick([0, 1, 9, 10, 11, 100, -1, -10, 2 ** 31, 2 ** 31 + 7, 2 ** 40, -2 ** 33, rng.below(50)])
    if ty == "i32":
        return rng.pick([0, 1, 2, 9, 10, 11, 2 ** 31 - 1, -5, rng.below(30)])
    if ty == "bool":
        return rng.chance(1, 2)
    if ty == "MessageStatus":
        return rng.below(4)
    if ty in ENUMS:
        return rng.pick(ENUMS[ty])
    raise ValueError(f"unknown field type {ty} for {fname}")


def gen_record(rng, coll, types, rid):
    r = {}
    for f, ty in types:
        r[f] = gen_value(rng, ty, f)
    r["id"] = rid
    return r


def gen_query(rng, types, values):
    """filter shapes: 0..3 groups of AND/OR, all six operators, sub-conditions that match nothing"""
    conds = []
    ints = [f for f, t in types if t in ("i64", "i32", "MessageStatus")]
    strs = [f for f, t in types if t in ("String", "Option<String>") or t in ENUMS]
    for _ in range(rng.weighted([(0, 1), (1, 5), (2, 3), (3, 1)])):
        exprs = []
        for _ in range(rng.range(1, 3)):
            if ints and rng.chance(1, 2):
                k = rng.pick(ints)
                op = rng.pick(["eq", "ne", "lt", "le", "gt", "ge"])
                pool = values.get(k) or [0]
                v = rng.pick(pool) if not rng.chance(1, 4) else rng.pick([-999, 5, 10, 10 ** 12])
            else:
                k = rng.pick(strs)
                op = rng.pick(["eq", "ne"])
                pool = [x for x in (values.get(k) or [""])]
                v = rng.pick(pool) if not rng.chance(1, 4) else "matches-nothing"
            exprs.append([op, k, v])
        conds.append({"type": rng.pick(["and", "or"]), "exprs": exprs})
    order = []
    fields = [f for f, _ in types]
    for _ in range(rng.weighted([(0, 2), (1, 4), (2, 2)])):
        order.append([rng.pick(fields), rng.chance(1, 2)])
    id_last = rng.chance(4, 5)
    if id_last and (not order or order[-1][0] != "id"):
        order = [o for o in order if o[0] != "id"] + [["id", rng.chance(1, 4)]]
    q = {"conds": conds, "order": order, "offset": rng.pick([0, 0, 0, 1, 2, 5]), "limit": rng.pick([1, 2, 3, 5, 100, 100000])}
    return q, id_last


def gen_scenario(seed, i):
    rng = Rng(seed * 7919 + i)
    coll = rng.pick(sorted(COLLS))
    types = field_types(coll)
    ops = []
    ids = []
    values = {}
    meta = []
    n = rng.range(6, 18)
    for step in range(n):
        r = rng.below(100)
        if r < 35 or len(ids) < 2:
            rid = f"r{len(ids)}" if not rng.chance(1, 6) else rng.pick(["Z", "ü", "r 1", "10", "9"]) + str(len(ids))
            rec = gen_record(rng, coll, types, rid)
            ids.append(rid)
            for f, v in rec.items():
                values.setdefault(f, []).append(v)
            ops.append(["store", coll, "create", rec])
            meta.append(None)
        elif r < 50:
            rid = rng.pick(ids) if not rng.chance(1, 8) else "missing"
            rec = gen_record(rng, coll, types, rid)
            for f, v in rec.items():
                values.setdefault(f, []).append(v)
            ops.append(["store", coll, "update", rec])
            meta.append(None)
        elif r < 58:
            ops.append(["store", coll, "delete", rng.pick(ids) if not rng.chance(1, 8) else "missing"])
            meta.append(None)
        elif r < 68:
            ops.append(["store", coll, rng.pick(["find", "exists"]), rng.pick(ids) if not rng.chance(1, 6) else "missing"])
            meta.append(None)
        else:
            q, id_last = gen_query(rng, types, values)
            ops.append(["store", coll, "query", q])
            meta.append({"id_last": id_last})
    return coll, ops, meta


def norm_row(r):
    return r


def run(ctx):
    ctx.check_theorems("ActsModel.Props.C10")
    n = 300 if ctx.tier == "quick" else 4000
    scs, metas = [], []
    for i in range(n):
        coll, ops, meta = gen_scenario(ctx.seed, i)
        pre = [["rows", coll]]
        for store in ("mem", "sqlite"):
            scs.append({"id": f"s{i}-{store}", "config": {"store": store, "default_chan": False}, "models": [], "ops": pre + ops})
        metas.append((coll, ops, meta))
    results = ctx.harness("run", scs)
    # model requests
    reqs = []
    for i, (coll, ops, meta) in enumerate(metas):
        rm = results[2 * i]
        init = []
        for _, o in obs_of(rm, {"rows"}):
            init = o.get("rows") or []
            break
        reqs.append({"cmd": "c10.run", "init": init, "ops": [[o[2], o[3]] for o in ops]})
    answers = ctx.driver(reqs)
    opkinds = {}
    for i, (coll, ops, meta) in enumerate(metas):
        rm, rs, an = results[2 * i], results[2 * i + 1], answers[i]
        ctx.cov["evaluations"] += 1
        if rm.get("panic") or rs.get("panic") or rm.get("crashed") or rs.get("crashed"):
            ctx.violation("C10|engine-panic", "engine panicked", {"ops": ops, "mem": rm.get("panic"), "sqlite": rs.get("panic")})
            continue
        om = [o for _, o in obs_of(rm, {"store"})]
        os_ = [o for _, o in obs_of(rs, {"store"})]
        model = an.get("answers", []) if isinstance(an, dict) else []
        nq = 0
        for j, op in enumerate(ops):
            verb = op[2]
            opkinds[verb] = opkinds.get(verb, 0) + 1
            if j >= len(om) or j >= len(os_):
                ctx.violation("C10|missing-answer", "a back end gave no answer", {"coll": coll, "ops": ops, "index": j})
                break
            a, b = om[j], os_[j]
            mo = model[j] if j < len(model) else None
            bad = compare(verb, op[3], a, b, mo, meta[j])
            if verb == "query" and a.get("ok") and len(a.get("rows", [])) > 0:
                nq += 1
            if bad:
                side, detail = bad
                kind = verb
                if verb == "query":
                    kind = "query-" + detail.split(":")[0]
                sig = f"C10|{side}|{kind}" + ("" if verb == "query" else "|" + coll)
                ctx.violation(sig, f"{coll}.{verb}: {side}: {detail}",
                              {"coll": coll, "ops": ops[: j + 1], "index": j, "mem": strip(a), "sqlite": strip(b), "model": mo})
                break
        if nq >= 2:
            ctx.nontrivial([coll, ops])
        ctx.sample({"coll": coll, "ops": [[o[2], o[3] if o[2] == "query" else (o[3] if isinstance(o[3], str) else o[3].get("id"))] for o in ops[:6]]})
    ctx.cov["correspondence"] = {"scenarios": n, "ops_by_verb": opkinds, "streams_compared": ["mem vs sqlite", "mem vs Lean memQuery", "sqlite vs Lean specQuery"]}
    ctx.cov["rule"] = ("seeded CRUD/query sequences on one of the six collections, run on the in-memory and the SQLite back end and on the Lean "
                       "model; non-trivial = at least two queries returned rows; distinct by (collection, ops)")
    ctx.cov["clauses_proved"] = ["mapper round trips (K1 on translated field tables)", "memQuery = specQuery for well-formed queries",
                                 "count/window/permutation of the page", "CRUD laws on the keyed collection"]
    ctx.cov["clauses_not_proved"] = ["SQLite executes the SQL as the spec reads it (differential)", "serde field typing (differential)"]


def strip(o):
    o = dict(o)
    o.pop("raw", None)
    return o


def compare(verb, arg, a, b, mo, meta):
    """a: mem, b: sqlite, mo: model answer. returns None or (side, detail)"""
    if verb in ("create", "update", "delete"):
        if a.get("ok") != b.get("ok"):
            return ("mem-vs-sqlite", f"ok {a.get('ok')} vs {b.get('ok')} ({b.get('raw', '')[:80]})")
        return None
    if verb == "exists":
        if a.get("ret") != b.get("ret"):
            return ("mem-vs-sqlite", f"exists {a.get('ret')} vs {b.get('ret')}")
        if mo and mo.get("ret") != a.get("ret"):
            return ("mem-vs-model", f"exists {a.get('ret')} vs model {mo.get('ret')}")
        return None
    if verb == "find":
        if a.get("ok") != b.get("ok"):
            return ("mem-vs-sqlite", f"find ok {a.get('ok')} vs {b.get('ok')}")
        if a.get("ok"):
            if a.get("row") != b.get("row"):
                diff = [k for k in a["row"] if a["row"].get(k) != b["row"].get(k)]
                return ("mem-vs-sqlite", f"find fields differ: {diff}")
            if mo and mo.get("row") != a.get("row"):
                diff = [k for k in a["row"] if a["row"].get(k) != (mo.get("row") or {}).get(k)]
                return ("mem-vs-model", f"find fields differ: {diff}")
        return None
    if verb == "query":
        if a.get("ok") != b.get("ok"):
            return ("mem-vs-sqlite", f"ok:{a.get('ok')} vs {b.get('ok')} ({a.get('raw', '')[:60]} / {b.get('raw', '')[:60]})")
        if not a.get("ok"):
            return None
        keys = [o[0] for o in arg.get("order", [])]

        def proj(rows):
            return [[r.get(k) for k in keys] for r in rows]
        for name, x, y in (("mem-vs-sqlite", a, b),):
            for fld in ("count", "page_num", "page_count", "page_size"):
                if x.get(fld) != y.get(fld):
                    return (name, f"{fld}:{x.get(fld)} vs {y.get(fld)}")
            if meta and meta.get("id_last"):
                if x["rows"] != y["rows"]:
                    return (name, "rows:differ (ids %s vs %s)" % ([r["id"] for r in x["rows"]][:6], [r["id"] for r in y["rows"]][:6]))
            else:
                if proj(x["rows"]) != proj(y["rows"]) or len(x["rows"]) != len(y["rows"]):
                    return (name, "order:key tuples differ")
        if mo and mo.get("ok"):
            for name, impl, mod in (("mem-vs-model", a, mo["mem"]), ("sqlite-vs-spec", b, mo["spec"])):
                for fld in ("count", "page_num", "page_count", "page_size"):
                    if impl.get(fld) != mod.get(fld):
                        return (name, f"{fld}:{impl.get(fld)} vs {mod.get(fld)}")
                if meta and meta.get("id_last"):
                    if impl["rows"] != mod["rows"]:
                        return (name, "rows:differ (ids %s vs %s)" % ([r["id"] for r in impl["rows"]][:6], [r["id"] for r in mod["rows"]][:6]))
                elif proj(impl["rows"]) != proj(mod["rows"]):
                    return (name, "order:key tuples differ")
            if mo["mem"] != mo["spec"] and mo.get("wf"):
                return ("model-mem-vs-spec", "rows:Lean memQuery and specQuery differ on a well-formed query")
        elif mo and not mo.get("ok") and a.get("ok"):
            return ("mem-vs-model", "ok:model rejects the query (missing key)")
        return None
    return None


def replay(ctx, data):
    print("replay of C10 findings: re-run `python3 tools/check.py C10`; the replay file holds the op sequence and the three answers")
    return 0
