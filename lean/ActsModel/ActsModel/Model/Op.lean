import ActsModel.Model.Expr
import ActsModel.Model.Tree
import ActsModel.Gen.Emit
import ActsModel.Gen.Consts
import ActsModel.Model.Scope

/-!
Operational model of the scheduler: a transcription of `Task::exec / init / run / next / review / update`,
of the four `ActTask` impls (`workflow.rs`, `step.rs`, `branch.rs`, `act.rs`), of `Context::emit_task /
emit_error / abort_task`, of the catch hook and of `Runtime::start / do_action`.

The state is threaded *through* errors (the Rust mutates in place before it returns `Err`):
`M α = StateM W (Except Err α)`.
Stage 1: workflow / step / branch / act (irq, msg, set), actions next submit skip remove abort error
set_process_vars, catches, messages and process events. Everything else is `unsupported`.
-/
namespace Acts.Op
open Acts Acts.Gen Acts.Tree

structure Err where
  ecode : String
  message : String
  deriving Repr, DecidableEq

/-- the Rust `ActError` classes the harness distinguishes -/
inductive Fail where
  | alreadyCompleted | noTask | notAnAct | notAStep | outputsUnsatisfied | noProcess | noEcode | noParent
  | noUses | noModel | dupId | dupPid | eventIdEmpty | script (msg : String) | package (msg : String)
  | unsupported (what : String) | outOfFuel
  deriving Repr, DecidableEq

structure Task where
  tid : Nat
  nid : String
  state : TaskState := .none
  prev : Option Nat := none
  data : Vars := []
  err : Option Err := none
  hooksReady : Bool := false     -- the catch hooks are registered by `init` (after the `if` test)

structure Msg where
  pid : String
  tid : Nat
  nid : String
  type : String
  state : String
  key : String
  uses : String
  tag : String
  inputs : Vars
  outputs : Vars

inductive Obs where
  | new (pid : String) (tid : Nat) (nid : String) (kind : String) (prev : Option Nat)
  | tr (pid : String) (tid : Nat) (old new : TaskState)
  | ptr (pid : String) (old new : TaskState)
  | gen (m : Msg)
  | pev (pid : String) (ev : String) (m : Msg)
  | res (ok : Bool) (err : String)
  | rm (pid : String)

structure Proc where
  pid : String
  model : Workflow
  nodes : List Node
  tasks : List Task := []
  state : TaskState := .none
  err : Option Err := none
  env : Vars := []

structure Sys where
  procs : List Proc := []
  gone : List String := []             -- pids removed from cache and store
  queue : List (String × Nat) := []    -- parked task signals, send order
  models : List Workflow := []
  keep : Bool := false
  exprs : List (String × Expr) := []   -- condition text ↦ AST (printed as JS for the engine)

/-- working state of one operation on one process -/
structure W where
  p : Proc
  queue : List (String × Nat)
  obs : List Obs := []                 -- reversed
  cur : Nat := 0                       -- `ctx.task`
  vars : Vars := []                    -- `ctx.vars` (action options)
  action : Bool := false
  exprs : List (String × Expr) := []
  keep : Bool := false
  removed : Bool := false

abbrev M := ExceptT Fail (StateM W)

def emit (o : Obs) : M Unit := modify fun w => { w with obs := o :: w.obs }

def getTask (tid : Nat) : M Task := do
  match (← get).p.tasks.find? (·.tid == tid) with
  | some t => pure t
  | none => throw .noTask

def putTask (t : Task) : M Unit :=
  modify fun w => { w with p := { w.p with tasks := w.p.tasks.map fun x => if x.tid == t.tid then t else x } }

def getNode (nid : String) : M Node := do
  match findNode (← get).p.nodes nid with
  | some n => pure n
  | none => throw (.unsupported s!"node {nid} not in the static tree")

def nodeOf (tid : Nat) : M Node := do getNode (← getTask tid).nid

def kindStr : NodeKind → String
  | .workflow => "workflow" | .branch => "branch" | .step => "step" | .act => "act"

-- ------------------------------------------------------------------ node content accessors

def _root_.Acts.Tree.Node.inputs (n : Node) : Vars := match n.content with
  | .workflow => [] | .step s => s.inputs | .branch b => b.inputs | .act a => a.inputs
def _root_.Acts.Tree.Node.outputs (n : Node) : Vars := match n.content with
  | .workflow => [] | .step s => s.outputs | .branch b => b.outputs | .act a => a.outputs
def _root_.Acts.Tree.Node.tag (n : Node) : String := match n.content with
  | .workflow => "" | .step s => s.tag | .branch b => b.tag | .act a => a.tag
def _root_.Acts.Tree.Node.name (n : Node) : String := match n.content with
  | .workflow => "" | .step s => s.name | .branch b => b.name | .act a => a.name
def _root_.Acts.Tree.Node.uses (n : Node) : String := match n.content with
  | .act a => a.uses | _ => ""
def _root_.Acts.Tree.Node.key (n : Node) : String := match n.content with
  | .act a => if a.key.isEmpty then n.id else a.key
  | _ => n.id

-- ------------------------------------------------------------------ task relations (`task.rs:221-254`, `process.rs:212-221`)

/-- `Task::parent`: walk `prev` until a task whose node has a smaller level -/
def parentOfTask (p : Proc) (t : Task) : Option Task :=
  let lvl := (findNode p.nodes t.nid).map (·.level)
  let rec go (fuel : Nat) (prev : Option Nat) : Option Task :=
    match fuel, prev with
    | 0, _ => none
    | _, none => none
    | fuel + 1, some q =>
      match p.tasks.find? (·.tid == q) with
      | none => none
      | some pt =>
        match (findNode p.nodes pt.nid).map (·.level), lvl with
        | some pl, some l => if pl < l then some pt else go fuel pt.prev
        | _, _ => none
  go (p.tasks.length + 1) t.prev

def parentTid (tid : Nat) : M (Option Nat) := do
  let w ← get
  let t ← getTask tid
  pure ((parentOfTask w.p t).map (·.tid))

/-- `Process::children`: tasks whose `prev` is this tid, creation order -/
def childrenOf (p : Proc) (tid : Nat) : List Task := p.tasks.filter fun t => t.prev == some tid

def siblingsOf (p : Proc) (t : Task) : List Task :=
  match parentOfTask p t with
  | some pt => (childrenOf p pt.tid).filter (·.tid != t.tid)
  | none => []

/-- `has_open_act` of `step.rs`: an open, non-hook task whose parent (by the level walk) is this task -/
def hasOpenAct (p : Proc) (tid : Nat) : Bool :=
  p.tasks.any fun t => !t.state.isCompleted &&
    !(match t.data.lookup Consts.IS_EVENT_PROCESSED with | some (.bool b) => b | _ => false) &&
    (parentOfTask p t).map (·.tid) == some tid

/-- ancestors nearest first -/
def ancestorsOf (p : Proc) (t : Task) : List Task :=
  let rec go (fuel : Nat) (t : Task) : List Task :=
    match fuel with
    | 0 => []
    | fuel + 1 => match parentOfTask p t with
      | some pt => pt :: go fuel pt
      | none => []
  go (p.tasks.length + 1) t

-- ------------------------------------------------------------------ data (`task.rs:256-311, 979-1082`)

def nodeInputs (p : Proc) (n : Node) : Vars := if n.kind == .workflow then p.model.inputs else n.inputs
def nodeOutputs (p : Proc) (n : Node) : Vars := if n.kind == .workflow then p.model.outputs else n.outputs

/-- the scope chain of a task: its own data, then the ancestors' nearest first -/
def chainOf (p : Proc) (t : Task) : Scope.Chain := t.data :: (ancestorsOf p t).map (·.data)

/-- `Task::find` = `Scope.find` on the task's chain; a key present with `null` is found -/
def findVar (p : Proc) (t : Task) (k : String) : Option Json := Scope.find (chainOf p t) k

def flagOf (t : Task) (k : String) (dflt : Bool) : Bool :=
  match t.data.get k with
  | some (.bool b) => b
  | _ => dflt

/-- `Task::outputs`: declared outputs, the default exposed key `data`, the keys exposed by `set`; null values are
filled from the scope (`fill_outputs`) -/
def outputsOf (p : Proc) (t : Task) : Vars :=
  match findNode p.nodes t.nid with
  | none => []
  | some n =>
    let o0 := Vars.set (nodeOutputs p n) Consts.ACT_DATA .null
    let exposed : List String := match t.data.get Consts.ACT_OUTPUTS with
      | some (.arr xs) => xs.filterMap fun | .str s => some s | _ => none
      | _ => []
    let o1 := exposed.foldl (fun acc k => Vars.set acc k .null) o0
    o1.map fun (k, v) => match v with
      | .null => (k, (findVar p t k).getD .null)
      | v => (k, v)

/-- `Task::inputs`: the outputs of the `prev` task, extended by the node's declared inputs -/
def inputsOf (p : Proc) (t : Task) : Vars :=
  let fromPrev : Vars := match t.prev with
    | some q => match p.tasks.find? (·.tid == q) with
      | some pt => outputsOf p pt
      | none => []
    | none => []
  match findNode p.nodes t.nid with
  | none => fromPrev
  | some n => Vars.setAll (Vars.setAll [] fromPrev) (nodeInputs p n)

/-- `Task::update_data` = `Scope.update` on the task's chain, key by key, written back to the tasks of the chain -/
def updateData (tid : Nat) (vs : Vars) : M Unit := do
  for (k, v) in vs do
    let w ← get
    let t ← getTask tid
    let anc := ancestorsOf w.p t
    let chain' := Scope.update (chainOf w.p t) k v
    let ids := tid :: anc.map (·.tid)
    for (i, d) in ids.zip chain' do
      let cur ← getTask i
      putTask { cur with data := d }

def setData (tid : Nat) (vs : Vars) : M Unit := do
  let t ← getTask tid
  putTask { t with data := Vars.setAll t.data vs }

-- ------------------------------------------------------------------ state writes (`task.rs:317-346`)

def setProcState (s : TaskState) : M Unit := do
  let w ← get
  emit (.ptr w.p.pid w.p.state s)
  modify fun w => { w with p := { w.p with state := s } }

def setState (tid : Nat) (s : TaskState) : M Unit := do
  let t ← getTask tid
  let w ← get
  emit (.tr w.p.pid tid t.state s)
  if s.isCompleted && tid == 0 then setProcState s
  let t ← getTask tid
  putTask { t with state := s, err := if s == .error then t.err else none }

def setErr (tid : Nat) (e : Err) : M Unit := do
  let t ← getTask tid
  putTask { t with err := some e }
  setState tid .error
  let t ← getTask tid
  putTask { t with err := some e }

-- ------------------------------------------------------------------ messages (`task.rs:152-214`)

/-- `Task::params`: computed once and cached in the task data under `$params` -/
def paramsOf (tid : Nat) : M Json := do
  let t ← getTask tid
  match t.data.get Consts.ACT_PARAMS_CACHE with
  | some v => pure v
  | none =>
    let n ← nodeOf tid
    let v := match n.content with
      | .act a => a.params
      | _ => .null
    putTask { t with data := Vars.set t.data Consts.ACT_PARAMS_CACHE v }
    pure v

def msgStateStr (s : TaskState) : String := (msgStateOf s).toStr

def createMessage (tid : Nat) : M Msg := do
  let n ← nodeOf tid
  let w ← get
  let t ← getTask tid
  let mut inputs := inputsOf w.p t
  if n.kind == .act then
    -- nearest step ancestor
    match (ancestorsOf w.p t).find? fun a => (findNode w.p.nodes a.nid).map (·.kind) == some NodeKind.step with
    | some st =>
      let sn ← getNode st.nid
      inputs := Vars.set inputs Consts.STEP_KEY (.obj [(Consts.STEP_NODE_ID, .str st.nid), (Consts.STEP_NODE_NAME, .str sn.name),
        (Consts.STEP_TASK_ID, .str (if st.tid == 0 then "$" else s!"@{st.tid}"))])
    | none => pure ()
    let opts : Vars := match n.content with
      | .act a => a.options
      | _ => []
    inputs := Vars.set inputs Consts.ACT_OPTIONS_KEY (.obj opts)
    let params ← paramsOf tid
    inputs := Vars.set inputs Consts.ACT_PARAMS_KEY params
  let t ← getTask tid
  match t.err with
  | some e =>
    inputs := Vars.set inputs Consts.ACT_ERR_CODE (.str e.ecode)
    inputs := Vars.set inputs Consts.ACT_ERR_MESSAGE (.str e.message)
  | none => pure ()
  let w ← get
  pure { pid := w.p.pid, tid := tid, nid := n.id, type := kindStr n.kind, state := msgStateStr t.state, key := n.key,
         uses := n.uses, tag := (if n.kind == .workflow then w.p.model.tag else n.tag), inputs := inputs,
         outputs := outputsOf w.p t }

-- ------------------------------------------------------------------ queue

/-- `Context::sched_task`: create the task with `prev = ctx.task` and push it -/
def schedTask (nid : String) : M Nat := do
  let w ← get
  let n ← getNode nid
  let tid := w.p.tasks.length
  -- `Process::create_task`: a branch never reports to the client, not even when it is closed before its own init
  let t : Task := { tid := tid, nid := nid, prev := some w.cur,
                    data := if n.kind == .branch then Vars.set [] Consts.TASK_EMIT_DISABLED (.bool true) else [] }
  emit (.new w.p.pid tid nid (kindStr n.kind) (some w.cur))
  modify fun w => { w with p := { w.p with tasks := w.p.tasks ++ [t] }, queue := w.queue ++ [(w.p.pid, tid)] }
  pure tid

def setCur (tid : Nat) : M Unit := modify fun w => { w with cur := tid }

def evalCond (text : String) (tid : Nat) : M Bool := do
  let w ← get
  let t ← getTask tid
  match w.exprs.lookup text with
  | none => throw (.unsupported s!"expression {text}")
  | some e =>
    -- script globals: `Task::vars`, own data extended by the ancestors' (ancestors override)
    let env := (ancestorsOf w.p t).foldl (fun acc a => Vars.setAll acc a.data) t.data
    match Expr.eval env e with
    | .ok v => pure v.truthy
    | .error (.undefined x) => throw (.script s!"{x} is not defined")
    | .error .type => throw (.script "type")

-- ------------------------------------------------------------------ the engine (`task.rs:370-383, 852-959`, kinds, hooks, events)

mutual

/-- `Context::emit_task` -/
partial def emitTask (tid : Nat) : M Unit := do
  let t ← getTask tid
  if tid == 0 && t.state.isCreated then
    let w ← get
    if w.p.state.isNone then setProcState .running
    procEvent
  taskEvent tid
  let t ← getTask tid
  if tid == 0 && t.state.isCompleted then
    setProcState t.state
    match t.err with
    | some e =>
      -- `Process::set_err` writes the state once more
      modify fun w => { w with p := { w.p with err := some e } }
      setProcState .error
    | none => pure ()
    procEvent

/-- `on_proc` -/
partial def procEvent : M Unit := do
  let w ← get
  let saveCur := w.cur
  let m ← createMessage 0
  match procEventOf w.p.state with
  | .start => emit (.pev w.p.pid "start" m)
  | .error => emit (.pev w.p.pid "error" m); afterTerminal
  | .complete => emit (.pev w.p.pid "complete" m); afterTerminal
  | .nothing => afterTerminal
  setCur saveCur

partial def afterTerminal : M Unit := do
  let w ← get
  if removeOnTerminal w.keep then
    emit (.rm w.p.pid)
    modify fun w => { w with removed := true }

/-- `on_task`: upsert, hooks (own context), message -/
partial def taskEvent (tid : Nat) : M Unit := do
  let saveCur := (← get).cur
  let saveVars := (← get).vars
  let saveAct := (← get).action
  -- `e.create_context()`: a fresh context on this task, no action vars
  modify fun w => { w with cur := tid, vars := [], action := false }
  let before := (← getTask tid).state
  runHooks tid
  modify fun w => { w with cur := saveCur, vars := saveVars, action := saveAct }
  let t ← getTask tid
  if (!emitNeedsUnchangedState || t.state == before) && emitPred t.state (flagOf t Consts.TASK_EMIT_DISABLED false) then
    let m ← createMessage tid
    emit (.gen m)

/-- `Task::run_hooks`: stage 1 knows the catch hooks only -/
partial def runHooks (tid : Nat) : M Unit := do
  let t ← getTask tid
  if flagOf t Consts.IS_EVENT_PROCESSED false then return
  match ownLifeCycle t.state with
  | some .errorCatch =>
    let n ← nodeOf tid
    let catches : List Catch := if !t.hooksReady then [] else match n.content with
      | .step s => s.catches
      | .act a => a.catches
      | _ => []
    for c in catches do runCatch tid c
  | _ => pure ()

/-- `StatementBatch::Catch` -/
partial def runCatch (tid : Nat) (c : Catch) : M Unit := do
  let t ← getTask tid
  match t.err with
  | none => pure ()
  | some e =>
    if flagOf t Consts.IS_CATCH_PROCESSED false then return
    if c.on.isNone || c.on == some e.ecode then
      putTask { t with data := Vars.set t.data Consts.IS_CATCH_PROCESSED (.bool true) }
      setState tid .running
      let n ← nodeOf tid
      let kids := childrenIn n .catch c.on
      if !kids.isEmpty then
        for k in kids do discard <| schedTask k
      else
        discard <| review tid

/-- `Context::emit_error` -/
partial def emitError : M Unit := do
  let w ← get
  let t ← getTask w.cur
  if t.state.isError then
    emitTask t.tid
    let t ← getTask t.tid
    if t.state.isError then
      -- no catch of this task took the error: what is still open beneath it is closed with it
      for x in (← get).p.tasks do
        let xt ← getTask x.tid
        if !xt.state.isCompleted && xt.tid != t.tid then
          if (ancestorsOf (← get).p xt).any (·.tid == t.tid) then
            setState xt.tid .skipped
            emitTask xt.tid
      match t.err with
      | none => pure ()
      | some e =>
        let w ← get
        match parentOfTask w.p t with
        | none => pure ()
        | some pt =>
          if pt.state.isCompleted then return
          setErr pt.tid e
          setCur pt.tid
          emitError

/-- `Task::is_ready` (with its side effect on an else branch) -/
partial def isReady (tid : Nat) : M Bool := do
  let n ← nodeOf tid
  match n.content with
  | .branch b =>
    let w ← get
    let t ← getTask tid
    let sibs := siblingsOf w.p t
    if !b.needs.isEmpty then
      return sibs.any fun s => s.state.isCompleted && b.needs.contains s.nid
    if b.isElse then
      if sibs.all (·.state.isSkip) then return true
      if sibs.any fun s => s.state.isCompleted && !s.state.isSkip then
        setState tid .skipped
    return false
  | _ => return true

/-- `Task::exec` -/
partial def exec (tid : Nat) : M Unit := do
  let t ← getTask tid
  if t.state.isCompleted then throw .alreadyCompleted
  init tid
  -- a task left pending by `init` is shown to its parent once (otherwise nothing would ever wake it up)
  if (← getTask tid).state.isPending then
    let w ← get
    match parentOfTask w.p (← getTask tid) with
    | some pt => discard <| review pt.tid
    | none => pure ()
    if !(← getTask tid).state.isPending then return
  run tid
  discard <| next tid

partial def init (tid : Nat) : M Unit := do
  setCur tid
  let t ← getTask tid
  if t.state.isNone then
    let w ← get
    putTask { t with data := Vars.setAll t.data (inputsOf w.p t) }
    setState tid .ready
    let n ← nodeOf tid
    match n.content with
    | .workflow =>
      let w ← get
      modify fun w' => { w' with p := { w'.p with env := Vars.setAll w'.p.env w.p.model.env } }
      if !w.p.model.setup.isEmpty then throw (.unsupported "setup")
    | .step s => initStep tid s
    | .branch b => initBranch tid b n
    | .act a => initAct tid a
    let t ← getTask tid
    if !t.state.isCompleted then emitTask (← get).cur

partial def initStep (tid : Nat) (s : Step) : M Unit := do
  match s.cond with
  | some c => if !(← evalCond c tid) then setState tid .skipped; return
  | none => pure ()
  putTask { (← getTask tid) with hooksReady := true }
  if !s.timeouts.isEmpty then throw (.unsupported "timeout")
  if !s.setup.isEmpty then throw (.unsupported "setup")

partial def initBranch (tid : Nat) (b : Branch) (n : Node) : M Unit := do
  let t ← getTask tid
  putTask { t with data := Vars.set t.data Consts.TASK_EMIT_DISABLED (.bool true) }
  if !b.needs.isEmpty then setState tid .pending; return
  match b.cond with
  | some c => if !(← evalCond c tid) then setState tid .skipped
  | none =>
    let w ← get
    let count := match parentOf w.p.nodes (w.p.nodes.length + 1) n.id with
      | some pid => match findNode w.p.nodes pid with
        | some pn => (childrenIn pn .normal none).length
        | none => 1
      | none => 1
    if !b.isElse then setState tid .skipped; return
    if count > 1 then setState tid .pending

partial def initAct (tid : Nat) (a : Act) : M Unit := do
  match a.cond with
  | some c => if !(← evalCond c tid) then setState tid .skipped; return
  | none => pure ()
  putTask { (← getTask tid) with hooksReady := true }
  if !a.timeouts.isEmpty then throw (.unsupported "timeout")
  if !a.setup.isEmpty then throw (.unsupported "setup")
  if a.uses.isEmpty then throw .noUses
  if a.uses == "acts.core.irq" then
    discard <| paramsOf tid
    setState tid .interrupt
  else if a.uses == "acts.core.msg" then
    discard <| paramsOf tid
    let t ← getTask tid
    putTask { t with data := Vars.set t.data Consts.TASK_EMIT_DISABLED (.bool true) }
    setState tid .ready
  else if a.uses == "acts.transform.set" then
    let t ← getTask tid
    putTask { t with data := Vars.set t.data Consts.TASK_EMIT_DISABLED (.bool true) }
    setState tid .ready
  else throw (.unsupported s!"package {a.uses}")

partial def run (tid : Nat) : M Unit := do
  let cur := (← get).cur
  let t ← getTask cur
  if t.state.isReady then
    setState cur .running
    let n ← nodeOf tid
    match n.content with
    | .workflow =>
      let kids := childrenIn n .normal none
      if !kids.isEmpty then for k in kids do discard <| schedTask k
      else setState (← get).cur .completed
    | .step _ => for k in childrenIn n .normal none do discard <| schedTask k
    | .branch _ => pure ()
    | .act a =>
      if a.uses == "acts.core.msg" then
        let t ← getTask cur
        putTask { t with data := Vars.set t.data Consts.TASK_EMIT_DISABLED (.bool false) }
      if a.uses == "acts.transform.set" then
        let params ← paramsOf cur
        match params with
        | .obj kvs =>
          let keys := (kvs.map (·.1)).filter fun k => !k.startsWith Consts.privatePrefix
          let t ← getTask cur
          putTask { t with data := Vars.set t.data Consts.ACT_OUTPUTS (.arr (keys.map .str)) }
          updateData cur kvs
        | _ => throw (.package "set params")
      for k in childrenIn n .normal none do discard <| schedTask k
    -- the task that ran is reported (`cur` was read before the package ran), not whatever the context points to afterwards
    emitTask cur

/-- resume of a pending child inside `step.next / step.review / act.next` -/
partial def resume (tid : Nat) : M Unit := do
  setState tid .running
  taskEvent tid
  exec tid

partial def next (tid : Nat) : M Bool := do
  setCur tid
  let t ← getTask tid
  let mut isNext := false
  let wasCompleted := t.state.isCompleted
  if wasCompleted then updateData tid (← get).vars
  if t.state.isNext then
    let n ← nodeOf tid
    isNext ← match n.content with
      | .workflow => do
        let w ← get
        pure ((childrenOf w.p tid).all (·.state.isCompleted))
      | .step _ => nextStep tid n
      | .branch _ => nextBranch tid n
      | .act a => nextAct tid n a
  let t ← getTask tid
  if t.state.isCompleted then
    -- (a task that had ended before its kind's `next` ran has written its data before the successor was scheduled)
    if !wasCompleted then updateData tid (← get).vars
    emitTask tid
    let w ← get
    let ct ← getTask w.cur
    if !isNext && !flagOf ct Consts.IS_EVENT_PROCESSED false then
      match parentOfTask w.p ct with
      | some pt => discard <| review pt.tid
      | none => pure ()
  pure false

partial def nextStep (tid : Nat) (n : Node) : M Bool := do
  let t ← getTask tid
  let mut isNext := false
  if t.state.isRunning then
    let kids := childrenOf (← get).p tid
    let mut count := 0
    for k in kids do
      let kt ← getTask k.tid
      if kt.state.isNone || kt.state.isRunning then
        isNext := true
      else if kt.state.isPending then
        if (← isReady k.tid) then
          resume k.tid
          isNext := true
      let kt ← getTask k.tid
      if kt.state.isCompleted then count := count + 1
    if count == kids.length && !hasOpenAct (← get).p tid then
      let t ← getTask tid
      if !t.state.isCompleted then setState tid .completed
      match n.next with
      | some nx => discard <| schedTask nx; return true
      | none => pure ()
  else if t.state.isSkip then
    match n.next with
    | some nx => discard <| schedTask nx; return true
    | none => pure ()
  pure isNext

partial def nextBranch (tid : Nat) (n : Node) : M Bool := do
  let t ← getTask tid
  if t.state.isRunning then
    let kids := childrenIn n .normal none
    if !kids.isEmpty then for k in kids do discard <| schedTask k
    else setState tid .completed
    return !kids.isEmpty
  pure false

partial def nextAct (tid : Nat) (n : Node) (_a : Act) : M Bool := do
  let t ← getTask tid
  let mut isNext := false
  if t.state.isRunning then
    let kids := childrenOf (← get).p tid
    let mut count := 0
    for k in kids do
      let kt ← getTask k.tid
      if kt.state.isNone || kt.state.isRunning then
        isNext := true
      else if kt.state.isPending then
        if (← isReady k.tid) then
          resume k.tid
          isNext := true
      let kt ← getTask k.tid
      if kt.state.isCompleted then count := count + 1
    if count == kids.length then
      let t ← getTask tid
      if flagOf t Consts.TASK_AUOT_COMPLETE true && !t.state.isCompleted then setState tid .completed
      -- an act that waits to be completed by somebody else (a sub-process call) holds its successor back
      if !(← getTask tid).state.isCompleted then return true
      match n.next with
      | some nx => discard <| schedTask nx; return true
      | none => pure ()
  else if t.state.isSkip || t.state.isSuccess then
    match n.next with
    | some nx => discard <| schedTask nx; return true
    | none => pure ()
  pure isNext

/-- `review` of `self = tid` with the context task being the one that ended -/
partial def review (tid : Nat) : M Bool := do
  let w ← get
  let ct ← getTask w.cur
  if flagOf ct Consts.IS_EVENT_PROCESSED false then return false
  updateData tid (outputsOf w.p ct)
  setCur tid
  let before := (← getTask tid).state
  let n ← nodeOf tid
  let isReview ← match n.content with
    | .workflow => do
      let t ← getTask tid
      if t.state.isRunning then setState tid .completed; pure true else pure false
    | .step _ => reviewStep tid n
    | .branch _ => do
      let t ← getTask tid
      if t.state.isRunning then setState tid .completed; pure true
      else if t.state.isSkip then pure true else pure false
    | .act _ => reviewAct tid n
  let t ← getTask tid
  if t.state.isCompleted && before != t.state then emitTask tid
  if isReview then
    let w ← get
    let ct ← getTask w.cur
    match parentOfTask w.p ct with
    | some pt => return (← review pt.tid)
    | none => pure ()
  pure false

partial def reviewStep (tid : Nat) (n : Node) : M Bool := do
  let t ← getTask tid
  if t.state.isRunning then
    let kids := childrenOf (← get).p tid
    let mut count := 0
    let mut resumed := false
    for k in kids do
      let kt ← getTask k.tid
      if kt.state.isPending then
        if (← isReady k.tid) then
          -- resumed through the queue (`ctx.runtime.push`); the other waiting branches are looked at as well
          setState k.tid .running
          taskEvent k.tid
          modify fun w => { w with queue := w.queue ++ [(w.p.pid, k.tid)] }
          resumed := true
          continue
      let kt ← getTask k.tid
      if kt.state.isCompleted then count := count + 1
    if resumed then return false
    if count == kids.length && !hasOpenAct (← get).p tid then
      let t ← getTask tid
      if !t.state.isCompleted then setState tid .completed
      match n.next with
      | some nx => discard <| schedTask nx; return false
      | none => return true
  else if t.state.isSkip then
    match n.next with
    | some nx => discard <| schedTask nx; return false
    | none => return true
  pure false

partial def reviewAct (tid : Nat) (n : Node) : M Bool := do
  let t ← getTask tid
  if t.state.isRunning then
    let kids := childrenOf (← get).p tid
    let mut count := 0
    for k in kids do
      let kt ← getTask k.tid
      if kt.state.isError then
        emitError
        return false
      if kt.state.isSkip then
        setState tid .skipped
        return true
      if kt.state.isSuccess then count := count + 1
    if count == kids.length then
      let t ← getTask tid
      if !t.state.isCompleted then setState tid .completed
      match n.next with
      | some nx => discard <| schedTask nx; return false
      | none => return true
  pure false

end

-- ------------------------------------------------------------------ actions (`process.rs:272-318`, `task.rs:385-593`, `context.rs:327-362`)

def abortTask (tid : Nat) : M Unit := do
  let w ← get
  let t ← getTask tid
  for s in siblingsOf w.p t do
    let st ← getTask s.tid
    if !st.state.isCompleted then
      setState s.tid .skipped
      emitTask s.tid
  setState tid .aborted
  setData tid (← get).vars
  emitTask tid
  -- close the open tasks of the other branches before the ancestors report the end
  let w ← get
  let t ← getTask tid
  let anc := (ancestorsOf w.p t).map (·.tid)
  for o in w.p.tasks do
    let ot ← getTask o.tid
    if ot.tid == tid || anc.contains ot.tid || ot.state.isCompleted then continue
    if ot.state.isPending || ot.state.isNone then setState ot.tid .skipped else setState ot.tid .aborted
    emitTask ot.tid
  let w ← get
  let t ← getTask tid
  for a in ancestorsOf w.p t do
    let at' ← getTask a.tid
    if at'.state.isCompleted then continue
    setState a.tid .aborted
    setCur a.tid
    emitTask a.tid
    for c in childrenOf (← get).p a.tid do
      let ct ← getTask c.tid
      if ct.state.isPending then
        setState c.tid .skipped
        emitTask c.tid
      else if ct.state.isRunning then
        setState c.tid .aborted
        emitTask c.tid

def completedGuard (tid : Nat) : M Unit := do
  let t ← getTask tid
  if t.state.isCompleted then throw .alreadyCompleted

def update (tid : Nat) (a : EventAction) : M Unit := do
  match a with
  | .next => completedGuard tid; setState tid .completed; discard <| next tid
  | .submit => completedGuard tid; setState tid .submitted; discard <| next tid
  | .remove => completedGuard tid; setState tid .removed; discard <| next tid
  | .abort => completedGuard tid; abortTask tid
  | .skip =>
    completedGuard tid
    let w ← get
    let t ← getTask tid
    for s in siblingsOf w.p t do
      let st ← getTask s.tid
      if !st.state.isCompleted then
        setState s.tid .skipped
        emitTask s.tid
    setState tid .skipped
    discard <| next tid
  | .error =>
    let vars := (← get).vars
    let ecode ← match vars.get Consts.ACT_ERR_CODE with
      | some (.str s) => pure s
      | _ => throw .noEcode
    let message := match vars.get Consts.ACT_ERR_MESSAGE with
      | some (.str s) => s
      | _ => ""
    completedGuard tid
    let w ← get
    let t ← getTask tid
    match parentOfTask w.p t with
    | none => throw .noParent
    | some pt =>
      for s in siblingsOf w.p pt do
        let st ← getTask s.tid
        if !st.state.isCompleted then
          setState s.tid .skipped
          emitTask s.tid
      setErr tid ⟨ecode, message⟩
      setData tid vars
      setCur tid
      emitError
  | .setProcessVars =>
    completedGuard tid
    setData 0 (← get).vars
  | _ => throw (.unsupported s!"action {a.toStr}")

/-- `Process::do_action` -/
def doAction (tid? : Option Nat) (a : EventAction) (options : Vars) : M Unit := do
  let tid ← match tid? with
    | some t => pure t
    | none => throw .noTask
  let t ← getTask tid
  let n ← nodeOf tid
  if a == .push then
    if n.kind != .step then throw .notAStep
  else if n.kind != .act then throw .notAnAct
  let rets := nodeOutputs (← get).p n
  let mut opts := options
  if !rets.isEmpty then
    let mut cut : Vars := []
    for (k, _) in rets do
      match options.get k with
      | none => throw .outputsUnsatisfied
      | some v => cut := Vars.set cut k v
    -- what the action needs for itself (error code and message, the target of a back) is not an output and stays
    for k in ["ecode", "message", "to"] do
      match options.get k with
      | some v => cut := Vars.set cut k v
      | none => pure ()
    opts := cut
  let _ := t
  modify fun w => { w with cur := tid, vars := Vars.setAll [] opts, action := true }
  update tid a

end Acts.Op
