import ActsModel.Spec.Lifecycle

/-!
# C02 — Task lifecycle: only legal transitions, terminal states are final

`Statement` (full strength) quantifies over all traces the engine can produce; it is decided by
the K1 theorems below (over the translator's tables), by the operational theorems of
`Props/C02Op.lean` (once the Op model covers the fragment) and by `Spec.legalTrace` evaluated on
the engine's own transition trace.
-/
namespace Acts.C02
open Acts.Gen Acts.Spec

/-- the property as a predicate on a whole transition trace -/
def Statement (trace : List Tr) : Prop := legalTrace trace = true

/-- K1: the generated `is_completed` class is exactly stage 3 of the property text. -/
theorem completed_iff_stage3 (s : TaskState) : s.isCompleted = true ↔ stage s = 3 := by
  cases s <;> decide

/-- K1: the generated `is_created` class is exactly stage 1. -/
theorem created_iff_stage1 (s : TaskState) : s.isCreated = true ↔ stage s = 1 := by
  cases s <;> decide

theorem running_iff_stage2 (s : TaskState) : s.isRunning = true ↔ stage s = 2 := by
  cases s <;> decide

theorem none_iff_stage0 (s : TaskState) : s.isNone = true ↔ stage s = 0 := by
  cases s <;> decide

/-- K1: kind-`next` only runs for skipped / running / removed / completed tasks. -/
theorem isNext_class (s : TaskState) :
    s.isNext = true ↔ s = .skipped ∨ s = .running ∨ s = .removed ∨ s = .completed := by
  cases s <;> decide

/-- K1: the singleton predicates name the state they say. -/
theorem singleton_predicates (s : TaskState) :
    (s.isError = true ↔ s = .error) ∧ (s.isAbort = true ↔ s = .aborted) ∧ (s.isSkip = true ↔ s = .skipped) ∧
    (s.isSuccess = true ↔ s = .completed) ∧ (s.isPending = true ↔ s = .pending) ∧
    (s.isReady = true ↔ s = .ready) ∧ (s.isRemoved = true ↔ s = .removed) ∧
    (s.isInterrupted = true ↔ s = .interrupt) := by
  cases s <;> decide

/-- K1: the persisted spelling of a state reads back as the same state (store round trip of `state`). -/
theorem ofStr_toStr (s : TaskState) : TaskState.ofStr (TaskState.toStr s) = s := by
  cases s <;> decide

/-- K1: a message reports a terminal state exactly for terminal tasks, and never renames one. -/
theorem msgState_completed_iff (s : TaskState) :
    (msgStateOf s).isCompleted = true ↔ s.isCompleted = true := by
  cases s <;> decide

theorem msgState_injective_on_terminal (a b : TaskState) (ha : a.isCompleted = true) (hb : b.isCompleted = true)
    (h : msgStateOf a = msgStateOf b) : a = b := by
  cases a <;> cases b <;> first | rfl | (exfalso; revert ha hb h; decide)

/-- nothing leaves stage 3: a legal write out of a terminal state keeps the state. -/
theorem terminal_is_final (o n : TaskState) (ho : stage o = 3) (h : legal o n = true) : n = o := by
  cases o <;> cases n <;> first | rfl | (exfalso; revert ho h; decide)

/-- legality is monotone in the stage. -/
theorem legal_stage_mono (o n : TaskState) (h : legal o n = true) : stage o ≤ stage n := by
  cases o <;> cases n <;> first | decide | (exfalso; revert h; decide)

/-- K1 (guard table of `Task::update`): an arm that starts with the `is_completed()` early return
only ever writes a legal transition on the acting task. -/
theorem guarded_arms_legal (a : EventAction) (hg : guardedArm a = true) (old w : TaskState)
    (hold : old.isCompleted = false) (hw : armWrites a = some w) : legal old w = true := by
  cases a <;> cases old <;> first
    | (exfalso; revert hg; decide)
    | (exfalso; revert hold; decide)
    | (simp [armWrites] at hw; try subst hw; decide)

/-- the seven terminal client actions of the property text -/
def terminalActions : List EventAction := [.next, .submit, .remove, .skip, .abort, .error, .back]

/-- K1: every one of the seven arms is guarded, i.e. a terminal act absorbs the action
(`Task::update` returns `Err` before any write). -/
theorem terminal_absorbs_actions : ∀ a ∈ terminalActions, guardedArm a = true := by
  decide

/-- every arm that writes a state on the acting task writes a terminal one, so an accepted action closes the act -/
theorem arm_writes_terminal (a : EventAction) (w : TaskState) (h : armWrites a = some w) : stage w = 3 := by
  cases a <;> simp [armWrites] at h <;> (try subst h) <;> decide

/-- the monitor accepts exactly the traces without an illegal write (soundness of `firstIllegal`):
if it answers `none`, every write is legal or is a first revive of its task. -/
theorem firstIllegal_none_sound (ts : List Tr) :
    ∀ (rev : List String) (i : Nat), firstIllegal rev i ts = none →
      ∀ t ∈ ts, legal t.old t.new = true ∨ isRevive t = true := by
  induction ts with
  | nil => intro _ _ _ t ht; cases ht
  | cons t ts ih =>
    intro rev i h u hu
    unfold firstIllegal at h
    split at h
    · rename_i hl
      rcases List.mem_cons.mp hu with rfl | hu
      · exact Or.inl hl
      · exact ih rev (i + 1) h u hu
    · split at h
      · rename_i hr
        rcases List.mem_cons.mp hu with rfl | hu
        · rw [Bool.and_eq_true] at hr; exact Or.inr hr.1
        · exact ih _ _ h u hu
      · cases h

/-- a task is revived at most once in an accepted trace: after its revive the key is remembered and a second
`error → running` of the same key is rejected. -/
theorem second_revive_rejected (t : Tr) (h : isRevive t = true) (rev : List String) (hk : rev.contains t.key = true)
    (i : Nat) (ts : List Tr) : firstIllegal rev i (t :: ts) = some i := by
  have hl : legal t.old t.new = false := by
    simp [isRevive] at h
    obtain ⟨h1, h2⟩ := h
    simp [h1, h2]; decide
  have hk' : t.key ∈ rev := by simpa using hk
  unfold firstIllegal
  simp [hl, h, hk']

/-- non-vacuity: a legal non-trivial trace (with one catch revive) and an illegal one -/
example : legalTrace [⟨"p:1", .none, .ready⟩, ⟨"p:1", .ready, .interrupt⟩, ⟨"p:1", .interrupt, .error⟩,
    ⟨"p:1", .error, .running⟩, ⟨"p:1", .running, .completed⟩] = true := by decide
example : legalTrace [⟨"p:1", .completed, .submitted⟩] = false := by decide
example : legalTrace [⟨"p:1", .error, .running⟩, ⟨"p:1", .running, .error⟩, ⟨"p:1", .error, .running⟩] = false := by decide

end Acts.C02
