import ActsModel.Gen.Emit
import ActsModel.Gen.Fields
import ActsModel.Gen.Image
import ActsModel.Model.Image

/-!
# C11 — The store always holds a complete image of what the engine knows
The proof-level content is about *what a row can hold* and *when the task event writes it*; that every
in-memory write is followed by a row write before the next quiescent point is decided on the engine
(live dump vs stored rows after every operation, both back ends).
-/
namespace Acts.C11
open Acts.Gen

/-- K1 (`on_task`): the row is written first, then the hooks run, then the message is built — a handler that reacts to a message
finds the row in the store -/
theorem upsert_precedes_message : onTaskOrder = ["upsert", "hooks", "message"] := by decide

/-- K1: a task row has a column for everything the property compares, and so has a process row -/
theorem rows_carry_the_image :
    (∀ f ∈ ["state", "prev", "data", "err", "start_time", "end_time", "hooks", "node_data", "tid", "pid"], f ∈ recordFields .tasks) ∧
    (∀ f ∈ ["state", "err", "env", "model", "start_time", "end_time"], f ∈ recordFields .procs) := by decide

/-- K1: and both back ends keep every one of these columns (the in-memory mappers used to drop `err`) -/
theorem image_columns_survive :
    (∀ f ∈ recordFields .tasks, (memDoc .tasks).lookup f = some f) ∧ (∀ f ∈ recordFields .procs, (memDoc .procs).lookup f = some f) ∧
    (∀ f ∈ recordFields .tasks, ∃ col, (sqlFromRow .tasks).lookup f = some col ∧ (sqlInsert .tasks).lookup col = some f) ∧
    (∀ f ∈ recordFields .procs, ∃ col, (sqlFromRow .procs).lookup f = some col ∧ (sqlInsert .procs).lookup col = some f) := by
  decide

-- ------------------------------------------------------------------ the write-through discipline

open Acts.Image

theorem apply_synced {R : Type} (s : Sys R) (w : Write R) (h : Synced s) (hp : w.persisted = true) : Synced (s.apply w) := by
  intro k
  simp only [Sys.apply, hp, ↓reduceIte]
  split
  · rfl
  · exact h k

/-- **Write-through** (K3: every sequence of writes).  If every write site is followed by its row write, the store equals the
live image between any two operations. -/
theorem run_synced {R : Type} (s : Sys R) (ws : List (Write R)) (h : Synced s) (hp : ∀ w ∈ ws, w.persisted = true) : Synced (s.run ws) := by
  induction ws generalizing s with
  | nil => exact h
  | cons w ws ih =>
    exact ih (s.apply w) (apply_synced s w h (hp w (by simp))) (fun w' hw' => hp w' (by simp [hw']))

/-- the hypothesis is needed: one site without its row write leaves the store behind (the shape of every C11 defect repaired) -/
theorem unpersisted_write_lags :
    let s : Sys Nat := { live := fun _ => 0, store := fun _ => 0 }
    let s' := s.apply { key := "t", f := fun n => n + 1, persisted := false }
    s'.live "t" = 1 ∧ s'.store "t" = 0 := by
  simp [Sys.apply]

/-- and a later persisted write of the same record repairs it (why such defects hide behind the next task event) -/
theorem next_persisted_write_repairs {R : Type} (s : Sys R) (w : Write R) (hp : w.persisted = true) :
    (s.apply w).store w.key = (s.apply w).live w.key := by
  simp [Sys.apply, hp]

/-- K1: every known site that changes a task or a process outside a task event is followed by its row write in the source
(a removed or reordered `persist` turns an entry to `false` and this theorem stops checking) -/
theorem every_site_persists : ∀ site ∈ Acts.Gen.persistSites, site.2 = true := by decide

theorem sites_known : Acts.Gen.persistSites.length = 10 := by decide

end Acts.C11
