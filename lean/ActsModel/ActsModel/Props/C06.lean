import ActsModel.Model.Catch
import ActsModel.Spec.Lifecycle

/-!
# C06 — Errors propagate upward unless a matching catch takes them, exactly once
-/
namespace Acts.C06
open Acts.Gen Acts.Catch

/-- **the first matching catch wins**: `select` returns a catch that takes the code, and no earlier catch of the list does -/
theorem first_match (cs : List (Option String)) (code : String) (on : Option String) (h : select cs code = some on) :
    takes on code = true ∧ ∃ pre post, cs = pre ++ on :: post ∧ ∀ o ∈ pre, takes o code = false := by
  unfold select at h
  induction cs with
  | nil => simp at h
  | cons c cs ih =>
    simp only [List.find?_cons] at h
    by_cases hc : takes c code = true
    · simp only [hc] at h; cases h
      exact ⟨hc, [], cs, rfl, by simp⟩
    · have hc' : takes c code = false := by simpa using hc
      simp only [hc'] at h
      obtain ⟨h1, pre, post, h2, h3⟩ := ih h
      refine ⟨h1, c :: pre, post, by simp [h2], ?_⟩
      intro o ho
      rcases List.mem_cons.mp ho with rfl | ho'
      · exact hc'
      · exact h3 o ho'

/-- **a non-matching catch changes nothing**: if no catch of a task takes the code the task behaves as if it had none -/
theorem nonmatching_noop (cs : List (Option String)) (code : String) (h : ∀ o ∈ cs, takes o code = false) : select cs code = none := by
  unfold select; rw [List.find?_eq_none]; intro o ho; simp [h o ho]

/-- a catch-all takes every code; a coded catch exactly its code -/
theorem takes_iff (on : Option String) (code : String) : takes on code = true ↔ on = none ∨ on = some code := by
  cases on <;> simp [takes]

/-- **propagation**: the error is taken by the *nearest* open member that has an unused matching catch; every member below it
is marked with the error; no member above it is touched -/
theorem bubble_caught (code : String) (ms : List Member) (tid : Nat) (on : Option String) (errs : List Nat)
    (h : bubble code ms = (errs, .caughtAt tid on)) :
    ∃ pre m post, ms = pre ++ m :: post ∧ m.tid = tid ∧ errs = pre.map (·.tid) ∧
      m.closed = false ∧ m.processed = false ∧ select m.catches code = some on ∧
      ∀ x ∈ pre, x.closed = false ∧ (x.processed = true ∨ select x.catches code = none) := by
  induction ms generalizing errs with
  | nil => simp [bubble] at h
  | cons m ms ih =>
    unfold bubble at h
    by_cases hc : m.closed = true
    · simp [hc] at h
    · have hc' : m.closed = false := by simpa using hc
      simp only [hc', Bool.false_eq_true, ↓reduceIte] at h
      cases hs : (if m.processed = true then none else select m.catches code) with
      | some o =>
        simp only [hs] at h
        obtain ⟨rfl, h2⟩ := Prod.mk.inj h
        cases h2
        have hp : m.processed = false := by
          cases hmp : m.processed with
          | true => simp [hmp] at hs
          | false => rfl
        refine ⟨[], m, ms, rfl, rfl, rfl, hc', hp, ?_, by simp⟩
        simpa [hp] using hs
      | none =>
        simp only [hs] at h
        cases hb : bubble code ms with
        | mk errs' out =>
          simp only [hb] at h
          obtain ⟨rfl, rfl⟩ := Prod.mk.inj h
          obtain ⟨pre, m', post, h1, h2, h3, h4, h5, h6, h7⟩ := ih errs' hb
          refine ⟨m :: pre, m', post, by simp [h1], h2, by simp [h3], h4, h5, h6, ?_⟩
          intro x hx
          rcases List.mem_cons.mp hx with rfl | hx'
          · refine ⟨hc', ?_⟩
            cases hmp : x.processed with
            | true => exact Or.inl rfl
            | false => right; simpa [hmp] using hs
          · exact h7 x hx'

/-- **uncaught**: when no member can take it, every member is marked (and the root reports the error) -/
theorem bubble_uncaught (code : String) (ms : List Member) (errs : List Nat) (h : bubble code ms = (errs, .uncaught)) :
    errs = ms.map (·.tid) ∧ ∀ x ∈ ms, x.closed = false ∧ (x.processed = true ∨ select x.catches code = none) := by
  induction ms generalizing errs with
  | nil => simp [bubble] at h; simp [h]
  | cons m ms ih =>
    unfold bubble at h
    by_cases hc : m.closed = true
    · simp [hc] at h
    · have hc' : m.closed = false := by simpa using hc
      simp only [hc', Bool.false_eq_true, ↓reduceIte] at h
      cases hs : (if m.processed = true then none else select m.catches code) with
      | some o => simp [hs] at h
      | none =>
        simp only [hs] at h
        cases hb : bubble code ms with
        | mk errs' out =>
          simp only [hb] at h
          obtain ⟨rfl, rfl⟩ := Prod.mk.inj h
          obtain ⟨h1, h2⟩ := ih errs' hb
          refine ⟨by simp [h1], ?_⟩
          intro x hx
          rcases List.mem_cons.mp hx with rfl | hx'
          · refine ⟨hc', ?_⟩
            cases hmp : x.processed with
            | true => exact Or.inl rfl
            | false => right; simpa [hmp] using hs
          · exact h2 x hx'

/-- **exactly once**: a task that has used its catch does not catch again — a second error passes through it -/
theorem catch_once (code : String) (m : Member) (ms : List Member) (hp : m.processed = true) (hc : m.closed = false) :
    bubble code (m :: ms) = (m.tid :: (bubble code ms).1, (bubble code ms).2) := by
  simp [bubble, hc, hp]

/-- K1 (`on_task` emit predicate): a task revived by its own catch is `running` when the predicate is evaluated, so its
error is never reported to the client; an uncaught `error` is -/
theorem caught_error_silent : ∀ disabled, emitPred .running disabled = false ∧ emitPred .error false = true := by decide

/-- K1: the catch hook is fired for the state `error` and for no other state -/
theorem catch_fires_on_error (s : TaskState) : ownLifeCycle s = some .errorCatch ↔ s = .error := by
  cases s <;> decide

/-- non-vacuity: nested catches, the inner one does not match, the outer catch-all takes the error -/
example : bubble "e2" [⟨3, [], false, false⟩, ⟨2, [some "e1"], false, false⟩, ⟨1, [some "e3", none], false, false⟩, ⟨0, [], false, false⟩]
    = ([3, 2], .caughtAt 1 none) := by decide

/-! ## Histories: any number of errors, raised anywhere, in any order (K3) -/

/-- an error that task `tid` catches finds it unflagged and open, is taken by the first matching catch declared on it,
and leaves it flagged -/
theorem raise_caught_fresh (h : Hist) (code : String) (chain : List Decl) (tid : Nat) (on : Option String)
    (hr : (raise h code chain).2 = .caughtAt tid on) :
    tid ∉ h.processed ∧ tid ∉ h.closed ∧ tid ∈ (raise h code chain).1.processed ∧
      ∃ d ∈ chain, d.1 = tid ∧ select d.2 code = some on := by
  unfold raise at hr ⊢
  cases hb : bubble code (chain.map (member h)) with
  | mk errs out =>
    simp only [hb] at hr ⊢
    cases out with
    | caughtAt t o =>
      simp only [Outcome.caughtAt.injEq] at hr
      obtain ⟨rfl, rfl⟩ := hr
      obtain ⟨pre, m, post, h1, h2, _, h4, h5, h6, _⟩ := bubble_caught code _ t o errs hb
      have hm : m ∈ chain.map (member h) := by rw [h1]; simp
      obtain ⟨d, hd, rfl⟩ := List.mem_map.mp hm
      simp only [member] at h2 h4 h5 h6
      subst h2
      refine ⟨by simpa using h5, by simpa using h4, by simp, d, hd, rfl, h6⟩
    | stoppedAt t => simp at hr
    | uncaught => simp at hr

/-- the flags only grow -/
theorem raise_flags_mono (h : Hist) (code : String) (chain : List Decl) :
    (∀ t ∈ h.processed, t ∈ (raise h code chain).1.processed) ∧ (∀ t ∈ h.closed, t ∈ (raise h code chain).1.closed) := by
  unfold raise
  cases hb : bubble code (chain.map (member h)) with
  | mk errs out => cases out <;> simp_all

/-- **exactly once, over every history**: whatever errors are raised, on whatever chains and in whatever order, a task takes an
error with its catch at most once; a task that has already done so, or that an error has passed through, never does -/
theorem caught_at_most_once (evs : List (String × List Decl)) (h : Hist) (tid : Nat) :
    ((run h evs).filter (Outcome.isCaughtBy tid)).length ≤ 1 ∧
    ((tid ∈ h.processed ∨ tid ∈ h.closed) → ((run h evs).filter (Outcome.isCaughtBy tid)).length = 0) := by
  induction evs generalizing h with
  | nil => simp [run]
  | cons e rest ih =>
    obtain ⟨ih1, ih2⟩ := ih (raise h e.1 e.2).1
    obtain ⟨mp, mc⟩ := raise_flags_mono h e.1 e.2
    simp only [run, List.filter_cons]
    cases ho : (raise h e.1 e.2).2 with
    | caughtAt t o =>
      by_cases ht : t = tid
      · subst ht
        obtain ⟨f1, f2, f3, _⟩ := raise_caught_fresh h e.1 e.2 t o ho
        have h0 := ih2 (Or.inl f3)
        simp only [Outcome.isCaughtBy, beq_self_eq_true, ↓reduceIte, List.length_cons, h0]
        refine ⟨by omega, ?_⟩
        rintro (hp | hc)
        · exact absurd hp f1
        · exact absurd hc f2
      · have hb : (t == tid) = false := by simpa using ht
        simp only [Outcome.isCaughtBy, hb, Bool.false_eq_true, ↓reduceIte]
        refine ⟨ih1, ?_⟩
        rintro (hp | hc)
        · exact ih2 (Or.inl (mp _ hp))
        · exact ih2 (Or.inr (mc _ hc))
    | stoppedAt t =>
      simp only [Outcome.isCaughtBy, Bool.false_eq_true, ↓reduceIte]
      refine ⟨ih1, ?_⟩
      rintro (hp | hc)
      · exact ih2 (Or.inl (mp _ hp))
      · exact ih2 (Or.inr (mc _ hc))
    | uncaught =>
      simp only [Outcome.isCaughtBy, Bool.false_eq_true, ↓reduceIte]
      refine ⟨ih1, ?_⟩
      rintro (hp | hc)
      · exact ih2 (Or.inl (mp _ hp))
      · exact ih2 (Or.inr (mc _ hc))

/-- **a declared catch is not lost**: an error raised on a chain of open, unflagged tasks of which at least one declares a
matching catch is caught (it never ends the process) -/
theorem matching_catch_takes (h : Hist) (code : String) (chain : List Decl)
    (hopen : ∀ d ∈ chain, d.1 ∉ h.closed ∧ d.1 ∉ h.processed)
    (hdecl : ∃ d ∈ chain, (select d.2 code).isSome) :
    ∃ tid on, (raise h code chain).2 = .caughtAt tid on := by
  have key : ∀ ms : List Member, (∀ m ∈ ms, m.closed = false ∧ m.processed = false) →
      (∃ m ∈ ms, (select m.catches code).isSome) → ∃ tid on, (bubble code ms).2 = .caughtAt tid on := by
    intro ms
    induction ms with
    | nil => intro _ h2; obtain ⟨m, hm, _⟩ := h2; cases hm
    | cons m ms ih =>
      intro h1 h2
      obtain ⟨hc, hp⟩ := h1 m (by simp)
      unfold bubble
      simp only [hc, Bool.false_eq_true, ↓reduceIte, hp]
      cases hs : select m.catches code with
      | some on => exact ⟨m.tid, on, rfl⟩
      | none =>
        have h2' : ∃ x ∈ ms, (select x.catches code).isSome := by
          obtain ⟨x, hx, hx2⟩ := h2
          rcases List.mem_cons.mp hx with rfl | hx'
          · simp [hs] at hx2
          · exact ⟨x, hx', hx2⟩
        obtain ⟨tid, on, hb⟩ := ih (fun x hx => h1 x (List.mem_cons_of_mem _ hx)) h2'
        exact ⟨tid, on, by simpa using hb⟩
  have h1 : ∀ m ∈ chain.map (member h), m.closed = false ∧ m.processed = false := by
    intro m hm
    obtain ⟨d, hd, rfl⟩ := List.mem_map.mp hm
    obtain ⟨a, b⟩ := hopen d hd
    simp [member, a, b]
  have h2 : ∃ m ∈ chain.map (member h), (select m.catches code).isSome := by
    obtain ⟨d, hd, hs⟩ := hdecl
    exact ⟨member h d, List.mem_map.mpr ⟨d, hd, rfl⟩, by simpa [member] using hs⟩
  obtain ⟨tid, on, hb⟩ := key _ h1 h2
  refine ⟨tid, on, ?_⟩
  unfold raise
  cases hb' : bubble code (chain.map (member h)) with
  | mk errs out => rw [hb'] at hb; simp only at hb; subst hb; rfl

/-- non-vacuity: three errors under one step with a catch-all (tid 1): the first is caught there, the second and third
(new acts below the revived step) pass through it to the workflow's own catch (tid 0), which takes one of them -/
example : run {} [("e", [(3, []), (1, [none]), (0, [some "e"])]), ("e", [(4, []), (1, [none]), (0, [some "e"])]),
                  ("e", [(5, []), (1, [none]), (0, [some "e"])])]
    = [.caughtAt 1 none, .caughtAt 0 (some "e"), .stoppedAt 1] := by decide

end Acts.C06
