/-!
# Isolation: a world of processes as a product of per-process machines, behind a write-through cache

`step` is any per-process transition function (the Op model's `doAction`/`execSignal` are instances); the world applies each
event to the component it names.  The cache holds copies of some components; a miss reloads from the store; every step
writes through (C11).  Evictions are explicit events, so "capacity" and "eviction policy" are just which eviction events occur.
-/
namespace Acts.Iso

variable {S Op Out : Type}

def upd {α : Type} (w : String → α) (p : String) (s : α) : String → α := fun q => if q = p then s else w q

/-- one process alone -/
def run (step : S → Op → S × Out) (s : S) : List Op → S × List Out
  | [] => (s, [])
  | o :: os =>
    let r := step s o
    let rest := run step r.1 os
    (rest.1, r.2 :: rest.2)

/-- many processes: every event names its process -/
def runW (step : S → Op → S × Out) (w : String → S) : List (String × Op) → (String → S) × List (String × Out)
  | [] => (w, [])
  | e :: es =>
    let r := step (w e.1) e.2
    let rest := runW step (upd w e.1 r.1) es
    (rest.1, (e.1, r.2) :: rest.2)

/-- the events of one process, in order -/
def proj {α : Type} (p : String) (es : List (String × α)) : List α := (es.filter (fun e => e.1 == p)).map (·.2)

-- ------------------------------------------------------------------ cache in front of a store

structure CS (S : Type) where
  store : String → S
  cache : String → Option S

inductive CEv (Op : Type) where
  | access (p : String) (o : Op)
  | evict (p : String)

def CS.get (c : CS S) (p : String) : S := (c.cache p).getD (c.store p)

/-- access = load on miss, step, write the row, keep the copy; evict = drop the copy -/
def cstep (step : S → Op → S × Out) (c : CS S) : CEv Op → CS S × Option (String × Out)
  | .access p o =>
    let r := step (c.get p) o
    ({ store := upd c.store p r.1, cache := upd c.cache p (some r.1) }, some (p, r.2))
  | .evict p => ({ c with cache := upd c.cache p none }, none)

def crun (step : S → Op → S × Out) (c : CS S) : List (CEv Op) → CS S × List (String × Out)
  | [] => (c, [])
  | e :: es =>
    let r := cstep step c e
    let rest := crun step r.1 es
    (rest.1, match r.2 with | some o => o :: rest.2 | none => rest.2)

def accesses : List (CEv Op) → List (String × Op)
  | [] => []
  | .access p o :: es => (p, o) :: accesses es
  | .evict _ :: es => accesses es

def Coherent (c : CS S) : Prop := ∀ p s, c.cache p = some s → c.store p = s

/-- the same cache without write-through: a step only updates the cached copy (what `set_data`/`update_data` did before the C11 repairs) -/
def cstepLazy (step : S → Op → S × Out) (c : CS S) : CEv Op → CS S × Option (String × Out)
  | .access p o =>
    let r := step (c.get p) o
    ({ c with cache := upd c.cache p (some r.1) }, some (p, r.2))
  | .evict p => ({ c with cache := upd c.cache p none }, none)

/-- the cache as the engine has it (open finding `C13|two-live-copies-of-a-process`): an eviction drops the cache's reference, but a
scheduler thread that still works on the process keeps its copy (`held`); a later step of that thread runs on the held copy and writes
it through, over whatever a freshly loaded copy has written meanwhile -/
structure CS2 (S : Type) where
  store : String → S
  cache : String → Option S
  held : String → Option S

inductive CEv2 (Op : Type) where
  | access (p : String) (o : Op)        -- through the cache (a client action, a tick)
  | evict (p : String)                  -- the copy leaves the cache; the thread that was working on it keeps it
  | heldStep (p : String) (o : Op)      -- that thread goes on with its copy

def cstep2 (step : S → Op → S × Out) (c : CS2 S) : CEv2 Op → CS2 S × Option (String × Out)
  | .access p o =>
    let r := step ((c.cache p).getD (c.store p)) o
    ({ c with store := upd c.store p r.1, cache := upd c.cache p (some r.1) }, some (p, r.2))
  | .evict p => ({ c with cache := upd c.cache p none, held := upd c.held p (c.cache p) }, none)
  | .heldStep p o =>
    match c.held p with
    | some s =>
      let r := step s o
      ({ c with store := upd c.store p r.1, held := upd c.held p (some r.1) }, some (p, r.2))
    | none => (c, none)

def crun2 (step : S → Op → S × Out) (c : CS2 S) : List (CEv2 Op) → CS2 S × List (String × Out)
  | [] => (c, [])
  | e :: es =>
    let r := cstep2 step c e
    let rest := crun2 step r.1 es
    (rest.1, match r.2 with | some o => o :: rest.2 | none => rest.2)

-- ------------------------------------------------------------------ start

/-- `Runtime::start`: refused when the id is present (cache or store), otherwise the process is created -/
def start (present : String → Bool) (p : String) : Bool × (String → Bool) :=
  if present p then (false, present) else (true, fun q => q == p || present q)

end Acts.Iso
