//! DbCollection operations through the store accessor
use acts::{DbCollection, Engine, data, query::*};
use serde::{Serialize, de::DeserializeOwned};
use serde_json::{Value, json};
use std::sync::Arc;

fn build_query(q: &Value) -> Query {
    let mut query = Query::new();
    if let Some(conds) = q.get("conds").and_then(|x| x.as_array()) {
        for c in conds {
            let mut cond = if c.get("type").and_then(|x| x.as_str()) == Some("or") {
                Cond::or()
            } else {
                Cond::and()
            };
            if let Some(exprs) = c.get("exprs").and_then(|x| x.as_array()) {
                for e in exprs {
                    let op = e[0].as_str().unwrap_or("eq");
                    let key = e[1].as_str().unwrap_or("");
                    let val = e[2].clone();
                    let ex = match op {
                        "ne" => Expr::ne(key, val),
                        "lt" => Expr::lt(key, val),
                        "le" => Expr::le(key, val),
                        "gt" => Expr::gt(key, val),
                        "ge" => Expr::ge(key, val),
                        _ => Expr::eq(key, val),
                    };
                    cond = cond.push(ex);
                }
            }
            query = query.push(cond);
        }
    }
    if let Some(order) = q.get("order").and_then(|x| x.as_array()) {
        for o in order {
            query = query.push_order(o[0].as_str().unwrap_or("id"), o[1].as_bool().unwrap_or(false));
        }
    }
    if let Some(n) = q.get("offset").and_then(|x| x.as_u64()) {
        query = query.set_offset(n as usize);
    }
    if let Some(n) = q.get("limit").and_then(|x| x.as_u64()) {
        query = query.set_limit(n as usize);
    }
    query
}

fn err(e: acts::ActError) -> Value {
    let s = e.to_string();
    json!({"k":"store","ok":false,"err":crate::engine::classify(&s),"raw":s})
}

fn op<T>(c: Arc<dyn DbCollection<Item = T>>, verb: &str, arg: &Value) -> Value
where
    T: Serialize + DeserializeOwned,
{
    match verb {
        "create" | "update" => match serde_json::from_value::<T>(arg.clone()) {
            Ok(rec) => {
                let r = if verb == "create" {
                    c.create(&rec)
                } else {
                    c.update(&rec)
                };
                match r {
                    Ok(b) => json!({"k":"store","ok":true,"ret":b}),
                    Err(e) => err(e),
                }
            }
            Err(e) => json!({"k":"store","ok":false,"err":"bad-record","raw":e.to_string()}),
        },
        "find" => match c.find(arg.as_str().unwrap_or("")) {
            Ok(r) => json!({"k":"store","ok":true,"row":serde_json::to_value(&r).unwrap()}),
            Err(e) => err(e),
        },
        "exists" => match c.exists(arg.as_str().unwrap_or("")) {
            Ok(b) => json!({"k":"store","ok":true,"ret":b}),
            Err(e) => err(e),
        },
        "delete" => match c.delete(arg.as_str().unwrap_or("")) {
            Ok(b) => json!({"k":"store","ok":true,"ret":b}),
            Err(e) => err(e),
        },
        "query" => match c.query(&build_query(arg)) {
            Ok(p) => json!({"k":"store","ok":true,"count":p.count,"page_num":p.page_num,
                "page_count":p.page_count,"page_size":p.page_size,
                "rows":p.rows.iter().map(|r| serde_json::to_value(r).unwrap()).collect::<Vec<_>>()}),
            Err(e) => err(e),
        },
        _ => json!({"k":"store","ok":false,"err":"bad-verb"}),
    }
}

pub fn store_op(engine: &Engine, coll: &str, verb: &str, arg: &Value) -> Value {
    // a panic inside a back end (unwrap on a malformed row) is an observation, not a crash
    let r = std::panic::catch_unwind(std::panic::AssertUnwindSafe(|| match coll {
        "tasks" => op::<data::Task>(engine.verif_tasks(), verb, arg),
        "procs" => op::<data::Proc>(engine.verif_procs(), verb, arg),
        "models" => op::<data::Model>(engine.verif_models(), verb, arg),
        "messages" => op::<data::Message>(engine.verif_messages(), verb, arg),
        "events" => op::<data::Event>(engine.verif_events(), verb, arg),
        "packages" => op::<data::Package>(engine.verif_packages(), verb, arg),
        _ => json!({"k":"store","ok":false,"err":"bad-coll"}),
    }));
    r.unwrap_or_else(|_| json!({"k":"store","ok":false,"err":"panic"}))
}

pub fn all_rows(engine: &Engine, coll: &str) -> Value {
    let q = json!({"order":[["id", false]]});
    let r = store_op(engine, coll, "query", &q);
    r.get("rows").cloned().unwrap_or(Value::Null)
}
