import ActsModel.Model.Json

/-!
The expression fragment both sides evaluate: the harness prints it as JavaScript for QuickJS,
the model evaluates the AST. An undefined variable is an error (ReferenceError).
-/
namespace Acts

def Vars.get (vs : Vars) (k : String) : Option Json := vs.lookup k

/-- `Vars::set`: replace in place or insert keeping the keys sorted (`serde_json::Map` is a BTreeMap) -/
def Vars.set (vs : Vars) (k : String) (v : Json) : Vars :=
  match vs with
  | [] => [(k, v)]
  | (k', v') :: rest =>
    if k == k' then (k, v) :: rest
    else if k < k' then (k, v) :: (k', v') :: rest
    else (k', v') :: Vars.set rest k v

def Vars.setAll (vs : Vars) (ws : Vars) : Vars := ws.foldl (fun acc (k, v) => Vars.set acc k v) vs
def Vars.has (vs : Vars) (k : String) : Bool := vs.any (·.1 == k)

mutual
def Json.beq : Json → Json → Bool
  | .null, .null => true
  | .bool a, .bool b => a == b
  | .int a, .int b => a == b
  | .flt a, .flt b => a == b
  | .str a, .str b => a == b
  | .arr xs, .arr ys => Json.beqList xs ys
  | .obj xs, .obj ys => Json.beqFields xs ys
  | _, _ => false
def Json.beqList : List Json → List Json → Bool
  | [], [] => true
  | x :: xs, y :: ys => Json.beq x y && Json.beqList xs ys
  | _, _ => false
def Json.beqFields : List (String × Json) → List (String × Json) → Bool
  | [], [] => true
  | (k, x) :: xs, (k', y) :: ys => k == k' && Json.beq x y && Json.beqFields xs ys
  | _, _ => false
end

instance : BEq Json := ⟨Json.beq⟩

inductive BinOp where | eq | ne | lt | le | gt | ge | and | or | add
  deriving Repr, DecidableEq

inductive Expr where
  | lit (j : Json)
  | var (x : String)
  | not (e : Expr)
  | bin (op : BinOp) (a b : Expr)
  deriving Repr, Inhabited

inductive EvalErr where | undefined (x : String) | type
  deriving Repr, DecidableEq

def Json.truthy : Json → Bool
  | .null => false
  | .bool b => b
  | .int z => z != 0
  | .str s => !s.isEmpty
  | _ => true

def Expr.eval (env : Vars) : Expr → Except EvalErr Json
  | .lit j => .ok j
  | .var x => match env.get x with
    | some v => .ok v
    | none => .error (.undefined x)
  | .not e => match Expr.eval env e with
    | .ok v => .ok (.bool (!v.truthy))
    | .error e => .error e
  | .bin op a b =>
    match Expr.eval env a with
    | .error e => .error e
    | .ok va =>
      -- JS short-circuit
      match op with
      | .and => if !va.truthy then .ok va else Expr.eval env b
      | .or => if va.truthy then .ok va else Expr.eval env b
      | _ =>
        match Expr.eval env b with
        | .error e => .error e
        | .ok vb =>
          match op, va, vb with
          | .add, .int x, .int y => .ok (.int (x + y))
          | .eq, x, y => .ok (.bool (x == y))
          | .ne, x, y => .ok (.bool (!(x == y)))
          | .lt, .int x, .int y => .ok (.bool (x < y))
          | .le, .int x, .int y => .ok (.bool (x ≤ y))
          | .gt, .int x, .int y => .ok (.bool (x > y))
          | .ge, .int x, .int y => .ok (.bool (x ≥ y))
          | _, _, _ => .error .type

end Acts
