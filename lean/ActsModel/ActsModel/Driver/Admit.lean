import Lean.Data.Json
import ActsModel.Driver.Util
import ActsModel.Model.Admit
open Lean

namespace Acts.Driver
open Acts.Gen Acts.Admit

def actionOf (s : String) : Option EventAction := EventAction.all.find? fun a => a.toStr == s || (s == "complete" && a == .next)

def kindOf : String → NodeKind
  | "workflow" => .workflow | "branch" => .branch | "step" => .step | _ => .act

def rejectStr : Reject → String
  | .noProcess => "no-process" | .noTask => "no-task" | .wrongKind => "wrong-kind"
  | .outputsUnsatisfied => "outputs-unsatisfied" | .alreadyCompleted => "already-completed"

def admitCase (req : Lean.Json) : Lean.Json :=
  match actionOf (jstr req "action") with
  | none => Lean.Json.mkObj [("bad", "action")]
  | some a =>
    let t : Target := ⟨jbool req "procLive", jbool req "taskExists", kindOf (jstr req "kind"), TaskState.ofStr (jstr req "state"), jbool req "outputsSatisfied"⟩
    match admission a t with
    | none => Lean.Json.mkObj [("admit", true)]
    | some r => Lean.Json.mkObj [("admit", false), ("reject", rejectStr r)]

end Acts.Driver
