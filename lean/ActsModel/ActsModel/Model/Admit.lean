import ActsModel.Gen.Action

/-!
Admission of a client action: `Runtime::do_action` (process lookup), `Process::do_action` (task lookup,
kind check, declared outputs) and the state guards at the head of the arms of `Task::update`.
-/
namespace Acts.Admit
open Acts.Gen

/-- what the admission looks at -/
structure Target where
  procLive : Bool               -- the process is found (cache or store)
  taskExists : Bool
  kind : NodeKind
  state : TaskState
  outputsSatisfied : Bool       -- every declared output of the node is among the options
  deriving Repr, DecidableEq

inductive Reject where
  | noProcess | noTask | wrongKind | outputsUnsatisfied | alreadyCompleted
  deriving Repr, DecidableEq

/-- the checks in the order the code makes them; `none` = handed to the arm's own logic -/
def admission (a : EventAction) (t : Target) : Option Reject :=
  if !t.procLive then some .noProcess
  else if !t.taskExists then some .noTask
  else if t.kind != requiredKind a then some .wrongKind
  else if !t.outputsSatisfied then some .outputsUnsatisfied
  else if guardedArm a && t.state.isCompleted then some .alreadyCompleted
  else none

/-- the two atomic phases of an accepted terminal action on one task (the process mutex is commented out in the source):
the guard read and the effect write -/
inductive Phase where
  | guard (client : Nat)
  | effect (client : Nat)
  deriving Repr, DecidableEq

/-- state of one act under interleaved clients: its state and which clients passed the guard / were accepted -/
structure Race where
  state : TaskState
  passed : List Nat
  accepted : List Nat
  deriving Repr

def raceStep (w : TaskState) (r : Race) : Phase → Race
  | .guard c => if r.state.isCompleted then r else { r with passed := c :: r.passed }
  | .effect c =>
    if r.passed.contains c then { state := w, passed := r.passed.erase c, accepted := c :: r.accepted } else r

def raceRun (w : TaskState) (r : Race) (ps : List Phase) : Race := ps.foldl (raceStep w) r

/-- with a per-process lock every client runs guard and effect back to back -/
def serial (clients : List Nat) : List Phase := clients.flatMap fun c => [.guard c, .effect c]

end Acts.Admit
