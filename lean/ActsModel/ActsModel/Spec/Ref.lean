/-!
Reference interpretation of the control-flow fragment (C01 / C03 / C04): steps, sequential acts
(irq / msg), branches guarded by a condition, by `else` or by `needs` (a branch that waits until one of the
sibling branches it names has ended), conditional steps and acts.  Conditions are
already evaluated (they only read the start inputs in this fragment).  The interpretation is a
function of the workflow and of the set of interrupts answered so far — there is no schedule, no
declaration order of branches and no thread count in it.
-/
namespace Acts.Ref

inductive Guard where
  | cond (holds : Bool)
  | otherwise                    -- the `else` branch
  | needs (ids : List String)    -- waits until one of the named sibling branches is terminal (its own `if` is never looked at)
  deriving Repr, DecidableEq

mutual
inductive RStep where
  | mk (id : String) (cond : Bool) (branches : List RBranch) (acts : List RAct)
inductive RBranch where
  | mk (id : String) (guard : Guard) (steps : List RStep)
inductive RAct where
  | irq (id : String) (cond : Bool)
  | msg (id : String) (cond : Bool)
end

def RBranch.guard : RBranch → Guard | .mk _ g _ => g
def RBranch.id : RBranch → String | .mk i _ _ => i

/-- does some branch of the list take the step? (then the `else` branch does not run): a condition that holds, or a `needs`
branch — it is never skipped, so the siblings of the `else` branch are never all skipped -/
def RBranch.condHolds (b : RBranch) : Bool :=
  match b.guard with
  | .cond h => h
  | .otherwise => false
  | .needs _ => true

def anyCondHolds : List RBranch → Bool
  | [] => false
  | b :: bs => b.condHolds || anyCondHolds bs

abbrev Answered := String → Bool

def RAct.cond : RAct → Bool
  | .irq _ c => c
  | .msg _ c => c

/-- in a step that has acts beside its branches the first act is a sibling of the branches (the later acts hang off their predecessor):
when it runs, it takes the step like a branch whose condition holds, and the `else` branch does not run -/
def firstActTakes : List RAct → Bool
  | x :: _ => x.cond
  | [] => false

/-- does anything take the step? -/
def stepTaken (bs : List RBranch) (as : List RAct) : Bool := anyCondHolds bs || firstActTakes as

/-! `done`: the construct, once started, has reached a terminal state.  `opens`: the interrupts it is waiting on. -/
mutual
def doneStep (a : Answered) : RStep → Bool
  | .mk _ c bs as => if !c then true else doneBranches a (stepTaken bs as) (termIds a bs) bs && doneActs a as
def doneSteps (a : Answered) : List RStep → Bool
  | [] => true
  | s :: ss => doneStep a s && doneSteps a ss
/-- `tm`: the ids of the sibling condition branches that are terminal (skipped, or run to their end) -/
def doneBranch (a : Answered) (someCond : Bool) (tm : List String) : RBranch → Bool
  | .mk _ g ss =>
    match g with
    | .cond h => if h then doneSteps a ss else true
    | .otherwise => if someCond then true else doneSteps a ss
    | .needs ns => if ns.any (tm.contains ·) then doneSteps a ss else false
def doneBranches (a : Answered) (someCond : Bool) (tm : List String) : List RBranch → Bool
  | [] => true
  | b :: bs => doneBranch a someCond tm b && doneBranches a someCond tm bs
/-- the id of a condition branch that is terminal: its condition failed (skipped) or its steps are done -/
def termId (a : Answered) : RBranch → List String
  | .mk i g ss =>
    match g with
    | .cond h => if h then (if doneSteps a ss then [i] else []) else [i]
    | .otherwise => []
    | .needs _ => []
def termIds (a : Answered) : List RBranch → List String
  | [] => []
  | b :: bs => termId a b ++ termIds a bs
def doneAct (a : Answered) : RAct → Bool
  | .irq i c => if c then a i else true
  | .msg _ _ => true
def doneActs (a : Answered) : List RAct → Bool
  | [] => true
  | x :: xs => doneAct a x && doneActs a xs
end

mutual
def opensStep (a : Answered) : RStep → List String
  | .mk _ c bs as => if !c then [] else opensBranches a (stepTaken bs as) (termIds a bs) bs ++ opensActs a as
/-- steps of a list run one after the other: only the first unfinished one is active -/
def opensSteps (a : Answered) : List RStep → List String
  | [] => []
  | s :: ss => if doneStep a s then opensSteps a ss else opensStep a s
def opensBranch (a : Answered) (someCond : Bool) (tm : List String) : RBranch → List String
  | .mk _ g ss =>
    match g with
    | .cond h => if h then opensSteps a ss else []
    | .otherwise => if someCond then [] else opensSteps a ss
    | .needs ns => if ns.any (tm.contains ·) then opensSteps a ss else []
def opensBranches (a : Answered) (someCond : Bool) (tm : List String) : List RBranch → List String
  | [] => []
  | b :: bs => opensBranch a someCond tm b ++ opensBranches a someCond tm bs
def opensAct (a : Answered) : RAct → List String
  | .irq i c => if c && !a i then [i] else []
  | .msg _ _ => []
/-- acts of a step run one after the other -/
def opensActs (a : Answered) : List RAct → List String
  | [] => []
  | x :: xs => if doneAct a x then opensActs a xs else opensAct a x
end

/-! well-formed `needs`: every `needs` branch names at least one sibling, and only condition branches of its own step (a `needs` list
that names only waiting branches — `else`, other `needs` branches — or nothing can never be satisfied: those shapes are the recorded
wait-cycle finding of C01; lists that mix condition branches with waiting ones are outside this interpretation, which tracks the
endings of condition branches only) -/
def isCondBranch (b : RBranch) : Bool := match b.guard with | .cond _ => true | _ => false

def condIds (bs : List RBranch) : List String := (bs.filter isCondBranch).map (·.id)

mutual
def wfStep : RStep → Bool
  | .mk _ _ bs _ => wfBranches (condIds bs) bs
def wfSteps : List RStep → Bool
  | [] => true
  | s :: ss => wfStep s && wfSteps ss
def wfBranch (cids : List String) : RBranch → Bool
  | .mk _ g ss =>
    (match g with
     | .needs ns => !ns.isEmpty && ns.all (cids.contains ·)
     | _ => true) && wfSteps ss
def wfBranches (cids : List String) : List RBranch → Bool
  | [] => true
  | b :: bs => wfBranch cids b && wfBranches cids bs
end

structure RWorkflow where
  id : String
  steps : List RStep

def RWorkflow.wf (w : RWorkflow) : Bool := wfSteps w.steps

def RWorkflow.done (a : Answered) (w : RWorkflow) : Bool := doneSteps a w.steps
def RWorkflow.opens (a : Answered) (w : RWorkflow) : List String := opensSteps a w.steps

end Acts.Ref

namespace Acts.Ref

/-- a branch whose condition holds and whose steps are all done (the engine decides the `else` branch only then) -/
def holdingDone (a : Answered) (tm : List String) : RBranch → Bool
  | .mk _ (.cond true) ss => doneSteps a ss
  | .mk _ (.needs ns) ss => ns.any (tm.contains ·) && doneSteps a ss
  | _ => false

def anyHoldingDone (a : Answered) (tm : List String) : List RBranch → Bool
  | [] => false
  | b :: bs => holdingDone a tm b || anyHoldingDone a tm bs

/-- the first act of a mixed step took the step and the acts have run to their end: the engine decides a waiting `else` branch when
its step is next reviewed, and an act that has a successor hands over to it without a review of the step. (Between the ending of the
first act and that review the state of the `else` branch — `pending` or already `skipped` — and, when the first act was skipped, the
moment the `else` branch is woken depend on the schedule; the outcome does not. The driver therefore compares steps that have both acts
and an `else` branch on finished runs only.) -/
def firstActDone (a : Answered) : List RAct → Bool
  | x :: xs => x.cond && doneActs a (x :: xs)
  | [] => false

/-- some sibling that took the step has ended -/
def stepTakenDone (a : Answered) (bs : List RBranch) (as : List RAct) : Bool :=
  anyHoldingDone a (termIds a bs) bs || firstActDone a as

/-! the nodes that have started, with the state the interpretation assigns to them.  The `else` branch is `pending` while a
sibling whose condition holds is still running and `skipped` once such a sibling has finished (the code decides it then). -/
mutual
def statesStep (a : Answered) : RStep → List (String × String)
  | .mk i c bs as =>
    if !c then [(i, "skipped")]
    else (i, if doneBranches a (stepTaken bs as) (termIds a bs) bs && doneActs a as then "completed" else "running") ::
      (statesBranches a (stepTaken bs as) (stepTakenDone a bs as) (termIds a bs) bs ++ statesActs a as)
def statesSteps (a : Answered) : List RStep → List (String × String)
  | [] => []
  | s :: ss => statesStep a s ++ (if doneStep a s then statesSteps a ss else [])
def statesBranch (a : Answered) (someCond someDone : Bool) (tm : List String) : RBranch → List (String × String)
  | .mk i g ss =>
    match g with
    | .cond h =>
      if !h then [(i, "skipped")] else (i, if doneSteps a ss then "completed" else "running") :: statesSteps a ss
    | .otherwise =>
      if someCond then [(i, if someDone then "skipped" else "pending")]
      else (i, if doneSteps a ss then "completed" else "running") :: statesSteps a ss
    | .needs ns =>
      if ns.any (tm.contains ·) then (i, if doneSteps a ss then "completed" else "running") :: statesSteps a ss
      else [(i, "pending")]
def statesBranches (a : Answered) (someCond someDone : Bool) (tm : List String) : List RBranch → List (String × String)
  | [] => []
  | b :: bs => statesBranch a someCond someDone tm b ++ statesBranches a someCond someDone tm bs
def statesAct (a : Answered) : RAct → List (String × String)
  | .irq i c => [(i, if !c then "skipped" else if a i then "completed" else "interrupted")]
  | .msg i c => [(i, if !c then "skipped" else "completed")]
def statesActs (a : Answered) : List RAct → List (String × String)
  | [] => []
  | x :: xs => statesAct a x ++ (if doneAct a x then statesActs a xs else [])
end

def RWorkflow.states (a : Answered) (w : RWorkflow) : List (String × String) :=
  (w.id, if doneSteps a w.steps then "completed" else "running") :: statesSteps a w.steps

end Acts.Ref
