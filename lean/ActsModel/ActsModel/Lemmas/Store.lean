import ActsModel.Model.Store

namespace Acts.Store

theorem contains_filter_map_id (db : List Row) (p : Row → Bool) (hnd : (db.map (·.id)).Nodup)
    (r : Row) (hr : r ∈ db) : ((db.filter p).map (·.id)).contains r.id = p r := by
  induction db with
  | nil => cases hr
  | cons x xs ih =>
    simp only [List.map_cons, List.nodup_cons] at hnd
    obtain ⟨hx, hxs⟩ := hnd
    rcases List.mem_cons.mp hr with rfl | hr'
    · by_cases hp : p r = true
      · simp [List.filter_cons, hp]
      · have hp' : p r = false := by simpa using hp
        simp only [List.filter_cons, hp', Bool.false_eq_true, ↓reduceIte]
        rw [Bool.eq_false_iff]
        intro hc
        apply hx
        have := List.contains_iff_mem.mp hc
        obtain ⟨y, hy, hyid⟩ := List.mem_map.mp this
        exact List.mem_map.mpr ⟨y, (List.mem_filter.mp hy).1, hyid⟩
    · have hne : r.id ≠ x.id := by
        intro h; apply hx; rw [← h]; exact List.mem_map.mpr ⟨r, hr', rfl⟩
      have ih' := ih hxs hr'
      by_cases hp : p x = true
      · simp only [List.filter_cons, hp, ↓reduceIte, List.map_cons, List.contains_cons]
        rw [ih']
        simp [hne]
      · have hp' : p x = false := by simpa using hp
        simp only [List.filter_cons, hp', Bool.false_eq_true, ↓reduceIte]
        exact ih'

theorem contains_filter_contains (acc v : List String) (x : String) :
    (acc.filter (v.contains ·)).contains x = (acc.contains x && v.contains x) := by
  induction acc with
  | nil => simp
  | cons a as ih =>
    by_cases hv : v.contains a = true
    · simp only [List.filter_cons, hv, ↓reduceIte, List.contains_cons, ih]
      by_cases hxa : x = a
      · subst hxa; simp_all
      · have : (x == a) = false := by simpa using hxa
        simp [this]
    · have hv' : v.contains a = false := by simpa using hv
      simp only [List.filter_cons, hv', Bool.false_eq_true, ↓reduceIte, List.contains_cons, ih]
      by_cases hxa : x = a
      · subst hxa; simp_all
      · have : (x == a) = false := by simpa using hxa
        simp [this]

/-- membership of a row id in the accumulated set of one group = the group's condition on that row -/
theorem contains_condSet (db : List Row) (hnd : (db.map (·.id)).Nodup) (c : Cond) (hne : c.exprs ≠ [])
    (r : Row) (hr : r ∈ db) : (condSet db c).contains r.id = c.holds r := by
  unfold condSet Cond.holds
  cases hex : c.exprs with
  | nil => exact absurd hex hne
  | cons e es =>
    simp only
    -- generalise the accumulator
    have key : ∀ (es : List Expr) (acc : List String) (b : Bool), acc.contains r.id = b →
        (es.foldl (fun acc e' => if c.isAnd then acc.filter ((exprSet db e').contains ·) else acc ++ exprSet db e') acc).contains r.id
          = if c.isAnd then (b && es.all (·.holds r)) else (b || es.any (·.holds r)) := by
      intro es
      induction es with
      | nil => intro acc b h; subst h; cases c.isAnd <;> simp
      | cons e' es ih =>
        intro acc b h
        simp only [List.foldl_cons]
        have he' : (exprSet db e').contains r.id = e'.holds r := contains_filter_map_id db _ hnd r hr
        by_cases hand : c.isAnd = true
        · simp only [hand, ↓reduceIte]
          have : (acc.filter ((exprSet db e').contains ·)).contains r.id = (b && e'.holds r) := by
            rw [contains_filter_contains, h, he']
          have := ih _ _ this
          simp only [hand, ↓reduceIte] at this
          rw [this]; simp [List.all_cons, Bool.and_assoc]
        · have hand' : c.isAnd = false := by simpa using hand
          simp only [hand', Bool.false_eq_true, ↓reduceIte]
          have : (acc ++ exprSet db e').contains r.id = (b || e'.holds r) := by
            rw [← h, ← he']; simp [List.contains_iff_mem, List.mem_append]
          have := ih _ _ this
          simp only [hand', Bool.false_eq_true, ↓reduceIte] at this
          rw [this]; simp [List.any_cons, Bool.or_assoc]
    have h0 : (exprSet db e).contains r.id = e.holds r := contains_filter_map_id db _ hnd r hr
    have := key es _ _ h0
    rw [this]
    cases c.isAnd <;> simp [List.all_cons, List.any_cons]

theorem contains_querySet (db : List Row) (hnd : (db.map (·.id)).Nodup) (q : Query) (hq : q.conds ≠ [])
    (hwf : ∀ c ∈ q.conds, c.exprs ≠ []) (r : Row) (hr : r ∈ db) :
    (querySet db q).contains r.id = q.holds r := by
  unfold querySet Query.holds
  cases hc : q.conds with
  | nil => exact absurd hc hq
  | cons c cs =>
    simp only
    have key : ∀ (cs : List Cond), (∀ c ∈ cs, c.exprs ≠ []) → ∀ (acc : List String) (b : Bool), acc.contains r.id = b →
        (cs.foldl (fun acc c' => acc.filter ((condSet db c').contains ·)) acc).contains r.id = (b && cs.all (·.holds r)) := by
      intro cs
      induction cs with
      | nil => intro _ acc b h; subst h; simp
      | cons c' cs ih =>
        intro hw acc b h
        simp only [List.foldl_cons]
        have hc' : (condSet db c').contains r.id = c'.holds r :=
          contains_condSet db hnd c' (hw c' (List.mem_cons_self ..)) r hr
        have : (acc.filter ((condSet db c').contains ·)).contains r.id = (b && c'.holds r) := by
          rw [contains_filter_contains, h, hc']
        rw [ih (fun c hc => hw c (List.mem_cons_of_mem _ hc)) _ _ this]
        simp [List.all_cons, Bool.and_assoc]
    rw [hc] at hwf
    have h0 := contains_condSet db hnd c (hwf c (List.mem_cons_self ..)) r hr
    rw [key cs (fun c hc => hwf c (List.mem_cons_of_mem _ hc)) _ _ h0]
    simp [List.all_cons]

end Acts.Store
