import Lean.Data.Json
import ActsModel.Driver.Util
import ActsModel.Driver.Wf
import ActsModel.Driver.Op
import ActsModel.Spec.Ref
open Lean

namespace Acts.Driver
open Acts Acts.Ref

def condVal (exprs : List (String × Acts.Expr)) (env : Acts.Vars) : Option String → Option Bool
  | none => some true
  | some text => match exprs.lookup text with
    | none => none
    | some e => match Acts.Expr.eval env e with
      | .ok v => some v.truthy
      | .error _ => none

mutual
partial def toRStep (exprs : List (String × Acts.Expr)) (env : Acts.Vars) (s : Step) : Option RStep := do
  let c ← condVal exprs env s.cond
  if !s.catches.isEmpty || !s.timeouts.isEmpty || !s.setup.isEmpty || s.next.isSome then none
  if (s.branches.filter (·.isElse)).length > 1 then none
  let bs ← s.branches.mapM (toRBranch exprs env)
  let as ← s.acts.mapM (toRAct exprs env)
  pure (.mk s.id c bs as)
partial def toRBranch (exprs : List (String × Acts.Expr)) (env : Acts.Vars) (b : Branch) : Option RBranch := do
  let ss ← b.steps.mapM (toRStep exprs env)
  -- a branch with `needs` waits for the siblings it names; its own `if` / `else` is never looked at (not generated together)
  if !b.needs.isEmpty then (if b.cond.isSome || b.isElse then none else pure (.mk b.id (.needs b.needs) ss))
  else if b.isElse && b.cond.isNone then pure (.mk b.id .otherwise ss)
  else match b.cond with
    | some _ => do
      let c ← condVal exprs env b.cond
      pure (.mk b.id (.cond c) ss)
    | none => pure (.mk b.id (.cond false) ss)        -- neither if nor else: skipped
partial def toRAct (exprs : List (String × Acts.Expr)) (env : Acts.Vars) (a : Act) : Option RAct := do
  let c ← condVal exprs env a.cond
  if !a.catches.isEmpty || !a.timeouts.isEmpty || !a.setup.isEmpty then none
  if a.uses == "acts.core.irq" then pure (.irq a.id c)
  else if a.uses == "acts.core.msg" then pure (.msg a.id c)
  else none
end

/-- a step with acts beside an `else` branch: when the `else` branch is decided / woken depends on the schedule (see `firstActDone`) -/
partial def mixedElse (ss : List Step) : Bool :=
  ss.any fun s => (!s.acts.isEmpty && s.branches.any (·.isElse)) || s.branches.any (fun b => mixedElse b.steps)

def refCase (req : Lean.Json) : Lean.Json :=
  let w := parseWorkflow (jget req "model")
  let exprs := match jget req "exprs" with
    | .obj kvs => kvs.toList.map fun (k, v) => (k, exprOf v)
    | _ => []
  let env := varsOf (jget req "inputs")
  match w.steps.mapM (toRStep exprs env) with
  | none => Lean.Json.mkObj [("in_fragment", Lean.Json.bool false)]
  | some ss =>
    let rw : RWorkflow := ⟨w.id, ss⟩
    -- `needs` lists that name no condition branch of their step are outside the interpretation (the wait-cycle shapes)
    if !rw.wf then Lean.Json.mkObj [("in_fragment", Lean.Json.bool false), ("why", Lean.Json.str "needs-not-well-formed")] else
    let answers := (jarr req "answered").toList.map fun l => (asArr l).toList.map asStr
    let out := answers.map fun ans =>
      let a : Answered := fun i => ans.contains i
      Lean.Json.mkObj [("done", Lean.Json.bool (rw.done a)), ("opens", Lean.Json.arr ((rw.opens a).map Lean.Json.str).toArray),
        ("states", Lean.Json.arr ((rw.states a).map fun (i, st) => Lean.Json.arr #[Lean.Json.str i, Lean.Json.str st]).toArray)]
    Lean.Json.mkObj [("in_fragment", Lean.Json.bool true), ("final_only", Lean.Json.bool (mixedElse w.steps)), ("points", Lean.Json.arr out.toArray)]

end Acts.Driver
