import ActsModel.Model.Timeout

/-!
Helper lemmas about the C19 monitor (`Model/Timeout.lean`, `monitor`): what an observed history that the monitor accepts looks like.
The property theorems built from these are in `Props/C19.lean`.
-/
namespace Acts.Tmo
open Acts.Gen

theorem nodup_of_hasDup_false (ks : List String) (h : hasDup ks = false) : ks.Nodup := by
  induction ks with
  | nil => exact List.nodup_nil
  | cons k ks ih =>
    simp only [hasDup, Bool.or_eq_false_iff] at h
    exact List.nodup_cons.mpr ⟨by simpa using h.1, ih h.2⟩

/-- everything the monitor has checked when it lets a tick with the firings `fs` pass -/
structure TickPass (rules : List Rule) (start : Int) (m : Mon) (now : Int) (fs : List String) : Prop where
  onlyOpen : m.isOpen = false → fs = []
  notBefore : ∀ k ∈ fs, k ∉ m.fired
  noDup : fs.Nodup
  notEarly : ∀ k ∈ fs, ∃ r ∈ rules, r.on = k ∧ now - start ≥ r.secs * 1000
  withinOneTick : m.isOpen = true → ∀ r ∈ rules, r.on ∉ m.fired → now - start ≥ r.secs * 1000 → r.on ∈ fs

theorem monitor_tick_pass (rules : List Rule) (start : Int) (m : Mon) (i : Nat) (now : Int) (fs : List String) (rest : List ObsEv)
    (h : monitor rules start m i ((.tick now, fs) :: rest) = none) :
    TickPass rules start m now fs ∧ monitor rules start { m with fired := fs ++ m.fired } (i + 1) rest = none := by
  unfold monitor at h
  by_cases c1 : (!m.isOpen && !fs.isEmpty) = true
  · simp only [c1, ↓reduceIte] at h; cases h
  simp only [c1, Bool.false_eq_true, ↓reduceIte] at h
  by_cases c2 : (fs.any fun k => m.fired.contains k) = true
  · simp only [c2, ↓reduceIte] at h; cases h
  simp only [c2, Bool.false_eq_true, ↓reduceIte] at h
  by_cases c3 : hasDup fs = true
  · simp only [c3, ↓reduceIte] at h; cases h
  simp only [c3, Bool.false_eq_true, ↓reduceIte] at h
  by_cases c4 : (fs.any fun k => !(rules.any fun r => r.on == k && decide (now - start ≥ r.secs * 1000))) = true
  · simp only [c4, ↓reduceIte] at h; cases h
  simp only [c4, Bool.false_eq_true, ↓reduceIte] at h
  by_cases c5 : (m.isOpen && rules.any (fun r => !m.fired.contains r.on && decide (now - start ≥ r.secs * 1000) && !fs.contains r.on)) = true
  · simp only [c5, ↓reduceIte] at h; cases h
  simp only [c5, Bool.false_eq_true, ↓reduceIte] at h
  refine ⟨⟨?_, ?_, ?_, ?_, ?_⟩, h⟩
  · intro ho
    simp only [ho, Bool.not_false, Bool.true_and, Bool.not_eq_true', List.isEmpty_eq_false_iff, ne_eq, Decidable.not_not] at c1
    exact c1
  · intro k hk hkm
    apply c2
    exact List.any_eq_true.mpr ⟨k, hk, by simpa using hkm⟩
  · exact nodup_of_hasDup_false fs (by simpa using c3)
  · intro k hk
    have : (rules.any fun r => r.on == k && decide (now - start ≥ r.secs * 1000)) = true := by
      cases hx : (rules.any fun r => r.on == k && decide (now - start ≥ r.secs * 1000)) with
      | true => rfl
      | false => exact absurd (List.any_eq_true.mpr ⟨k, hk, by simp [hx]⟩) c4
    obtain ⟨r, hr, hrk⟩ := List.any_eq_true.mp this
    simp only [Bool.and_eq_true, beq_iff_eq, decide_eq_true_eq] at hrk
    exact ⟨r, hr, hrk.1, hrk.2⟩
  · intro ho r hr hnf hdue
    cases hx : fs.contains r.on with
    | true => simpa using hx
    | false =>
      exfalso
      apply c5
      have hx' : r.on ∉ fs := by simpa using hx
      simp only [ho, Bool.true_and]
      exact List.any_eq_true.mpr ⟨r, hr, by simp [hx', hdue, hnf]⟩

theorem monitor_close_pass (rules : List Rule) (start : Int) (m : Mon) (i : Nat) (fs : List String) (rest : List ObsEv)
    (h : monitor rules start m i ((.close, fs) :: rest) = none) :
    fs = [] ∧ monitor rules start { m with isOpen := false } (i + 1) rest = none := by
  unfold monitor at h
  by_cases c1 : (!fs.isEmpty) = true
  · simp only [c1, ↓reduceIte] at h; cases h
  simp only [c1, Bool.false_eq_true, ↓reduceIte] at h
  exact ⟨by simpa using c1, h⟩

/-- all the firings of an observed history, in order -/
def firings (obs : List ObsEv) : List String := obs.flatMap (·.2)

/-- **once**: over a whole accepted history no rule key fires twice, and none that had fired before -/
theorem monitor_once (rules : List Rule) (start : Int) (obs : List ObsEv) : ∀ (m : Mon) (i : Nat),
    monitor rules start m i obs = none → m.fired.Nodup →
    (firings obs).Nodup ∧ ∀ k ∈ firings obs, k ∉ m.fired := by
  induction obs with
  | nil => intro m i _ _; simp [firings]
  | cons o rest ih =>
    intro m i h hn
    obtain ⟨e, fs⟩ := o
    cases e with
    | close =>
      obtain ⟨h1, h2⟩ := monitor_close_pass rules start m i fs rest h
      subst h1
      have := ih _ _ h2 hn
      simpa [firings] using this
    | tick now =>
      obtain ⟨tp, h2⟩ := monitor_tick_pass rules start m i now fs rest h
      have hn' : (fs ++ m.fired).Nodup := by
        refine List.nodup_append.mpr ⟨tp.noDup, hn, ?_⟩
        intro a ha b hb hab
        subst hab
        exact tp.notBefore a ha hb
      obtain ⟨a, b⟩ := ih _ _ h2 hn'
      simp only [firings, List.flatMap_cons] at a b ⊢
      refine ⟨List.nodup_append.mpr ⟨tp.noDup, a, ?_⟩, ?_⟩
      · intro x hx y hy hxy
        subst hxy
        exact b x hy (List.mem_append_left _ hx)
      · intro k hk
        rcases List.mem_append.mp hk with hk | hk
        · exact tp.notBefore k hk
        · intro hkm
          exact b k hk (List.mem_append_right _ hkm)

/-- **never early**: every firing of an accepted history happens at a tick at which a rule with that key has reached its limit -/
theorem monitor_never_early (rules : List Rule) (start : Int) (obs : List ObsEv) : ∀ (m : Mon) (i : Nat),
    monitor rules start m i obs = none →
    ∀ e fs, (e, fs) ∈ obs → ∀ k ∈ fs, ∃ now, e = .tick now ∧ ∃ r ∈ rules, r.on = k ∧ now - start ≥ r.secs * 1000 := by
  induction obs with
  | nil => intro m i _ e fs hin; simp at hin
  | cons o rest ih =>
    intro m i h e fs hin k hk
    obtain ⟨e0, fs0⟩ := o
    cases e0 with
    | close =>
      obtain ⟨h1, h2⟩ := monitor_close_pass rules start m i fs0 rest h
      rcases List.mem_cons.mp hin with heq | hin
      · simp only [Prod.mk.injEq] at heq
        obtain ⟨_, rfl⟩ := heq
        subst h1
        simp at hk
      · exact ih _ _ h2 e fs hin k hk
    | tick now =>
      obtain ⟨tp, h2⟩ := monitor_tick_pass rules start m i now fs0 rest h
      rcases List.mem_cons.mp hin with heq | hin
      · simp only [Prod.mk.injEq] at heq
        obtain ⟨rfl, rfl⟩ := heq
        exact ⟨now, rfl, tp.notEarly k hk⟩
      · exact ih _ _ h2 e fs hin k hk

/-- **only for open tasks**: once the monitor knows the task closed, an accepted history has no firing at all -/
theorem monitor_closed_silent (rules : List Rule) (start : Int) (obs : List ObsEv) : ∀ (m : Mon) (i : Nat),
    monitor rules start m i obs = none → m.isOpen = false → firings obs = [] := by
  induction obs with
  | nil => intro m i _ _; rfl
  | cons o rest ih =>
    intro m i h hc
    obtain ⟨e0, fs0⟩ := o
    cases e0 with
    | close =>
      obtain ⟨h1, h2⟩ := monitor_close_pass rules start m i fs0 rest h
      subst h1
      simpa [firings] using ih _ _ h2 rfl
    | tick now =>
      obtain ⟨tp, h2⟩ := monitor_tick_pass rules start m i now fs0 rest h
      have := tp.onlyOpen hc
      subst this
      simpa [firings] using ih _ _ h2 hc

/-- **not after the task has closed**: in an accepted history nothing fires at the event that closes the task nor at any later event -/
theorem monitor_silent_after_close (rules : List Rule) (start : Int) (pre : List ObsEv) : ∀ (m : Mon) (i : Nat) (fs0 : List String)
    (post : List ObsEv), monitor rules start m i (pre ++ (.close, fs0) :: post) = none → fs0 = [] ∧ firings post = [] := by
  induction pre with
  | nil =>
    intro m i fs0 post h
    obtain ⟨h1, h2⟩ := monitor_close_pass rules start m i fs0 post (by simpa using h)
    exact ⟨h1, monitor_closed_silent rules start post _ _ h2 rfl⟩
  | cons o rest ih =>
    intro m i fs0 post h
    obtain ⟨e0, f0⟩ := o
    cases e0 with
    | close =>
      obtain ⟨_, h2⟩ := monitor_close_pass rules start m i f0 (rest ++ (.close, fs0) :: post) (by simpa using h)
      exact ih _ _ fs0 post h2
    | tick now =>
      obtain ⟨_, h2⟩ := monitor_tick_pass rules start m i now f0 (rest ++ (.close, fs0) :: post) (by simpa using h)
      exact ih _ _ fs0 post h2

end Acts.Tmo
