import Lean.Data.Json
import ActsModel.Driver.Util
import ActsModel.Driver.Lifecycle
import ActsModel.Driver.Store
import ActsModel.Driver.Msg
import ActsModel.Driver.Value
import ActsModel.Driver.Glob
import ActsModel.Driver.Tmo
import ActsModel.Driver.Wf
import ActsModel.Driver.Admit
import ActsModel.Driver.Op
import ActsModel.Driver.Progress
import ActsModel.Driver.Ref
import ActsModel.Driver.Hier
import ActsModel.Driver.Catch
import ActsModel.Driver.Stream
import ActsModel.Driver.Generate
import ActsModel.Driver.Ret
import ActsModel.Driver.Needs
open Lean Acts.Driver

def dispatch (req : Lean.Json) : Lean.Json :=
  match jstr req "cmd" with
  | "c02.monitor" => c02Monitor req
  | "c10.run" => storeRun req
  | "c09.run" => msgRun req
  | "c14.value" => valueCase req
  | "c14.tmpl" => tmplCase req
  | "c18.glob" => globCase req
  | "c18.chan" => chanCase req
  | "c19.run" => tmoRun req
  | "c19.monitor" => tmoMonitor req
  | "c19.parse" => tmoParse req
  | "c20.tree" => treeCase req
  | "c05.admit" => admitCase req
  | "op.run" => opRun req
  | "c01.monitor" => progressCase req
  | "ref.eval" => refCase req
  | "c03.monitor" => hierCase req
  | "c06.bubble" => bubbleCase req
  | "c08.monitor" => streamCase req
  | "c04.needs" => needsCase req
  | "c16.expand" => expandCase req
  | "c16.fires" => firesCase req
  | "c15.actend" => actEndCase req
  | "c15.machine" => machineCase req
  | "c16.sched" => schedCase req
  | "c17.monitor" => retCase req
  | "ping" => Lean.Json.mkObj [("pong", Lean.Json.bool true)]
  | c => Lean.Json.mkObj [("error", Lean.Json.str s!"unknown cmd {c}")]

partial def loop (h : IO.FS.Stream) (out : IO.FS.Stream) : IO Unit := do
  let line ← h.getLine
  if line.isEmpty then return ()
  if line.trimAscii.isEmpty then
    loop h out
  else
    match Lean.Json.parse line with
    | .ok j => out.putStrLn (dispatch j).compress
    | .error e => out.putStrLn (Lean.Json.mkObj [("error", Lean.Json.str s!"parse: {e}")]).compress
    loop h out

def main : IO Unit := do
  let out ← IO.getStdout
  loop (← IO.getStdin) out
  out.flush
