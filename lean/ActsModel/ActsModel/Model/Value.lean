import ActsModel.Model.Json
import ActsModel.Gen.Value

/-!
`env/value.rs`: JSON → JS (`IntoJs for ActValue`) and JS → JSON (`FromJs for ActValue`).
-/
namespace Acts.Value
open Acts Acts.Gen

/-- the JS values the conversion produces / consumes -/
inductive Js where
  | null
  | bool (b : Bool)
  | int (z : Int)          -- JS_TAG_INT: a 32-bit integer
  | float (f : F64)
  | str (s : String)
  | arr (xs : List Js)
  | obj (kvs : List (String × Js))
  deriving Repr, Inhabited

def fitsI32 (z : Int) : Bool := decide (-2147483648 ≤ z) && decide (z ≤ 2147483647)

/-- `as i32`: two's-complement wrap -/
def wrapI32 (z : Int) : Int := (z + 2147483648) % 4294967296 - 2147483648

/-- i64 → JS number -/
def intToJs (z : Int) : Js :=
  if intoJsWraps then .int (wrapI32 z)
  else if fitsI32 z then .int z
  else if decide (-safeBound ≤ z) && decide (z ≤ safeBound) then .float (.exact z)
  else .float (.other z.natAbs)     -- rounded: outside the property's range

mutual
def toJs : Json → Js
  | .null => .null
  | .bool b => .bool b
  | .int z => intToJs z
  | .flt f => .float f
  | .str s => .str s
  | .arr xs => .arr (toJsList xs)
  | .obj kvs => .obj (toJsFields kvs)
def toJsList : List Json → List Js
  | [] => []
  | x :: xs => toJs x :: toJsList xs
def toJsFields : List (String × Json) → List (String × Js)
  | [] => []
  | (k, v) :: kvs => (k, toJs v) :: toJsFields kvs
end

/-- JS double → JSON number -/
def floatFromJs (f : F64) : Json :=
  match f, fromJsIntegralBound with
  | .exact z, some b => if decide (-(b : Int) ≤ z) && decide (z ≤ (b : Int)) then .int z else .flt (.exact z)
  | f, _ => .flt f

mutual
def fromJs : Js → Json
  | .null => .null
  | .bool b => .bool b
  | .int z => .int z
  | .float f => floatFromJs f
  | .str s => .str s
  | .arr xs => .arr (fromJsList xs)
  | .obj kvs => .obj (fromJsFields kvs)
def fromJsList : List Js → List Json
  | [] => []
  | x :: xs => fromJs x :: fromJsList xs
def fromJsFields : List (String × Js) → List (String × Json)
  | [] => []
  | (k, v) :: kvs => (k, fromJs v) :: fromJsFields kvs
end

-- the values the property quantifies over: every integer is exact in a double, every integral double is in range
mutual
def safe : Json → Bool
  | .int z => decide (-safeBound ≤ z) && decide (z ≤ safeBound)
  | .flt (.exact z) => decide (-safeBound ≤ z) && decide (z ≤ safeBound)
  | .arr xs => safeList xs
  | .obj kvs => safeFields kvs
  | _ => true
def safeList : List Json → Bool
  | [] => true
  | x :: xs => safe x && safeList xs
def safeFields : List (String × Json) → Bool
  | [] => true
  | (_, v) :: kvs => safe v && safeFields kvs
end

-- "the same value": structural equality in which an integer and the integral double of the same value are the same number
mutual
def sameValue : Json → Json → Bool
  | .null, .null => true
  | .bool a, .bool b => a == b
  | .int a, .int b => a == b
  | .int a, .flt (.exact b) => a == b
  | .flt (.exact a), .int b => a == b
  | .flt a, .flt b => a == b
  | .str a, .str b => a == b
  | .arr xs, .arr ys => sameList xs ys
  | .obj xs, .obj ys => sameFields xs ys
  | _, _ => false
def sameList : List Json → List Json → Bool
  | [], [] => true
  | x :: xs, y :: ys => sameValue x y && sameList xs ys
  | _, _ => false
def sameFields : List (String × Json) → List (String × Json) → Bool
  | [], [] => true
  | (k, x) :: xs, (k', y) :: ys => k == k' && sameValue x y && sameFields xs ys
  | _, _ => false
end

-- no integral doubles inside: then the round trip is the identity, not just value-preserving
mutual
def noIntegralFloat : Json → Bool
  | .flt (.exact _) => false
  | .arr xs => noIntegralFloatList xs
  | .obj kvs => noIntegralFloatFields kvs
  | _ => true
def noIntegralFloatList : List Json → Bool
  | [] => true
  | x :: xs => noIntegralFloat x && noIntegralFloatList xs
def noIntegralFloatFields : List (String × Json) → Bool
  | [] => true
  | (_, v) :: kvs => noIntegralFloat v && noIntegralFloatFields kvs
end

end Acts.Value
