import ActsModel.Gen.Emit

/-!
Error propagation (`Context::emit_error`) and the catch hook (`StatementBatch::Catch`) on the chain
act → enclosing step / branch / workflow.
-/
namespace Acts.Catch
open Acts.Gen

/-- one member of the chain, nearest first -/
structure Member where
  tid : Nat
  catches : List (Option String)      -- the `on` of the catches registered on the task (declaration order)
  processed : Bool                    -- `$is_catch_processed`: the task has used its catch once
  closed : Bool                       -- already terminal: propagation stops below it
  deriving Repr, DecidableEq

/-- does a catch take the code? (`on` absent = catch-all) -/
def takes (on : Option String) (code : String) : Bool := on.isNone || on == some code

/-- first catch of the list that takes the code -/
def select (cs : List (Option String)) (code : String) : Option (Option String) := cs.find? (takes · code)

inductive Outcome where
  | caughtAt (tid : Nat) (on : Option String)   -- revived: its catch steps for `on` run
  | stoppedAt (tid : Nat)                       -- reached an ancestor that had already ended
  | uncaught                                    -- every member is in error, the process reports the error
  deriving Repr, DecidableEq

/-- walk up: a member that can catch takes the error; otherwise it is marked and the error climbs -/
def bubble (code : String) : List Member → List Nat × Outcome
  | [] => ([], .uncaught)
  | m :: ms =>
    if m.closed then ([], .stoppedAt m.tid)
    else match (if m.processed then none else select m.catches code) with
      | some on => ([], .caughtAt m.tid on)
      | none =>
        let (errs, out) := bubble code ms
        (m.tid :: errs, out)

end Acts.Catch
