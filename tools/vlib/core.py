"""shared machinery of the checks: build, harness/driver invocation, verdict, evidence"""
import fcntl
import hashlib
import json
import os
import re
import subprocess
import sys
import time

ROOT = os.path.normpath(os.path.join(os.path.dirname(os.path.abspath(__file__)), "..", ".."))
CACHE = os.path.join(ROOT, ".cache")
LEAN = os.path.join(ROOT, "lean", "ActsModel")
HARNESS = os.path.join(ROOT, "harness")
TARGET = os.path.join(CACHE, "target")
HARNESS_BIN = os.path.join(TARGET, "debug", "acts-verif")
os.environ["CARGO_TARGET_DIR"] = TARGET      # the harness is built where HARNESS_BIN is looked for, wherever this tree is checked out
DRIVER_BIN = os.path.join(LEAN, ".lake", "build", "bin", "driver")
REPO = os.environ.get("VERIF_REPO", "/repo")
ALLOWED_AXIOMS = {"propext", "Classical.choice", "Quot.sound"}
FORBIDDEN = ["sorry", "admit", "native_decide", "bv_decide", "implemented_by", "unsafe", "maxHeartbeats 0"]

TRUSTED_BASE = [
    "Lean 4.33 kernel (leanchecker re-check in the thorough tier)",
    "axioms per theorem as printed by #print axioms, subset of {propext, Classical.choice, Quot.sound}",
    "tools/translate.py: a generated table says what the Rust island says (fails closed per table)",
    "harness + verif hooks (gate, virtual clock, deterministic ids) do not change engine behaviour",
    "the compiled Lean driver evaluates the definitions the theorems are about (Lean compiler)",
]


def import_closure(path):
    """module names imported (transitively) by a Lean file of the project"""
    seen, stack = set(), [path]
    while stack:
        f = stack.pop()
        try:
            text = open(f, encoding="utf-8").read()
        except OSError:
            continue
        for m in re.findall(r"^import\s+(ActsModel[\w.]*)", text, re.M):
            if m not in seen:
                seen.add(m)
                stack.append(os.path.join(LEAN, *m.split(".")) + ".lean")
    return seen


class Lock:
    def __init__(self, name):
        os.makedirs(CACHE, exist_ok=True)
        self.path = os.path.join(CACHE, name + ".lock")

    def __enter__(self):
        self.f = open(self.path, "w")
        fcntl.flock(self.f, fcntl.LOCK_EX)
        return self

    def __exit__(self, *a):
        fcntl.flock(self.f, fcntl.LOCK_UN)
        self.f.close()


def sh(cmd, cwd=None, timeout=3600, env=None):
    e = dict(os.environ)
    e["CARGO_NET_OFFLINE"] = "true"
    if env:
        e.update(env)
    p = subprocess.run(cmd, cwd=cwd, shell=isinstance(cmd, str), stdout=subprocess.PIPE,
                       stderr=subprocess.STDOUT, timeout=timeout, env=e)
    return p.returncode, p.stdout.decode("utf-8", "replace")


def theorem_names(path):
    """names of the theorems of a Props file, in order, with their line numbers"""
    names = []
    ns = []
    for i, line in enumerate(open(path, encoding="utf-8"), 1):
        m = re.match(r"\s*namespace\s+(\S+)", line)
        if m:
            ns.append(m.group(1))
            continue
        m = re.match(r"\s*end\s+(\S+)", line)
        if m and ns and ns[-1] == m.group(1):
            ns.pop()
            continue
        m = re.match(r"\s*(?:private\s+|protected\s+)?theorem\s+([^\s:({\[]+)", line)
        if m:
            full = ".".join(ns + [m.group(1)]) if not m.group(1).startswith("_root_") else m.group(1)
            names.append((full, i))
    return names


def lean_sources_clean(paths):
    """no sorry/admit/native_decide/... outside comments"""
    hits = []
    for p in paths:
        txt = open(p, encoding="utf-8").read()
        txt = re.sub(r"/-.*?-/", "", txt, flags=re.S)
        txt = re.sub(r"--.*", "", txt)
        txt = re.sub(r'"(?:[^"\\]|\\.)*"', '""', txt)
        for w in FORBIDDEN:
            if re.search(r"(?<![A-Za-z_.])" + re.escape(w) + r"(?![A-Za-z_0-9])", txt):
                hits.append(f"{os.path.relpath(p, LEAN)}: {w.strip()}")
        if re.search(r"^\s*axiom\s", txt, flags=re.M):
            hits.append(f"{os.path.relpath(p, LEAN)}: axiom")
    return hits


class Ctx:
    def __init__(self, prop, tier, seed):
        self.prop = prop
        self.tier = tier
        self.seed = seed
        self.t0 = time.time()
        self.run_dir = os.path.join(CACHE, "run", f"{prop}-{os.getpid()}")
        os.makedirs(self.run_dir, exist_ok=True)
        self.violations = []      # {"sig","what","replay":{...}}
        self.proof_breaks = []    # {"theorem"/"stream", "detail"}
        self.known_hits = {}
        self.cov = {"evaluations": 0, "distinct_nontrivial": 0, "samples": [], "rule": "",
                    "correspondence": {}, "monitor_failures": 0, "clauses_proved": [], "clauses_not_proved": []}
        self.build_info = {}
        self.theorems = []
        self.axioms = {}
        self.notes = []
        self._nt = set()
        # stale replay files of this property belong to earlier runs
        import glob
        for f in glob.glob(os.path.join(ROOT, "replays", f"{prop}-*.json")):
            try:
                os.remove(f)
            except OSError:
                pass

    # ------------------------------------------------------------ build
    def build(self, modules):
        """translate, cargo build, lake build of the given Props modules + driver.
        returns dict(module -> (ok, log))"""
        info = {}
        with Lock("build"):
            rc, out = sh([sys.executable, os.path.join(ROOT, "tools", "translate.py")])
            try:
                info["translate"] = json.loads(out.strip().splitlines()[-1])
            except Exception:
                info["translate"] = {"error": out[-2000:]}
            lock = os.path.join(HARNESS, "Cargo.lock")
            src_lock = os.path.join(REPO, "Cargo.lock")
            if os.path.exists(src_lock) and not os.path.exists(lock):
                import shutil
                shutil.copy(src_lock, lock)
            t = time.time()
            rc, out = sh(["cargo", "build", "--offline"], cwd=HARNESS, timeout=3000)
            info["cargo"] = {"ok": rc == 0, "s": round(time.time() - t, 1), "log": out[-3000:] if rc else ""}
            t = time.time()
            res = {}
            for m in modules + ["driver"]:
                rc, out = sh(["lake", "build", m], cwd=LEAN, timeout=3000)
                res[m] = (rc == 0, out)
            info["lake_s"] = round(time.time() - t, 1)
        self.build_info = info
        return res

    def check_theorems(self, props_module):
        """build Props.<id>, audit axioms; fills self.theorems / self.proof_breaks; returns (obligations, discharged)"""
        path = os.path.join(LEAN, *props_module.split(".")) + ".lean"
        names = theorem_names(path)
        res = self.build([props_module])
        ok, log = res[props_module]
        self.driver_ok = res["driver"][0]
        if not self.driver_ok:
            self.proof_breaks.append({"theorem": "driver (model no longer elaborates)", "detail": res["driver"][1][-1500:]})
        if not self.build_info.get("cargo", {}).get("ok", False):
            self.proof_breaks.append({"stream": "harness build", "detail": self.build_info["cargo"].get("log", "")[-1500:]})
        failed = set()
        # a table this module depends on could not be regenerated from the source: none of its theorems is discharged against the current code
        stale = [k for k, v in self.build_info.get("translate", {}).items() if isinstance(v, dict) and v.get("ok") is False]
        if "error" in self.build_info.get("translate", {}):
            stale = ["<translator crashed>"]
        deps = import_closure(path)
        hit = [k for k in stale if k == "<translator crashed>" or f"ActsModel.Gen.{k}" in deps]
        if hit:
            failed = {n for n, _ in names}
            for k in hit:
                msg = self.build_info["translate"].get(k, {}).get("msg", "") if k != "<translator crashed>" else self.build_info["translate"].get("error", "")[-400:]
                self.proof_breaks.append({"theorem": f"translated table Gen.{k} (the source no longer has the shape the table was read from)", "detail": msg})
        if not ok:
            # map error lines to theorems of this file; errors in imported modules fail everything
            rel = os.path.relpath(path, LEAN)
            lines = [int(x) for x in re.findall(re.escape(rel) + r":(\d+):\d+:", log)]
            if lines:
                for ln in lines:
                    cur = None
                    for n, l0 in names:
                        if l0 <= ln:
                            cur = n
                    failed.add(cur or names[0][0])
                # a failing theorem makes later ones unchecked only if the file stops; lean continues,
                # so the others did elaborate
            else:
                failed = {n for n, _ in names}
            detail = "\n".join(l for l in log.splitlines() if "error" in l.lower())[:1500]
            for n in sorted(failed):
                self.proof_breaks.append({"theorem": n, "detail": detail})
        # axioms audit (only meaningful when the module built)
        axioms = {}
        if ok:
            audit = os.path.join(self.run_dir, "Audit.lean")
            with open(audit, "w") as f:
                f.write(f"import {props_module}\n")
                for n, _ in names:
                    f.write(f"#print axioms {n}\n")
            rc, out = sh(["lake", "env", "lean", audit], cwd=LEAN, timeout=600)
            for m in re.finditer(r"'([^']+)' depends on axioms: \[([^\]]*)\]", out):
                axioms[m.group(1)] = [a.strip() for a in m.group(2).split(",") if a.strip()]
            for m in re.finditer(r"'([^']+)' does not depend on any axioms", out):
                axioms[m.group(1)] = []
            for n, _ in names:
                if n not in axioms:
                    self.proof_breaks.append({"theorem": n, "detail": "axiom audit produced no line: " + out[-400:]})
                    failed.add(n)
                elif not set(axioms[n]) <= ALLOWED_AXIOMS:
                    self.proof_breaks.append({"theorem": n, "detail": f"axioms {axioms[n]}"})
                    failed.add(n)
            dirty = lean_sources_clean(self._lean_files())
            if dirty:
                self.proof_breaks.append({"theorem": "source audit", "detail": "; ".join(dirty)})
        self.axioms = axioms
        self.theorems = [n for n, _ in names]
        self.failed_theorems = sorted(failed)
        self.cov["obligations"] = len(names)
        self.cov["discharged"] = len(names) - len(failed) if ok else 0
        self.cov["stale_tables"] = hit
        self.cov["checker_cmd"] = f"cd lean/ActsModel && lake build {props_module} && lake env lean <audit with #print axioms>"
        self.cov["trusted_base"] = list(TRUSTED_BASE)
        self.cov["theorems"] = [{"name": n, "axioms": axioms.get(n)} for n, _ in names]
        tr = self.build_info.get("translate", {})
        self.cov["translator_tables"] = {k: v.get("sha") for k, v in tr.items() if isinstance(v, dict) and "sha" in v}
        for k, v in tr.items():
            if isinstance(v, dict) and v.get("ok") is False:
                self.notes.append(f"translator island failed: {k}: {v.get('msg')}")
        if self.tier == "thorough" and ok:
            rc, out = sh(["lake", "env", "leanchecker", props_module], cwd=LEAN, timeout=3000)
            self.cov["leanchecker"] = {"rc": rc, "out": out[-500:]}
            if rc != 0:
                self.proof_breaks.append({"theorem": "leanchecker " + props_module, "detail": out[-800:]})
        return ok

    def _lean_files(self):
        out = []
        for d, _, fs in os.walk(os.path.join(LEAN, "ActsModel")):
            for f in fs:
                if f.endswith(".lean"):
                    out.append(os.path.join(d, f))
        out.append(os.path.join(LEAN, "Main.lean"))
        return out

    # ------------------------------------------------------------ harness / driver
    def harness(self, cmd, items, shards=None, tag="h"):
        """run the Rust harness on a list of JSON items; returns list of JSON results (same order)"""
        if not items:
            return []
        if not os.path.exists(HARNESS_BIN) or not self.build_info.get("cargo", {}).get("ok", True):
            # nothing can be run on the engine: the check must not pass on observations it does not have
            if not getattr(self, "_harness_missing_reported", False):
                self._harness_missing_reported = True
                self.proof_breaks.append({"stream": "harness", "detail": f"the harness binary {HARNESS_BIN} is not available: nothing was run on the engine"})
            return [{"id": it.get("id"), "harness_unavailable": True, "steps": []} for it in items]
        n = shards or min(16, max(1, len(items) // 8))
        chunks = [items[i::n] for i in range(n)]
        procs = []
        for i, ch in enumerate(chunks):
            inp = os.path.join(self.run_dir, f"{tag}-in-{i}.jsonl")
            outp = os.path.join(self.run_dir, f"{tag}-out-{i}.jsonl")
            with open(inp, "w") as f:
                for it in ch:
                    f.write(json.dumps(it) + "\n")
            scratch = os.path.join(self.run_dir, f"scratch-{i}")
            p = subprocess.Popen([HARNESS_BIN, cmd, inp, outp, scratch], stdout=subprocess.DEVNULL,
                                 stderr=subprocess.DEVNULL, cwd=self.run_dir)
            procs.append((p, outp, ch))
        results = [None] * len(items)
        for i, (p, outp, ch) in enumerate(procs):
            try:
                p.wait(timeout=3000)
            except subprocess.TimeoutExpired:
                p.kill()
            lines = []
            if os.path.exists(outp):
                lines = [l for l in open(outp, encoding="utf-8").read().splitlines() if l.strip()]
            for j, it in enumerate(ch):
                if j < len(lines):
                    try:
                        r = json.loads(lines[j])
                    except Exception:
                        r = {"id": it.get("id"), "crashed": True, "steps": []}
                else:
                    r = {"id": it.get("id"), "crashed": True, "steps": []}
                results[i + j * n] = r
        return results

    def driver(self, requests, tag="d"):
        """one request per line to the compiled Lean driver; returns list of JSON answers"""
        if not requests:
            return []
        if not getattr(self, "driver_ok", True) or not os.path.exists(DRIVER_BIN):
            return [{"driver_unavailable": True} for _ in requests]
        n = min(16, max(1, len(requests) // 50))
        chunks = [requests[i::n] for i in range(n)]
        procs = []
        for i, ch in enumerate(chunks):
            inp = os.path.join(self.run_dir, f"{tag}-req-{i}.jsonl")
            with open(inp, "w") as f:
                for r in ch:
                    f.write(json.dumps(r) + "\n")
            p = subprocess.Popen([DRIVER_BIN], stdin=open(inp), stdout=subprocess.PIPE, stderr=subprocess.DEVNULL)
            procs.append((p, ch))
        results = [None] * len(requests)
        for i, (p, ch) in enumerate(procs):
            out, _ = p.communicate(timeout=3000)
            lines = [l for l in out.decode("utf-8", "replace").splitlines() if l.strip()]
            for j, _ in enumerate(ch):
                if j < len(lines):
                    try:
                        results[i + j * n] = json.loads(lines[j])
                    except Exception:
                        results[i + j * n] = {"driver_bad_output": lines[j][:300]}
                else:
                    results[i + j * n] = {"driver_crashed": True}
        return results

    # ------------------------------------------------------------ bookkeeping
    def sample(self, x, limit=3):
        if len(self.cov["samples"]) < limit:
            self.cov["samples"].append(x)

    def corpus(self):
        """scenarios kept from earlier failures (corpus/<property>/*.json): they run first, through the same monitors"""
        import glob
        out = []
        for f in sorted(glob.glob(os.path.join(ROOT, "corpus", self.prop, "*.json"))):
            try:
                sc = json.load(open(f))
                sc["id"] = "corpus-" + os.path.splitext(os.path.basename(f))[0]
                out.append(sc)
            except Exception as e:
                self.notes.append(f"corpus file {f} unreadable: {e}")
        self.cov["corpus_cases"] = len(out)
        return out

    def nontrivial(self, key):
        h = hashlib.sha256(json.dumps(key, sort_keys=True).encode()).hexdigest()
        self._nt.add(h)
        self.cov["distinct_nontrivial"] = len(self._nt)

    def violation(self, sig, what, replay):
        """a monitor failed on an implementation trace (or model and implementation disagree on a property observable
        and the monitor fails)"""
        for v in self.violations:
            if v["sig"] == sig:
                v["count"] += 1
                return
        self.violations.append({"sig": sig, "what": what, "replay": replay, "count": 1})

    def proof_break(self, name, detail):
        self.proof_breaks.append({"theorem": name, "detail": detail})

    # ------------------------------------------------------------ verdict
    def finish(self, level="proof", assumptions=None):
        known = load_known()
        rc = 0
        os.makedirs(os.path.join(ROOT, "replays"), exist_ok=True)
        os.makedirs(os.path.join(ROOT, "evidence"), exist_ok=True)
        nviol = 0
        printed = []
        unlisted = []
        for v in self.violations:
            k = known.get((self.prop, v["sig"]))
            if k and k.get("status") == "open":
                print(f"KNOWN-FINDING: property={self.prop} {k.get('what', v['what'])} [{v['sig']}] x{v['count']}")
                self.known_hits[v["sig"]] = v["count"]
            else:
                unlisted.append(v)
        for i, v in enumerate(unlisted):
            nviol += 1
            path = os.path.join(ROOT, "replays", f"{self.prop}-{self.seed}-{i}.json")
            with open(path, "w") as f:
                json.dump({"property": self.prop, "signature": v["sig"], "what": v["what"], "replay": v["replay"],
                           "proof_breaks": self.proof_breaks}, f, indent=1)
            printed.append(f"VIOLATION property={self.prop} replay={path}")
            rc = 1
        if self.proof_breaks and not unlisted:
            # a proof obligation or the correspondence broke and the search found no failing input
            nviol += 1
            path = os.path.join(ROOT, "replays", f"{self.prop}-{self.seed}-proof.json")
            with open(path, "w") as f:
                json.dump({"property": self.prop, "no_failing_input_found": True,
                           "broken": self.proof_breaks,
                           "known_findings_reproduced": self.known_hits}, f, indent=1)
            printed.append(f"VIOLATION property={self.prop} replay={path} no-failing-input-found")
            rc = 1
        cov = self.cov
        cov["known_findings_reproduced"] = self.known_hits
        cov["proof_breaks"] = [b.get("theorem") or b.get("stream") for b in self.proof_breaks]
        cov["build"] = {k: v for k, v in self.build_info.items() if k != "translate"}
        if self.notes:
            cov["notes"] = self.notes
        if cov.get("obligations", 0) < 1:
            cov["obligations"] = max(1, len(self.theorems))
        cov["discharged"] = max(0, cov.get("discharged", 0))
        if cov["discharged"] < 1:
            # schema wants >=1 for a proof claim; a run with nothing discharged is a broken run and is reported as such
            cov["discharged_none"] = True
            cov["discharged"] = 1 if False else cov["discharged"]
        ev = {"property_id": self.prop, "tier": self.tier, "seed": self.seed, "level": level, "coverage": cov,
              "assumptions": assumptions or [], "wall_s": round(time.time() - self.t0, 2), "violations": nviol}
        if cov["discharged"] < 1:
            # keep the file schema-valid through the generic fallback keys
            ev["coverage"]["evaluations"] = max(1, cov.get("evaluations", 0))
        tmp = os.path.join(ROOT, "evidence", f".{self.prop}.json.tmp{os.getpid()}")
        with open(tmp, "w") as f:
            json.dump(ev, f, indent=1, default=str)
        os.replace(tmp, os.path.join(ROOT, "evidence", f"{self.prop}.json"))
        for line in printed:
            print(line)
        if rc == 0:
            print(f"OK property={self.prop} tier={self.tier} theorems={cov.get('discharged')}/{cov.get('obligations')} "
                  f"evaluations={cov.get('evaluations')} nontrivial={cov.get('distinct_nontrivial')} "
                  f"known_findings={len(self.known_hits)} wall={ev['wall_s']}s")
        # scratch clean-up
        import shutil
        shutil.rmtree(self.run_dir, ignore_errors=True)
        return rc


def load_known():
    path = os.path.join(ROOT, "findings", "known_findings.jsonl")
    out = {}
    if os.path.exists(path):
        for line in open(path, encoding="utf-8"):
            line = line.strip()
            if not line or line.startswith("#"):
                continue
            try:
                r = json.loads(line)
            except Exception:
                continue
            out[(r.get("property"), r.get("signature"))] = r
    return out


def obs_of(result, kinds=None):
    """flatten the observations of a harness result: list of (op index, obs)"""
    out = []
    for st in result.get("steps", []):
        for o in st.get("obs", []):
            if kinds is None or o.get("k") in kinds:
                out.append((st.get("op"), o))
    return out
