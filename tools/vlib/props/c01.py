"""C01 — progress: a quiescent, unfinished process is always waiting on a client"""
import json

from .. import gen, opcorr
from ..core import obs_of
from ..rng import Rng

ASSUMPTIONS = [
    "quiescence is decided by the in-flight counter of the verif hooks; schedules are the release orders of the parked queue (every order the stepped harness draws), "
    "not OS-level interleavings inside one exec",
    "the reference interpretation covers needs lists over condition branches of the same step and steps with acts beside branches (with an else branch among them only the finished "
    "flag is compared: when that branch is woken depends on the schedule); several else branches and needs lists that name waiting branches (else / needs) are decided by the monitor "
    "and the operational model only",
    "timeouts are not generated here (C19); sub-processes and reloads have a small family of their own (a caller waiting for its child, a catch-revived step, dropped from the cache or restarted before the answer)",
]

TERMINAL = {"completed", "submitted", "backed", "cancelled", "error", "aborted", "skipped", "removed"}


def gen_scenario(seed, i, tier):
    rng = Rng(seed * 2750159 + i)
    depth = rng.pick([1, 2, 2, 3]) if tier == "thorough" else rng.pick([1, 2, 2])
    else_pos = rng.pick(["first", "last", "any", "last"])
    g = gen.WfGen(rng.fork("wf"), depth=depth, max_steps=rng.range(1, 3), max_branches=3, max_acts=rng.range(1, 3), p_if=20,
                  p_branches=85 if i % 5 == 4 else 55, else_pos=else_pos, needs=rng.chance(1, 2), mixed=(i % 5 == 4) or rng.chance(1, 6),
                  two_else=(i % 5 != 4) and rng.chance(1, 10),
                  act_kinds=((gen.IRQ, 6), (gen.MSG, 2)))
    w = g.workflow("m1")
    if i % 10 == 9:
        add_hooks(w, rng.fork("hooks"))
        g.features.add("hooks")
    inputs = {"x": rng.below(4), "y": rng.below(4)}
    policy = rng.pick(["fifo", "lifo", "rand", "fifo"])
    ops = [["deploy", 0], ["start", "m1", dict(pid="p1", **inputs)]]
    rounds = 14
    for _ in range(rounds):
        if rng.chance(1, 5):
            ops.append(["run", rng.below(4)])
        ops.append(["runall", policy, rng.below(1 << 30)])
        ev = "next"
        if i % 5 == 4:
            # other ways to answer an interrupt: every one of them has to let the process go on
            ev = rng.weighted([("next", 6), ("submit", 2), ("remove", 2), ("skip", 2)])
            g.features.add("answers-mixed")
        ops.append(["act", ev, "p1", {"open": rng.below(4)}, {}])
    ops.append(["runall", policy, rng.below(1 << 30)])
    sc = {"id": f"c01-{seed}-{i}", "config": {"keep": True, "dump_each": True}, "models": [w], "ops": ops, "exprs": g.exprs,
          "features": sorted(g.features | {"else-" + else_pos, policy})}
    return sc, inputs


HOOK_EVENTS = ["created", "completed", "before_update", "updated", "step"]


def add_hooks(w, rng):
    """lifecycle hooks (message acts bound to an event by `on`) on the workflow, on steps and on acts"""
    n = [0]

    def hooks():
        out = []
        for _ in range(rng.range(1, 2)):
            n[0] += 1
            out.append({"uses": gen.MSG, "on": rng.pick(HOOK_EVENTS), "key": f"hook{n[0]}"})
        return out

    if rng.chance(1, 3):
        w["setup"] = hooks()

    def steps(ss):
        for s in ss:
            if rng.chance(1, 3):
                s["setup"] = hooks()
            for a in s.get("acts", []):
                if rng.chance(1, 4):
                    a["setup"] = hooks()
            for b in s.get("branches", []):
                steps(b.get("steps", []))
    steps(w.get("steps", []))


def hook_on_auto(w):
    """the model has a hook of the created class (created / before_update).  The act such a hook fires becomes a child of the task whose
    event fired it; when that task looks at its children before the hook act has ended (always, if it completes by itself: message and
    function acts, steps without acts; under other release orders otherwise) it stays open, and the end of a hook act never makes
    anybody look again"""
    return any(k in json.dumps(w) for k in ('"on": "created"', '"on": "before_update"'))


def quiescent_points(sc, res):
    """(op index, queue length, dump of p1, terminal event delivered so far)"""
    out = []
    terminal = False
    for st in res.get("steps", []):
        i = st["op"]
        obs = st["obs"]
        if any(o.get("k") == "pev" and o.get("chan") == "default" and o.get("ev") in ("complete", "error") for o in obs):
            terminal = True
        q = [o for o in obs if o.get("k") == "queue"]
        d = [o for o in obs if o.get("k") == "dump" and o.get("pid") == "p1"]
        if q and d:
            out.append((i, len(q[0]["q"]), d[0], terminal))
    return out


def run(ctx):
    ctx.check_theorems("ActsModel.Props.C01")
    n = 300 if ctx.tier == "quick" else 6000
    scs, inputs = [], []
    for i in range(n):
        sc, inp = gen_scenario(ctx.seed, i, ctx.tier)
        scs.append(sc)
        inputs.append(inp)
    results = ctx.harness("run", scs)
    models = ctx.driver([opcorr.model_request(sc) for sc in scs], tag="dm")
    # ---- the Lean monitor on every quiescent point of the engine
    mon_reqs, where = [], []
    ref_reqs = []
    for k, (sc, res) in enumerate(zip(scs, results)):
        pts = quiescent_points(sc, res)
        answered_sets = []
        for (i, qlen, d, terminal) in pts:
            if d.get("absent"):
                continue
            tasks = [[t["kind"], t["state"]] for t in d["tasks"]]
            mon_reqs.append({"cmd": "c01.monitor", "queue": qlen, "procs": [{"pid": "p1", "terminal": terminal, "tasks": tasks}]})
            where.append((k, i, d, terminal, qlen))
        for (i, qlen, d, terminal) in pts:
            if qlen == 0 and not d.get("absent"):
                answered_sets.append((i, sorted(t["nid"] for t in d["tasks"] if t["kind"] == "act" and t["uses"] == gen.IRQ and t["state"] == "completed"),
                                      sorted(t["nid"] for t in d["tasks"] if t["state"] == "interrupted"), terminal))
        ref_reqs.append({"cmd": "ref.eval", "model": sc["models"][0], "exprs": sc["exprs"], "inputs": inputs[k], "answered": [a[1] for a in answered_sets], "_pts": answered_sets})
    verdicts = ctx.driver(mon_reqs, tag="dq")
    refs = ctx.driver([{k: v for k, v in r.items() if k != "_pts"} for r in ref_reqs], tag="dr")
    flagged = set()
    feat = {}
    for (k, i, d, terminal, qlen), vd in zip(where, verdicts):
        sc = scs[k]
        ctx.cov["evaluations"] += 1
        if k in flagged or not isinstance(vd, dict) or "ok" not in vd:
            continue
        if any(t["state"] == "pending" for t in d["tasks"]):
            ctx.nontrivial([sc["models"], sc["ops"][:i + 1]])
        if not vd["ok"]:
            flagged.add(k)
            ctx.cov["monitor_failures"] += 1
            stranded = vd["stranded"][0]["tasks"] if vd.get("stranded") else []
            # signature: which kind of task is stranded in which state, and the structural feature
            kinds = sorted(set(f"{a}:{b}" for a, b in stranded))
            feats = [f for f in sc["features"] if f in ("needs", "else", "else-last", "two-else", "mixed")]
            cyc = wait_cycles(sc["models"][0])
            if "hooks" in sc["features"] and hook_on_auto(sc["models"][0]) and not cyc:
                shape = "hook-act-unfinished-at-review"
            elif cyc:
                shape = "wait-cycle:" + "+".join(sorted(cyc))
            elif "mixed" in feats and any(x.startswith("act") for x in kinds):
                shape = "mixed"
            elif "branch:pending" in kinds:
                shape = "pending-branch"
            else:
                shape = "other"
            sig = f"C01|stranded|{shape}"
            ctx.violation(sig, f"quiescent after op {i} with nothing to answer: stranded {kinds}; features {sc['features']}",
                          {"scenario": sc, "op": i, "stranded": stranded, "dump_states": [(t['nid'], t['state']) for t in d['tasks']]})
    # ---- all interrupts answered => finished
    for k, (sc, res) in enumerate(zip(scs, results)):
        if k in flagged:
            continue
        pts = quiescent_points(sc, res)
        if not pts:
            continue
        i, qlen, d, terminal = pts[-1]
        if d.get("absent"):
            continue
        open_irqs = [t for t in d["tasks"] if t["state"] == "interrupted"]
        if qlen == 0 and not open_irqs and not terminal:
            flagged.add(k)
            ctx.violation("C01|not-finished-after-all-answers", "every interrupt was answered but the process did not finish", {"scenario": sc})
    # ---- correspondence: engine vs operational model, engine vs reference interpretation
    ncorr = nref = 0
    for k, (sc, res, mod) in enumerate(zip(scs, results, models)):
        if "hooks" in sc["features"]:
            continue
        r = opcorr.compare(sc, res, mod, ["new", "tr", "ptr", "res", "queue"], with_dump=True)
        if r and r[1] not in ("unsupported", "exec-after-removal", "engine-stuck"):
            ctx.proof_break("correspondence: Op model", f"{sc['id']} op {r[0]} stream {r[1]}: {r[2][:300]}")
        else:
            ncorr += 1
    for k, (rq, rf) in enumerate(zip(ref_reqs, refs)):
        if not isinstance(rf, dict) or not rf.get("in_fragment") or k in flagged or "hooks" in scs[k]["features"] or "answers-mixed" in scs[k]["features"]:
            continue
        for (i, answered, opens, terminal), pt in zip(rq["_pts"], rf.get("points", [])):
            if rf.get("final_only") and not terminal:
                # a step with acts beside an else branch: when the else branch is woken depends on the schedule; the finished flag does not
                continue
            nref += 1
            if sorted(pt["opens"]) != opens or pt["done"] != terminal:
                ctx.violation("C01|engine-vs-reference", f"after op {i}: engine open interrupts {opens} finished={terminal}; reference opens {sorted(pt['opens'])} done={pt['done']}",
                              {"scenario": scs[k], "op": i, "answered": answered})
                break
    nrc = judge_reload_and_call(ctx, reload_and_call_scenarios(ctx.seed, 40 if ctx.tier == "quick" else 800))
    feat["reload-and-call"] = nrc
    for sc in scs:
        for f in sc["features"]:
            feat[f] = feat.get(f, 0) + 1
    ctx.sample({"scenario": scs[0]["id"], "model": scs[0]["models"][0], "ops": scs[0]["ops"][:6]}, limit=1)
    ctx.cov["correspondence"] = {"scenarios": len(scs), "op_model_agree": ncorr, "reference_points_compared": nref, "features": feat,
                                 "streams_compared": ["new/tr/ptr/res/queue + dumps vs Op model", "open interrupts and finished flag vs Ref at every quiescent point"]}
    ctx.cov["rule"] = ("workflows of the C04 grammar (depth<=3, else first/middle/last, needs chains, empty branches, mixed steps, two else branches), two small-integer inputs, "
                       "FIFO/LIFO/seeded-random release orders with partial releases, every interrupt answered in seeded order; monitor at every quiescent point; "
                       "non-trivial = some task was pending at a quiescent point; distinct by (model, op prefix)")
    ctx.cov["clauses_proved"] = ["Ref: unfinished => an unanswered interrupt is open (all workflows, conditions, answer sets)", "Ref: all answered => finished; done is monotone"]
    ctx.cov["clauses_not_proved"] = ["the engine refines Ref (three-way differential at every quiescent point)", "two-else shapes, needs lists over waiting branches, intermediate points of steps with acts beside an else branch (monitor + Op model only)"]


def reload_and_call_scenarios(seed, n):
    """progress across reloads and sub-processes: a caller waits for its child under both retention settings; a step revived by its catch waits in its
    catch steps; the waiting process is dropped from the cache (or the engine restarted on SQLite) before the client answers"""
    scs = []
    for i in range(n):
        rng = Rng(seed * 2750161 + i)
        keep = rng.chance(1, 2)
        store = "sqlite" if i % 3 == 2 else "mem"
        cut = ["restart"] if store == "sqlite" else ["evict", "p1"]
        if i % 2 == 0:
            child = {"id": "c1", "steps": [{"id": "cs1", "acts": [{"id": "ca1", "uses": gen.IRQ, "key": "kca1"}]}], "outputs": {"r": None}}
            parent = {"id": "m1", "steps": [{"id": "s1", "acts": [{"id": "a1", "uses": "acts.core.subflow", "params": {"to": "c1", "options": {"pid": "p1-a1"}}}]},
                                            {"id": "s2", "acts": [{"id": "a9", "uses": gen.IRQ, "key": "ka9"}]}]}
            models = [parent, child]
            ops = [["deploy", 0], ["deploy", 1], ["start", "m1", {"pid": "p1"}], ["runall"]]
            if rng.chance(1, 2):
                ops.append(cut)
            ops += [["act", rng.pick(["next", "next", "skip"]), "p1-a1", {"open": 0}, {"r": 1}], ["runall"]]
            kind = "call"
        else:
            handler = [{"id": "cs", "acts": [{"id": "fix", "uses": gen.IRQ, "key": "kfix"}]}]
            s1 = {"id": "s1", "acts": [{"id": "a1", "uses": gen.IRQ, "key": "ka1"}]}
            if rng.chance(1, 2):
                s1["catches"] = [{"on": "e1", "steps": handler}]
            else:
                s1["acts"][0]["catches"] = [{"on": "e1", "steps": handler}]
            models = [{"id": "m1", "steps": [s1, {"id": "s2", "acts": [{"id": "a9", "uses": gen.IRQ, "key": "ka9"}]}]}]
            ops = [["deploy", 0], ["start", "m1", {"pid": "p1"}], ["runall"], ["act", "error", "p1", {"nid": "a1", "k": 0}, {"ecode": "e1", "message": "x"}], ["runall"], cut]
            kind = "catch"
        exprs = {}
        if i % 5 == 3:
            # the error of a sub-process comes back to a calling act that declares a catch: the call completes after the handler
            from . import c06
            sc = c06.call_catch_scenario(rng.fork("cc"), i)
            models, ops, exprs, kind = sc["models"], sc["ops"][:-12], sc["exprs"], "call-catch"
            store = "mem"
        elif i % 5 == 4:
            # a needs-branch whose needed sibling ends in error, the error taken by the catch of the owning step: an ended sibling is an
            # ended sibling, the branch is woken
            handler = rng.pick([[], [{"id": "hs", "acts": [{"id": "hfix", "uses": gen.IRQ, "key": "khfix"}]}], [{"id": "hs", "acts": [{"id": "hm", "uses": gen.MSG, "key": "khm"}]}]])
            brs = [{"id": "bA", "if": "(x == 0)", "steps": [{"id": "sA", "acts": [{"id": "a", "uses": gen.IRQ, "key": "ka"}]}]},
                   {"id": "bN", "needs": ["bA"], "steps": [{"id": "sN", "acts": [{"id": "n", "uses": gen.IRQ, "key": "kn"}]}]}]
            s1 = {"id": "s1", "branches": rng.shuffle(brs), "catches": [{"steps": handler}]}
            models = [{"id": "m1", "steps": [s1, {"id": "s2", "acts": [{"id": "a9", "uses": gen.IRQ, "key": "ka9"}]}]}]
            exprs = {"(x == 0)": ["bin", "==", ["var", "x"], ["lit", 0]]}
            ops = [["deploy", 0], ["start", "m1", {"pid": "p1", "x": 0, "y": 0}], ["runall"],
                   ["act", "error", "p1", {"nid": "a", "k": -1}, {"ecode": "e1", "message": "x"}], ["runall"]]
            kind = "needs-error"
            store = "mem"
        for _ in range(5):
            ops += [["act", "next", "p1", {"open": 0}, {}], ["runall"]]
        scs.append({"id": f"c01-rc-{seed}-{i}", "config": {"keep": keep, "store": store, "dump_each": True}, "models": models, "ops": ops, "exprs": exprs, "kind": kind,
                    "features": ["reload", kind]})
    return scs


def judge_reload_and_call(ctx, scs):
    results = ctx.harness("run", [{k: v for k, v in sc.items() if k not in ("kind",)} for sc in scs], tag="rc")
    reqs, where = [], []
    for k, (sc, res) in enumerate(zip(scs, results)):
        started, terminal = [], set()
        for st in res.get("steps", []):
            obs = st["obs"]
            for o in obs:
                if o.get("k") == "pev" and o.get("chan") == "default":
                    if o["ev"] == "start" and o["pid"] not in started:
                        started.append(o["pid"])
                    elif o["ev"] in ("complete", "error"):
                        terminal.add(o["pid"])
            q = [o for o in obs if o.get("k") == "queue"]
            if not q or q[0]["q"]:
                continue
            dumps = {o["pid"]: o for o in obs if o.get("k") == "dump" and not o.get("absent")}
            procs = []
            for pid in started:
                if pid in terminal:
                    procs.append({"pid": pid, "terminal": True, "tasks": []})
                elif pid in dumps:
                    kids = sum(1 for c in started if c.startswith(pid + "-") and c not in terminal)
                    procs.append({"pid": pid, "terminal": False, "tasks": [[t["kind"], t["state"]] for t in dumps[pid]["tasks"]], "children": kids})
                # a process that is neither terminal nor in the cache is judged when it comes back
            reqs.append({"cmd": "c01.monitor", "queue": 0, "procs": procs})
            where.append((k, st["op"]))
    verdicts = ctx.driver(reqs, tag="drc")
    flagged = set()
    for (k, i), vd in zip(where, verdicts):
        ctx.cov["evaluations"] += 1
        if k in flagged or not isinstance(vd, dict) or vd.get("ok") is not False:
            continue
        flagged.add(k)
        sc = scs[k]
        ctx.cov["monitor_failures"] += 1
        st = vd["stranded"][0]
        ctx.violation(f"C01|stranded|{sc['kind']}-{'keep' if sc['config']['keep'] else 'default'}", f"quiescent after op {i} with nothing to answer: process {st['pid']} stranded "
                      f"{sorted(set(a + ':' + b for a, b in st['tasks']))}; {sc['config']}", {"scenario": sc, "op": i})
    # everything was answered: every started process has finished
    for k, (sc, res) in enumerate(zip(scs, results)):
        if k in flagged:
            continue
        started = {o["pid"] for st in res.get("steps", []) for o in st["obs"] if o.get("k") == "pev" and o.get("chan") == "default" and o["ev"] == "start"}
        ended = {o["pid"] for st in res.get("steps", []) for o in st["obs"] if o.get("k") == "pev" and o.get("chan") == "default" and o["ev"] in ("complete", "error")}
        if started - ended:
            ctx.violation(f"C01|not-finished-after-all-answers|{sc['kind']}", f"every interrupt was answered but {sorted(started - ended)} did not finish ({sc['config']})", {"scenario": sc})
        else:
            ctx.nontrivial(["rc", sc["models"], sc["ops"], sc["config"]])
    return len(scs)


def wait_cycles(w):
    """static wait cycles among the branches of one step: several else branches wait for each other; a needs-branch all of whose
    needed siblings are themselves waiting branches (needs / else) or do not exist can never start"""
    found = set()

    def steps(ss):
        for s in ss:
            bs = s.get("branches", [])
            ids = {b["id"] for b in bs}
            waiting = {b["id"] for b in bs if b.get("needs") or (b.get("else") and len(bs) + (1 if s.get("acts") else 0) > 1)}
            if sum(1 for b in bs if b.get("else") and not b.get("needs")) >= 2:
                found.add("two-else")
            for b in bs:
                ns = b.get("needs") or []
                if ns and all((n not in ids) or (n in waiting) for n in ns):
                    found.add("needs-on-waiting")
            for b in bs:
                steps(b.get("steps", []))
            for a in s.get("acts", []):
                for c in a.get("catches", []):
                    steps(c.get("steps", []))
            for c in s.get("catches", []):
                steps(c.get("steps", []))
    steps(w.get("steps", []))
    return found


def replay(ctx, data):
    ctx.build([])
    sc = data["replay"].get("scenario")
    if sc:
        res = ctx.harness("run", [sc])[0]
        for (i, qlen, d, terminal) in quiescent_points(sc, res):
            print(i, sc["ops"][i][:3], "queue", qlen, "terminal", terminal, [(t["nid"], t["state"]) for t in d.get("tasks", []) if t["state"] not in TERMINAL])
    return 0
