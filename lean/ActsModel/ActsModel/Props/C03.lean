import ActsModel.Spec.Hier
import ActsModel.Spec.Lifecycle
import ActsModel.Spec.Ref
import ActsModel.Props.C01

/-!
# C03 — Hierarchical completion and exactly one terminal event per process
-/
namespace Acts.C03
open Acts.Gen Acts.Spec

/-- K1 (`on_proc` read from the source): which client event a process state yields -/
theorem proc_event_table (s : TaskState) :
    (procEventOf s = .start ↔ s = .running ∨ s = .pending) ∧
    (procEventOf s = .error ↔ s = .error) ∧
    (procEventOf s = .complete ↔ (s.isCompleted = true ∧ s ≠ .error)) := by
  cases s <;> decide

/-- K1: the terminal event is `complete` xor `error`, and it is produced exactly for terminal process states -/
theorem terminal_event_xor (s : TaskState) :
    (procEventOf s = .complete ∨ procEventOf s = .error) ↔ stage s = 3 := by
  cases s <;> decide

/-- K1: a process is removed from cache and store on its terminal event exactly when `keep_processes` is off -/
theorem removal_rule (keep : Bool) : removeOnTerminal keep = !keep := rfl

-- ------------------------------------------------------------------ one entry into a terminal state per task (from C02)

/-- number of writes of a trace that take their task from a non-terminal into a terminal state -/
def terminalEntries : List Tr → Nat
  | [] => 0
  | t :: ts => (if stage t.old < 3 ∧ stage t.new = 3 then 1 else 0) + terminalEntries ts

/-- a gap-free trace of one task: each write starts from the state the previous one left -/
def chained : TaskState → List Tr → Prop
  | _, [] => True
  | s, t :: ts => t.old = s ∧ chained t.new ts

/-- **a task that is never revived by a catch enters a terminal state at most once** (so, with the process events
being emitted from the root's terminal write, a process has at most one terminal event): for every legal gap-free trace -/
theorem terminal_entered_once (ts : List Tr) : ∀ s, chained s ts → (∀ t ∈ ts, legal t.old t.new = true) →
    terminalEntries ts ≤ (if stage s = 3 then 0 else 1) := by
  induction ts with
  | nil => intro s _ _; simp [terminalEntries]
  | cons t ts ih =>
    intro s hc hl
    obtain ⟨hold, hrest⟩ := hc
    have hleg := hl t (List.mem_cons_self ..)
    have ih' := ih t.new hrest (fun u hu => hl u (List.mem_cons_of_mem _ hu))
    simp only [terminalEntries]
    subst hold
    by_cases h3 : stage t.old = 3
    · have : t.new = t.old := by
        revert hleg h3; cases t.old <;> cases t.new <;> decide
      rw [this] at ih'
      simp [h3] at ih' ⊢
      omega
    · have hlt : stage t.old < 3 := by
        have : stage t.old ≤ 3 := by cases t.old <;> decide
        omega
      by_cases hn : stage t.new = 3
      · simp [hn] at ih'
        simp [h3, hlt, hn, ih']
      · have : ¬ (stage t.old < 3 ∧ stage t.new = 3) := fun h => hn h.2
        simp only [this, ↓reduceIte, h3]
        simp only [hn, ↓reduceIte] at ih'
        omega

-- ------------------------------------------------------------------ the reference interpretation

open Acts.Ref in
/-- **a step is reported completed only when everything started beneath it is done** (reference interpretation) -/
theorem completed_iff_children_done (a : Answered) (i : String) (bs : List RBranch) (as : List RAct) :
    (statesStep a (.mk i true bs as)).head? = some (i, "completed") ↔
      (doneBranches a (anyCondHolds bs) bs = true ∧ doneActs a as = true) := by
  simp only [statesStep, Bool.not_true, Bool.false_eq_true, ↓reduceIte, List.head?_cons, Option.some.injEq, Prod.mk.injEq, true_and]
  cases doneBranches a (anyCondHolds bs) bs <;> cases doneActs a as <;> simp

open Acts.Ref in
/-- **when the process is finished nothing is waiting** (reference interpretation): no interrupt can be answered any more -/
theorem finished_nothing_open (a : Answered) (w : RWorkflow) (h : w.done a = true) : w.opens a = [] :=
  Acts.C01.opens_of_done_steps a w.steps h

-- ------------------------------------------------------------------ the monitor

/-- the monitor never lets a second terminal event or a second start event pass -/
theorem monitor_rejects_second_terminal (st : HState) (i : Nat) (kind : String) (hk : kind ≠ "start") (h : st.terminals ≥ 1) :
    (hierStep st i (.pev kind)).2 = some (i, "second-terminal-event", 0) := by
  have : (kind == "start") = false := by simpa using hk
  simp only [hierStep, this, Bool.false_eq_true, ↓reduceIte]
  have : st.terminals + 1 > 1 := by omega
  simp [this]

theorem monitor_rejects_second_start (st : HState) (i : Nat) (h : st.starts ≥ 1) :
    (hierStep st i (.pev "start")).2 = some (i, "second-start-event", 0) := by
  simp only [hierStep, beq_self_eq_true, ↓reduceIte]
  have : st.starts + 1 > 1 := by omega
  simp [this]

/-- non-vacuity: a legal chained trace of a root task, and the count of its terminal entries -/
example : terminalEntries [⟨"p:$", .none, .ready⟩, ⟨"p:$", .ready, .running⟩, ⟨"p:$", .running, .completed⟩] = 1 := by decide

end Acts.C03
