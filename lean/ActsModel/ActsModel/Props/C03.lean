import ActsModel.Spec.Hier
import ActsModel.Spec.Lifecycle
import ActsModel.Spec.Ref
import ActsModel.Props.C01
import ActsModel.Lemmas.Hier

/-!
# C03 — Hierarchical completion and exactly one terminal event per process
-/
namespace Acts.C03
open Acts.Gen Acts.Spec

/-- K1 (`on_proc` read from the source): which client event a process state yields -/
theorem proc_event_table (s : TaskState) :
    (procEventOf s = .start ↔ s = .running ∨ s = .pending) ∧
    (procEventOf s = .error ↔ s = .error) ∧
    (procEventOf s = .complete ↔ (s.isCompleted = true ∧ s ≠ .error)) := by
  cases s <;> decide

/-- K1: the terminal event is `complete` xor `error`, and it is produced exactly for terminal process states -/
theorem terminal_event_xor (s : TaskState) :
    (procEventOf s = .complete ∨ procEventOf s = .error) ↔ stage s = 3 := by
  cases s <;> decide

/-- K1: a process is removed from cache and store on its terminal event exactly when `keep_processes` is off -/
theorem removal_rule (keep : Bool) : removeOnTerminal keep = !keep := rfl

-- ------------------------------------------------------------------ one entry into a terminal state per task (from C02)

/-- number of writes of a trace that take their task from a non-terminal into a terminal state -/
def terminalEntries : List Tr → Nat
  | [] => 0
  | t :: ts => (if stage t.old < 3 ∧ stage t.new = 3 then 1 else 0) + terminalEntries ts

/-- a gap-free trace of one task: each write starts from the state the previous one left -/
def chained : TaskState → List Tr → Prop
  | _, [] => True
  | s, t :: ts => t.old = s ∧ chained t.new ts

/-- **a task that is never revived by a catch enters a terminal state at most once** (so, with the process events
being emitted from the root's terminal write, a process has at most one terminal event): for every legal gap-free trace -/
theorem terminal_entered_once (ts : List Tr) : ∀ s, chained s ts → (∀ t ∈ ts, legal t.old t.new = true) →
    terminalEntries ts ≤ (if stage s = 3 then 0 else 1) := by
  induction ts with
  | nil => intro s _ _; simp [terminalEntries]
  | cons t ts ih =>
    intro s hc hl
    obtain ⟨hold, hrest⟩ := hc
    have hleg := hl t (List.mem_cons_self ..)
    have ih' := ih t.new hrest (fun u hu => hl u (List.mem_cons_of_mem _ hu))
    simp only [terminalEntries]
    subst hold
    by_cases h3 : stage t.old = 3
    · have : t.new = t.old := by
        revert hleg h3; cases t.old <;> cases t.new <;> decide
      rw [this] at ih'
      simp [h3] at ih' ⊢
      omega
    · have hlt : stage t.old < 3 := by
        have : stage t.old ≤ 3 := by cases t.old <;> decide
        omega
      by_cases hn : stage t.new = 3
      · simp [hn] at ih'
        simp [h3, hlt, hn, ih']
      · have : ¬ (stage t.old < 3 ∧ stage t.new = 3) := fun h => hn h.2
        simp only [this, ↓reduceIte, h3]
        simp only [hn, ↓reduceIte] at ih'
        omega

-- ------------------------------------------------------------------ the reference interpretation

open Acts.Ref in
/-- **a step is reported completed only when everything started beneath it is done** (reference interpretation) -/
theorem completed_iff_children_done (a : Answered) (i : String) (bs : List RBranch) (as : List RAct) :
    (statesStep a (.mk i true bs as)).head? = some (i, "completed") ↔
      (doneBranches a (stepTaken bs as) (termIds a bs) bs = true ∧ doneActs a as = true) := by
  simp only [statesStep, Bool.not_true, Bool.false_eq_true, ↓reduceIte, List.head?_cons, Option.some.injEq, Prod.mk.injEq, true_and]
  cases doneBranches a (stepTaken bs as) (termIds a bs) bs <;> cases doneActs a as <;> simp

open Acts.Ref in
/-- **when the process is finished nothing is waiting** (reference interpretation): no interrupt can be answered any more -/
theorem finished_nothing_open (a : Answered) (w : RWorkflow) (h : w.done a = true) : w.opens a = [] :=
  Acts.C01.opens_of_done_steps a w.steps h

-- ------------------------------------------------------------------ the monitor

/-- the monitor never lets a second terminal event or a second start event pass -/
theorem monitor_rejects_second_terminal (st : HState) (i : Nat) (kind : String) (hk : kind ≠ "start") (h : st.terminals ≥ 1) :
    (hierStep st i (.pev kind)).2 = some (i, "second-terminal-event", 0) := by
  have : (kind == "start") = false := by simpa using hk
  simp only [hierStep, this, Bool.false_eq_true, ↓reduceIte]
  have : st.terminals + 1 > 1 := by omega
  simp [this]

theorem monitor_rejects_second_start (st : HState) (i : Nat) (h : st.starts ≥ 1) :
    (hierStep st i (.pev "start")).2 = some (i, "second-start-event", 0) := by
  simp only [hierStep, beq_self_eq_true, ↓reduceIte]
  have : st.starts + 1 > 1 := by omega
  simp [this]

/-- **exactly one start event and one terminal event** (K3, every stream): a stream of observations that the monitor accepts contains at
most one start event and at most one terminal event, and the terminal event has the start event before it -/
theorem accepted_stream_events (evs : List HEv) (h : hierMonitor {} 0 evs = none) :
    startCount evs ≤ 1 ∧ terminalCount evs ≤ 1 ∧
    ∀ pre e post, evs = pre ++ e :: post → isTerminalEv e = true → startCount pre = 1 := by
  have hb := hierMonitor_accepts_bounds evs {} 0 h (by decide) (by decide)
  have h0 : ({} : HState).starts = 0 := rfl
  have h1 : ({} : HState).terminals = 0 := rfl
  rw [h0, h1] at hb
  refine ⟨by omega, by omega, ?_⟩
  intro pre e post heq hte
  have ha := hierMonitor_terminal_after_start evs {} 0 h (by decide) (by decide) pre e post heq hte
  rw [h0] at ha
  have : startCount pre ≤ startCount evs := by
    subst heq
    simp only [startCount, List.filter_append, List.length_append]
    omega
  omega

/-- **hierarchical completion** (K3, every stream): at every `completed` write of an accepted stream no task other than a hook act is open
beneath the task that was written — on the monitor's state after exactly that prefix of the stream -/
theorem accepted_completed_nothing_open (pre post : List HEv) (tid : Nat)
    (h : hierMonitor {} 0 (pre ++ .tr tid .completed :: post) = none) :
    openBeneath (hierRun {} 0 (pre ++ [.tr tid .completed])).tasks tid = none := by
  obtain ⟨_, h2⟩ := hierMonitor_append pre {} 0 _ h
  obtain ⟨h3, _⟩ := hierMonitor_none_cons _ _ _ _ h2
  rw [hierRun_append]
  simp only [hierRun]
  exact hierStep_completed_pass _ _ _ h3

/-- **the process state is the root's state, and nothing is open behind a non-error ending** (K3, every stream): at every quiescent
point of an accepted stream the state the API shows for the process is the state of the root task (a root that has not left `none`
belongs to a running process), and once a `complete` event has been delivered every task but lifecycle-hook acts is terminal -/
theorem accepted_quiescent_point (pre post : List HEv) (ps : TaskState) (r : HTask)
    (h : hierMonitor {} 0 (pre ++ .quiescent ps :: post) = none)
    (hr : (hierRun {} 0 pre).tasks.find? (·.tid == 0) = some r) :
    (r.state = ps ∨ (r.state = .none ∧ ps = .running)) ∧
    (pre.any isCompleteEv = true → ∀ t ∈ (hierRun {} 0 pre).tasks, t.state.isCompleted = true ∨ t.hook = true) := by
  obtain ⟨_, h2⟩ := hierMonitor_append pre {} 0 _ h
  obtain ⟨h3, _⟩ := hierMonitor_none_cons _ _ _ _ h2
  obtain ⟨a, b, _⟩ := hierStep_quiescent_pass _ _ ps r hr h3
  refine ⟨a, fun hc => b ?_⟩
  rw [hierRun_nonErrorEnd]
  simp [hc]

/-- non-vacuity of the two theorems above: an accepted stream with a start, a completed step over a completed act, and a terminal event -/
example : hierMonitor {} 0 [.new ⟨0, "workflow", 0, none, .none, false⟩, .pev "start", .new ⟨1, "step", 1, some 0, .none, false⟩,
    .new ⟨2, "act", 2, some 1, .none, false⟩, .tr 2 .completed, .tr 1 .completed, .tr 0 .completed, .pev "complete", .quiescent .completed] = none := by
  decide

/-- … and the monitor does reject the same stream when the act is still open at the step's `completed` write -/
example : (hierMonitor {} 0 [.new ⟨0, "workflow", 0, none, .none, false⟩, .pev "start", .new ⟨1, "step", 1, some 0, .none, false⟩,
    .new ⟨2, "act", 2, some 1, .none, false⟩, .tr 1 .completed]).isSome = true := by
  decide

/-- non-vacuity: a legal chained trace of a root task, and the count of its terminal entries -/
example : terminalEntries [⟨"p:$", .none, .ready⟩, ⟨"p:$", .ready, .running⟩, ⟨"p:$", .running, .completed⟩] = 1 := by decide

end Acts.C03
