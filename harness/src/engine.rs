//! scenario execution on the real engine
use crate::{canon::Canon, storeops};
use acts::{
    Channel, ChannelOptions, Engine, EngineBuilder, Event, Message, Vars, Workflow, verif,
};
use acts_store_sqlite::SqliteStore;
use serde_json::{Value, json};
use std::{
    collections::HashMap,
    sync::{
        Arc, Mutex,
        atomic::{AtomicU64, Ordering},
    },
    time::Duration,
};

static UNIQ: AtomicU64 = AtomicU64::new(0);
static STUCK_SECS: AtomicU64 = AtomicU64::new(4);

pub struct Cfg {
    pub keep: bool,
    pub max_retry: i64,
    pub tick_secs: i64,
    pub cache_cap: i64,
    pub sqlite: bool,
    pub stepped: bool,
    pub workers: usize,
    pub dump_each: bool,
    pub rows_each: Vec<String>,
    pub default_chan: bool,
    pub user_vars: Value,
    pub packages: Value,
}

impl Cfg {
    fn from(v: &Value) -> Self {
        let g = |k: &str| v.get(k).cloned().unwrap_or(Value::Null);
        Cfg {
            keep: g("keep").as_bool().unwrap_or(false),
            max_retry: g("max_retry").as_i64().unwrap_or(20),
            tick_secs: g("tick_secs").as_i64().unwrap_or(15),
            cache_cap: g("cache_cap").as_i64().unwrap_or(1024),
            sqlite: g("store").as_str() == Some("sqlite"),
            stepped: g("mode").as_str().unwrap_or("stepped") == "stepped",
            workers: g("workers").as_u64().unwrap_or(1) as usize,
            dump_each: g("dump_each").as_bool().unwrap_or(false),
            rows_each: g("rows_each")
                .as_array()
                .map(|a| {
                    a.iter()
                        .filter_map(|x| x.as_str().map(|s| s.to_string()))
                        .collect()
                })
                .unwrap_or_default(),
            default_chan: g("default_chan").as_bool().unwrap_or(true),
            user_vars: g("user_vars"),
            packages: g("packages"),
        }
    }
}

type Log = Arc<Mutex<Vec<Value>>>;

struct St {
    engine: Engine,
    cfg: Cfg,
    toml: String,
    log: Log,
    chans: HashMap<String, Arc<Channel>>,
    chan_opts: Vec<Value>,
    pids: Vec<String>,
    canon: Canon,
    models: Vec<Value>,
}

pub fn classify(err: &str) -> &'static str {
    let table: &[(&str, &str)] = &[
        ("is already completed", "already-completed"),
        ("cannot find task by", "no-task"),
        ("is not an Act task", "not-an-act"),
        ("is not an Step task", "not-a-step"),
        ("the options is not satisfied", "outputs-unsatisfied"),
        ("cannot find process", "no-process"),
        ("cannot find 'to' value", "no-to"),
        ("cannot find history task", "no-history"),
        ("cannot find parent step task", "no-parent-step"),
        ("is not allowed to cancel", "not-cancellable"),
        ("cannot find cancelled tasks", "no-cancelled"),
        ("cannot find 'ecode'", "no-ecode"),
        ("cannot find task parent", "no-parent"),
        ("cannot find 'uses' in act", "no-uses"),
        ("cannot find action in context", "no-action"),
        ("cannot find models by", "no-model"),
        ("dup node id", "dup-id"),
        ("is duplicated in running process list", "dup-pid"),
        ("workflow event id is empty", "event-id-empty"),
        ("missing id in model", "no-model-id"),
        ("found next node error", "bad-next"),
        ("cannot find messages by", "no-message"),
        ("cannot find", "not-found"),
    ];
    for (pat, cls) in table {
        if err.contains(pat) {
            return cls;
        }
    }
    "other"
}

fn res_obs<T>(r: &acts::Result<T>) -> Value {
    match r {
        Ok(_) => json!({"k":"res","ok":true}),
        Err(e) => {
            let s = e.to_string();
            json!({"k":"res","ok":false,"err":classify(&s),"raw":s})
        }
    }
}

fn msg_json(m: &Message) -> Value {
    json!({
        "m": m.id, "pid": m.pid, "tid": m.tid, "nid": m.nid, "mid": m.mid,
        "name": m.name, "type": m.r#type, "state": m.state.to_string(), "key": m.key, "uses": m.uses,
        "tag": m.tag, "model_tag": m.model.tag, "inputs": Value::from(m.inputs.clone()),
        "outputs": Value::from(m.outputs.clone()), "retry": m.retry_times,
        "start_time": m.start_time, "end_time": m.end_time,
    })
}

fn write_toml(cfg: &Cfg, dir: &str) -> String {
    let path = format!("{dir}/acts.toml");
    let mut s = String::new();
    s.push_str(&format!("cache_cap = {}\n", cfg.cache_cap));
    s.push_str(&format!("tick_interval_secs = {}\n", cfg.tick_secs));
    s.push_str(&format!("max_message_retry_times = {}\n", cfg.max_retry));
    s.push_str(&format!("keep_processes = {}\n", cfg.keep));
    if cfg.sqlite {
        s.push_str(&format!(
            "\n[sqlite]\ndatabase_url = \"sqlite://{dir}/data.db\"\n"
        ));
    }
    std::fs::write(&path, s).expect("write toml");
    path
}

/// a user variable module registered by the client: a name and default data (config "user_vars": {name: {defaults}})
#[derive(Clone)]
struct UserVar {
    name: String,
    defaults: Value,
}

impl acts::ActUserVar for UserVar {
    fn name(&self) -> String {
        self.name.clone()
    }
    fn default_data(&self) -> Option<Vars> {
        if self.defaults.is_object() {
            Some(Vars::from(self.defaults.clone()))
        } else {
            None
        }
    }
}

async fn build_engine(cfg: &Cfg, toml: &str) -> Engine {
    let mut b = EngineBuilder::new().set_config_source(std::path::Path::new(toml));
    if cfg.sqlite {
        b = b.add_plugin(&SqliteStore);
    }
    let engine = b.build().await.expect("build engine").start();
    // packages a client registers (config "packages": [{"name": .., "run_as": "msg" | "irq"}]): they live in the store only
    if let Some(list) = cfg.packages.as_array() {
        for p in list {
            let name: &'static str = Box::leak(p["name"].as_str().unwrap_or("app.pack").to_string().into_boxed_str());
            let run_as = if p["run_as"].as_str() == Some("msg") { acts::ActRunAs::Msg } else { acts::ActRunAs::Irq };
            let meta = acts::ActPackageMeta {
                name,
                desc: "",
                icon: "",
                doc: "",
                version: "0.1.0",
                schema: json!({}),
                run_as,
                resources: vec![],
                catalog: acts::ActPackageCatalog::App,
            };
            engine.extender().register_package(&meta).expect("register package");
        }
    }
    if let Some(vars) = cfg.user_vars.as_object() {
        for (name, defaults) in vars {
            engine.extender().register_var(&UserVar { name: name.clone(), defaults: defaults.clone() });
        }
    }
    engine
}

fn attach(chan: &Arc<Channel>, id: &str, log: &Log, only: &Option<Vec<String>>) {
    for ev in ["message", "start", "complete", "error"] {
        if let Some(list) = only {
            if !list.iter().any(|x| x == ev) {
                continue;
            }
        }
        let log = log.clone();
        let id = id.to_string();
        let f = move |e: &Event<Message>| {
            let mut v = msg_json(e.inner());
            let o = v.as_object_mut().unwrap();
            o.insert("k".into(), json!(if ev == "message" { "dlv" } else { "pev" }));
            o.insert("chan".into(), json!(id));
            o.insert("ev".into(), json!(ev));
            log.lock().unwrap().push(v);
        };
        match ev {
            "message" => chan.on_message(f),
            "start" => chan.on_start(f),
            "complete" => chan.on_complete(f),
            _ => chan.on_error(f),
        }
    }
}

fn open_chan(st: &mut St, opts: &Value) {
    let g = |k: &str, d: &str| {
        opts.get(k)
            .and_then(|x| x.as_str())
            .unwrap_or(d)
            .to_string()
    };
    let id = g("id", "default");
    let o = ChannelOptions {
        id: id.clone(),
        ack: opts.get("ack").and_then(|x| x.as_bool()).unwrap_or(false),
        r#type: g("type", "*"),
        state: g("state", "*"),
        tag: g("tag", "*"),
        key: g("key", "*"),
        uses: g("uses", "*"),
    };
    let chan = st.engine.channel_with_options(&o);
    // "handlers": which of the four handler kinds the client registers (all of them when absent)
    let only = opts.get("handlers").and_then(|x| x.as_array()).map(|a| a.iter().filter_map(|x| x.as_str().map(|y| y.to_string())).collect::<Vec<_>>());
    attach(&chan, &id, &st.log, &only);
    st.chans.insert(id, chan);
}

async fn quiesce(obs: &mut Vec<Value>) {
    if tokio::time::timeout(Duration::from_secs(STUCK_SECS.load(Ordering::SeqCst)), verif::quiescent())
        .await
        .is_err()
    {
        obs.push(json!({"k":"stuck","inflight":verif::inflight_count()}));
    }
}

fn vars_of(v: &Value) -> Vars {
    Vars::from(v.clone())
}

fn resolve_task(st: &St, pid: &str, tref: &Value) -> String {
    match tref {
        Value::Number(n) => {
            let i = n.as_i64().unwrap_or(-1);
            st.canon
                .tid_by_index(pid, i)
                .unwrap_or_else(|| format!("missing#{i}"))
        }
        Value::Object(o) if o.contains_key("open") || o.contains_key("any") || o.contains_key("term") || o.contains_key("acts") => {
            // k-th (modulo) task of a class, in creation order, resolved on the live process
            let (class, k) = o.iter().next().map(|(c, k)| (c.clone(), k.as_u64().unwrap_or(0) as usize)).unwrap();
            // an evicted (or not yet reloaded) process is resolved on its stored rows
            let dump = st.engine.verif_dump(pid).unwrap_or_else(|| {
                let q = json!({"conds":[{"type":"and","exprs":[["eq","pid",pid]]}],"order":[["timestamp", false]],"limit":100000});
                let r = storeops::store_op(&st.engine, "tasks", "query", &q);
                json!({"tasks": r.get("rows").cloned().unwrap_or(Value::Null)})
            });
            let empty = vec![];
            let tasks = dump.get("tasks").and_then(|x| x.as_array()).unwrap_or(&empty);
            let terminal = ["completed", "submitted", "backed", "cancelled", "error", "aborted", "skipped", "removed"];
            let sel: Vec<&Value> = tasks
                .iter()
                .filter(|t| {
                    let stt = t["state"].as_str().unwrap_or("");
                    let kind = t["kind"].as_str().unwrap_or("");
                    match class.as_str() {
                        "open" => stt == "interrupted",
                        "term" => kind == "act" && terminal.contains(&stt),
                        "acts" => kind == "act",
                        _ => true,
                    }
                })
                .collect();
            if sel.is_empty() {
                return "none-of-class".to_string();
            }
            sel[k % sel.len()]["tid"].as_str().unwrap_or("").to_string()
        }
        Value::Object(o) => {
            let nid = o.get("nid").and_then(|x| x.as_str()).unwrap_or("");
            let k = o.get("k").and_then(|x| x.as_i64()).unwrap_or(-1);
            st.canon
                .tid_by_nid(pid, nid, k)
                .unwrap_or_else(|| format!("missing#{nid}#{k}"))
        }
        Value::String(s) => s.clone(),
        _ => "missing".to_string(),
    }
}

fn dump_all(st: &St, obs: &mut Vec<Value>, rows: &[String], dump: bool) {
    if dump {
        let mut pids = st.pids.clone();
        for p in st.canon.pids() {
            if !pids.contains(&p) {
                pids.push(p);
            }
        }
        for pid in pids {
            match st.engine.verif_dump(&pid) {
                Some(mut d) => {
                    d.as_object_mut().unwrap().insert("k".into(), json!("dump"));
                    obs.push(d);
                }
                None => obs.push(json!({"k":"dump","pid":pid,"absent":true})),
            }
        }
        obs.push(json!({"k":"cached","pids":st.engine.verif_cached()}));
    }
    for coll in rows {
        obs.push(json!({"k":"rows","coll":coll,"rows":storeops::all_rows(&st.engine, coll)}));
    }
}

async fn exec_op(st: &mut St, op: &Value, obs: &mut Vec<Value>) {
    let a = op.as_array().cloned().unwrap_or_default();
    let name = a.first().and_then(|x| x.as_str()).unwrap_or("");
    let s = |i: usize| {
        a.get(i)
            .and_then(|x| x.as_str())
            .unwrap_or("")
            .to_string()
    };
    let exec = st.engine.executor();
    match name {
        "deploy" => {
            let idx = a.get(1).and_then(|x| x.as_u64()).unwrap_or(0) as usize;
            let via = s(2);
            let text = serde_json::to_string(&st.models[idx]).unwrap();
            match Workflow::from_json(&text) {
                Ok(mut w) => {
                    if via == "yml" {
                        let y = w.to_yml().expect("to_yml");
                        w = Workflow::from_yml(&y).expect("from_yml");
                    }
                    let r = exec.model().deploy(&w);
                    obs.push(res_obs(&r));
                }
                Err(e) => {
                    obs.push(json!({"k":"res","ok":false,"err":"parse","raw":e.to_string()}))
                }
            }
        }
        "rm_model" => {
            let r = exec.model().rm(&s(1));
            obs.push(res_obs(&r));
        }
        "model_get" => match exec.model().get(&s(1), &s(2)) {
            Ok(m) => {
                // the stored text as the engine itself reads it back
                let parsed = Workflow::from_yml(&m.data)
                    .ok()
                    .and_then(|w| w.to_json().ok())
                    .and_then(|t| serde_json::from_str::<Value>(&t).ok())
                    .unwrap_or(Value::Null);
                obs.push(
                    json!({"k":"model","id":m.id,"ver":m.ver,"name":m.name,"size":m.size,"data":m.data,"parsed":parsed}),
                )
            }
            Err(e) => obs.push(res_obs::<()>(&Err(e))),
        },
        "start" => {
            let vars = vars_of(a.get(2).unwrap_or(&Value::Null));
            let r = exec.proc().start(&s(1), &vars);
            if let Ok(pid) = &r {
                if !st.pids.contains(pid) {
                    st.pids.push(pid.clone());
                }
                obs.push(json!({"k":"res","ok":true,"pid":pid}));
            } else {
                obs.push(res_obs(&r));
            }
            quiesce(obs).await;
        }
        "run" => {
            let i = a.get(1).and_then(|x| x.as_u64()).unwrap_or(0) as usize;
            if st.cfg.stepped {
                let len = verif::parked().len();
                if len == 0 {
                    obs.push(json!({"k":"norun","i":i}));
                } else {
                    verif::release(i % len);
                }
            }
            quiesce(obs).await;
        }
        "runall" => {
            let policy = s(1);
            let mut seed = a.get(2).and_then(|x| x.as_u64()).unwrap_or(1);
            let mut n = 0;
            if st.cfg.stepped {
                loop {
                    let len = verif::parked().len();
                    if len == 0 {
                        break;
                    }
                    let i = match policy.as_str() {
                        "lifo" => len - 1,
                        "rand" => {
                            seed = crate::misc::splitmix(seed);
                            (seed % len as u64) as usize
                        }
                        _ => 0,
                    };
                    verif::release(i);
                    quiesce(obs).await;
                    n += 1;
                    if n > 5000 {
                        obs.push(json!({"k":"runaway"}));
                        verif::clear_parked();
                        break;
                    }
                }
            } else {
                quiesce(obs).await;
            }
        }
        "act" => {
            let event = s(1);
            let pid = s(2);
            let tid = resolve_task(st, &pid, a.get(3).unwrap_or(&Value::Null));
            let opts = vars_of(a.get(4).unwrap_or(&Value::Null));
            let act = exec.act();
            obs.push(json!({"k":"target","pid":pid,"tid":tid}));
            let r = match event.as_str() {
                "next" | "complete" => act.complete(&pid, &tid, &opts),
                "submit" => act.submit(&pid, &tid, &opts),
                "back" => act.back(&pid, &tid, &opts),
                "cancel" => act.cancel(&pid, &tid, &opts),
                "abort" => act.abort(&pid, &tid, &opts),
                "skip" => act.skip(&pid, &tid, &opts),
                "error" => act.error(&pid, &tid, &opts),
                "push" => act.push(&pid, &tid, &opts),
                "remove" => act.remove(&pid, &tid, &opts),
                "set_process_vars" => act.set_process_vars(&pid, &tid, &opts),
                _ => Err(acts::ActError::Action(format!("bad event {event}"))),
            };
            obs.push(res_obs(&r));
            quiesce(obs).await;
        }
        "conc" => {
            // n client threads issue the same action; they meet right before their first state write
            let n = a.get(1).and_then(|x| x.as_u64()).unwrap_or(2) as usize;
            let event = s(2);
            let pid = s(3);
            let tid = resolve_task(st, &pid, a.get(4).unwrap_or(&Value::Null));
            let opts = vars_of(a.get(5).unwrap_or(&Value::Null));
            obs.push(json!({"k":"target","pid":pid,"tid":tid}));
            verif::arm_rendezvous(&pid, &tid, n, 300);
            let handle = tokio::runtime::Handle::current();
            let mut joins = Vec::new();
            for _ in 0..n {
                let exec = st.engine.executor();
                let (event, pid, tid, opts, handle) =
                    (event.clone(), pid.clone(), tid.clone(), opts.clone(), handle.clone());
                joins.push(std::thread::spawn(move || {
                    let _g = handle.enter();
                    let act = exec.act();
                    let r = match event.as_str() {
                        "next" | "complete" => act.complete(&pid, &tid, &opts),
                        "submit" => act.submit(&pid, &tid, &opts),
                        "skip" => act.skip(&pid, &tid, &opts),
                        "remove" => act.remove(&pid, &tid, &opts),
                        "abort" => act.abort(&pid, &tid, &opts),
                        "error" => act.error(&pid, &tid, &opts),
                        "back" => act.back(&pid, &tid, &opts),
                        "cancel" => act.cancel(&pid, &tid, &opts),
                        _ => Err(acts::ActError::Action(format!("bad event {event}"))),
                    };
                    match r {
                        Ok(_) => "ok".to_string(),
                        Err(e) => classify(&e.to_string()).to_string(),
                    }
                }));
            }
            let results: Vec<String> = joins
                .into_iter()
                .map(|j| j.join().unwrap_or_else(|_| "panic".to_string()))
                .collect();
            verif::disarm_rendezvous();
            let okn = results.iter().filter(|r| r.as_str() == "ok").count();
            obs.push(json!({"k":"conc","n":n,"ok":okn,"results":results}));
            quiesce(obs).await;
        }
        "conc2" => {
            // several client threads, each with its own action and target in one process, released together by a barrier
            let pid = s(1);
            let items = a.get(2).and_then(|x| x.as_array()).cloned().unwrap_or_default();
            let n = items.len();
            let barrier = Arc::new(std::sync::Barrier::new(n.max(1)));
            let handle = tokio::runtime::Handle::current();
            let mut joins = Vec::new();
            let mut tids = Vec::new();
            for it in items.iter() {
                let event = it[0].as_str().unwrap_or("").to_string();
                let tid = resolve_task(st, &pid, it.get(1).unwrap_or(&Value::Null));
                let opts = vars_of(it.get(2).unwrap_or(&Value::Null));
                tids.push(tid.clone());
                let exec = st.engine.executor();
                let (pid, handle, barrier) = (pid.clone(), handle.clone(), barrier.clone());
                joins.push(std::thread::spawn(move || {
                    let _g = handle.enter();
                    let act = exec.act();
                    barrier.wait();
                    let r = match event.as_str() {
                        "next" | "complete" => act.complete(&pid, &tid, &opts),
                        "submit" => act.submit(&pid, &tid, &opts),
                        "skip" => act.skip(&pid, &tid, &opts),
                        "remove" => act.remove(&pid, &tid, &opts),
                        "abort" => act.abort(&pid, &tid, &opts),
                        "error" => act.error(&pid, &tid, &opts),
                        "back" => act.back(&pid, &tid, &opts),
                        "cancel" => act.cancel(&pid, &tid, &opts),
                        _ => Err(acts::ActError::Action(format!("bad event {event}"))),
                    };
                    match r {
                        Ok(_) => "ok".to_string(),
                        Err(e) => classify(&e.to_string()).to_string(),
                    }
                }));
            }
            let results: Vec<String> = joins
                .into_iter()
                .map(|j| j.join().unwrap_or_else(|_| "panic".to_string()))
                .collect();
            obs.push(json!({"k":"conc2","pid":pid,"tids":tids,"results":results}));
            quiesce(obs).await;
        }
        "swarm" => {
            // many processes at once: start them (in parallel client threads when asked), then answer, round by round,
            // one open interrupt per process (smallest (nid, tid)), all processes concurrently
            let spec = a.get(1).cloned().unwrap_or(json!({}));
            let parallel = spec["parallel"].as_bool().unwrap_or(true);
            let rounds = spec["rounds"].as_u64().unwrap_or(60);
            let handle = tokio::runtime::Handle::current();
            let starts = spec["starts"].as_array().cloned().unwrap_or_default();
            let mut joins = Vec::new();
            for sv in starts {
                let exec = st.engine.executor();
                let handle = handle.clone();
                let f = move || {
                    let _g = handle.enter();
                    let mid = sv[0].as_str().unwrap_or("").to_string();
                    let vars = vars_of(&sv[1]);
                    let want = sv[1]["pid"].as_str().unwrap_or("").to_string();
                    match exec.proc().start(&mid, &vars) {
                        Ok(pid) => json!({"k":"swarm_start","pid":pid,"ok":true}),
                        Err(e) => json!({"k":"swarm_start","pid":want,"ok":false,"err":classify(&e.to_string())}),
                    }
                };
                if parallel {
                    joins.push(std::thread::spawn(f));
                } else {
                    obs.push(f());
                }
            }
            for j in joins {
                obs.push(j.join().unwrap_or_else(|_| json!({"k":"swarm_start","ok":false,"err":"panic"})));
            }
            for o in obs.iter() {
                if o["k"] == "swarm_start" && o["ok"] == true {
                    let pid = o["pid"].as_str().unwrap_or("").to_string();
                    if !st.pids.contains(&pid) {
                        st.pids.push(pid);
                    }
                }
            }
            quiesce(obs).await;
            let answers = spec["answers"].clone();
            let mut refused: Vec<(String, String)> = Vec::new();
            for round in 0..rounds {
                if obs.iter().any(|o| o["k"] == "stuck") {
                    break;
                }
                let q = json!({"conds":[{"type":"and","exprs":[["eq","state","interrupted"],["eq","kind","act"]]}],"limit":100000});
                let r = storeops::store_op(&st.engine, "tasks", "query", &q);
                let rows = r["rows"].as_array().cloned().unwrap_or_default();
                let mut pick: HashMap<String, (String, String)> = HashMap::new();
                for row in rows {
                    let pid = row["pid"].as_str().unwrap_or("").to_string();
                    let tid = row["tid"].as_str().unwrap_or("").to_string();
                    // an interrupt whose answer was refused stays open; the client moves on to the next one
                    if refused.contains(&(pid.clone(), tid.clone())) {
                        continue;
                    }
                    let nid = serde_json::from_str::<Value>(row["node_data"].as_str().unwrap_or("{}"))
                        .ok()
                        .and_then(|n| n["id"].as_str().map(|x| x.to_string()))
                        .unwrap_or_default();
                    let cand = (nid, tid);
                    match pick.get(&pid) {
                        Some(cur) if *cur <= cand => {}
                        _ => {
                            pick.insert(pid, cand);
                        }
                    }
                }
                if pick.is_empty() {
                    break;
                }
                let mut joins = Vec::new();
                let mut picks: Vec<(String, (String, String))> = pick.into_iter().collect();
                picks.sort();
                for (pid, (nid, tid)) in picks {
                    let exec = st.engine.executor();
                    let handle = handle.clone();
                    let ans = answers[&pid][&nid].clone();
                    let f = move || {
                        let _g = handle.enter();
                        let ev = ans["ev"].as_str().unwrap_or("next").to_string();
                        let opts = vars_of(&ans["opts"]);
                        let act = exec.act();
                        let r = match ev.as_str() {
                            "error" => act.error(&pid, &tid, &opts),
                            "skip" => act.skip(&pid, &tid, &opts),
                            "abort" => act.abort(&pid, &tid, &opts),
                            "submit" => act.submit(&pid, &tid, &opts),
                            _ => act.complete(&pid, &tid, &opts),
                        };
                        match r {
                            Ok(_) => json!({"k":"swarm_act","round":round,"pid":pid,"nid":nid,"tid":tid,"ev":ev,"ok":true}),
                            Err(e) => json!({"k":"swarm_act","round":round,"pid":pid,"nid":nid,"tid":tid,"ev":ev,"ok":false,"err":classify(&e.to_string()),"raw":e.to_string()}),
                        }
                    };
                    if parallel {
                        joins.push(std::thread::spawn(f));
                    } else {
                        obs.push(f());
                    }
                }
                for j in joins {
                    obs.push(j.join().unwrap_or_else(|_| json!({"k":"swarm_act","ok":false,"err":"panic"})));
                }
                for o in obs.iter() {
                    if o["k"] == "swarm_act" && o["ok"] == false {
                        let key = (o["pid"].as_str().unwrap_or("").to_string(), o["tid"].as_str().unwrap_or("").to_string());
                        if !refused.contains(&key) {
                            refused.push(key);
                        }
                    }
                }
                quiesce(obs).await;
            }
            // final stored image of every process
            let pids = st.pids.clone();
            for pid in pids {
                let q = json!({"conds":[{"type":"and","exprs":[["eq","pid",pid]]}],"limit":100000});
                let r = storeops::store_op(&st.engine, "tasks", "query", &q);
                let rows = r["rows"].as_array().cloned().unwrap_or_default();
                let tasks: Vec<Value> = rows
                    .iter()
                    .map(|row| {
                        let node = serde_json::from_str::<Value>(row["node_data"].as_str().unwrap_or("{}")).unwrap_or(Value::Null);
                        let data = serde_json::from_str::<Value>(row["data"].as_str().unwrap_or("{}")).unwrap_or(Value::Null);
                        json!({"tid": row["tid"], "nid": node["id"], "kind": row["kind"], "state": row["state"], "data": data, "err": row["err"]})
                    })
                    .collect();
                let p = storeops::store_op(&st.engine, "procs", "find", &json!(pid));
                obs.push(json!({"k":"swarm_final","pid":pid,"tasks":tasks,"state":p["row"]["state"],"env":p["row"]["env"],"perr":p["row"]["err"]}));
            }
        }
        "tick" => {
            let dt = a.get(1).and_then(|x| x.as_i64()).unwrap_or(0);
            verif::advance_clock(dt);
            st.engine.verif_tick();
            quiesce(obs).await;
        }
        "clock" => {
            let dt = a.get(1).and_then(|x| x.as_i64()).unwrap_or(0);
            verif::advance_clock(dt);
        }
        "ack" | "rm_msg" => {
            let id = match a.get(1) {
                Some(Value::Number(n)) => st
                    .canon
                    .msg_by_index(n.as_i64().unwrap_or(-1))
                    .unwrap_or_else(|| "missing".to_string()),
                Some(Value::String(x)) => x.clone(),
                _ => "missing".to_string(),
            };
            if name == "ack" {
                obs.push(res_obs(&exec.msg().ack(&id)));
            } else {
                obs.push(res_obs(&exec.msg().rm(&id)));
            }
        }
        "redo" => obs.push(res_obs(&exec.msg().redo())),
        "clear" => {
            let pid = a.get(1).and_then(|x| x.as_str()).map(|x| x.to_string());
            obs.push(res_obs(&exec.msg().clear(pid)));
        }
        "chan_open" => {
            let o = a.get(1).cloned().unwrap_or(json!({}));
            st.chan_opts.push(o.clone());
            open_chan(st, &o);
        }
        "chan_close" => {
            if let Some(c) = st.chans.get(&s(1)) {
                c.close();
            }
        }
        "unsub" => {
            let _ = exec.msg().unsub(&s(1));
        }
        "evict" => {
            st.engine.verif_uncache(&s(1));
        }
        "restart" => {
            st.engine.close();
            quiesce(obs).await;
            verif::clear_parked();
            st.chans.clear();
            st.engine = build_engine(&st.cfg, &st.toml).await;
            let opts = st.chan_opts.clone();
            for o in opts {
                open_chan(st, &o);
            }
            quiesce(obs).await;
        }
        "store" => {
            let r = storeops::store_op(&st.engine, &s(1), &s(2), a.get(3).unwrap_or(&Value::Null));
            obs.push(r);
        }
        "dump" => {
            let rows: Vec<String> = a
                .get(1)
                .and_then(|x| x.as_array())
                .map(|v| {
                    v.iter()
                        .filter_map(|x| x.as_str().map(|y| y.to_string()))
                        .collect()
                })
                .unwrap_or_default();
            dump_all(st, obs, &rows, true);
        }
        "rows" => {
            dump_all(st, obs, &[s(1)], false);
        }
        "proc_get" => match exec.proc().get(&s(1)) {
            Ok(info) => obs.push(json!({"k":"proc","pid":info.id,"state":info.state,
                "tasks": info.tasks.iter().map(|t| json!({"tid":t.id,"nid":t.nid,"state":t.state,"type":t.r#type,"prev":t.prev,"data":t.data})).collect::<Vec<_>>() })),
            Err(e) => obs.push(res_obs::<()>(&Err(e))),
        },
        "sleep" => {
            let ms = a.get(1).and_then(|x| x.as_u64()).unwrap_or(1);
            tokio::time::sleep(Duration::from_millis(ms)).await;
            quiesce(obs).await;
        }
        _ => obs.push(json!({"k":"badop","op":op})),
    }
}

fn trace_obs(st: &mut St, obs: &mut Vec<Value>) {
    for o in verif::take_trace() {
        match o {
            verif::Obs::New {
                pid,
                tid,
                nid,
                kind,
                prev,
                level,
                hook,
            } => {
                if hook {
                    // second record of a task that has just been created: it is the act of a lifecycle hook
                    obs.push(json!({"k":"hookact","pid":pid,"tid":tid,"nid":nid}));
                } else {
                    st.canon.on_new(&pid, &tid, &nid);
                    obs.push(json!({"k":"new","pid":pid,"tid":tid,"nid":nid,"kind":kind,"prev":prev,"level":level,"hook":hook}));
                }
            }
            verif::Obs::Tr {
                pid,
                tid,
                old,
                new,
                site,
                instance,
            } => {
                let site = site
                    .rsplit_once("/src/")
                    .map(|x| x.1.to_string())
                    .unwrap_or(site);
                obs.push(json!({"k":"tr","pid":pid,"tid":tid,"old":old,"new":new,"site":site,"inst":instance}));
            }
            verif::Obs::Ptr { pid, old, new } => {
                obs.push(json!({"k":"ptr","pid":pid,"old":old,"new":new}));
            }
            verif::Obs::Gen { msg } => {
                st.canon.on_msg(&msg.id);
                let mut v = msg_json(&msg);
                v.as_object_mut().unwrap().insert("k".into(), json!("gen"));
                obs.push(v);
            }
        }
    }
}

pub fn run_scenario(sc: &Value, scratch: &str) -> Value {
    let cfg = Cfg::from(sc.get("config").unwrap_or(&Value::Null));
    let uniq = UNIQ.fetch_add(1, Ordering::SeqCst);
    let dir = format!("{scratch}/s{}-{uniq}", std::process::id());
    let _ = std::fs::remove_dir_all(&dir);
    std::fs::create_dir_all(&dir).expect("mkdir scratch");
    let toml = write_toml(&cfg, &dir);

    let rt = if cfg.stepped || cfg.workers <= 1 && !cfg.stepped && sc["config"]["runtime"] == "current" {
        tokio::runtime::Builder::new_current_thread()
            .enable_all()
            .build()
            .unwrap()
    } else {
        tokio::runtime::Builder::new_multi_thread()
            .worker_threads(cfg.workers.max(1))
            .enable_all()
            .build()
            .unwrap()
    };

    STUCK_SECS.store(sc["config"]["stuck_secs"].as_u64().unwrap_or(4), Ordering::SeqCst);
    verif::reset();
    verif::set_trace(true);
    verif::set_gate(cfg.stepped);
    verif::set_clock(true, 1_000_000);
    verif::set_manual_tick(true);
    verif::set_ids(true);

    let ops = sc
        .get("ops")
        .and_then(|x| x.as_array())
        .cloned()
        .unwrap_or_default();
    let models = sc
        .get("models")
        .and_then(|x| x.as_array())
        .cloned()
        .unwrap_or_default();
    let id = sc.get("id").cloned().unwrap_or(Value::Null);

    let result = rt.block_on(async {
        let engine = build_engine(&cfg, &toml).await;
        let mut st = St {
            engine,
            cfg,
            toml,
            log: Arc::new(Mutex::new(Vec::new())),
            chans: HashMap::new(),
            chan_opts: Vec::new(),
            pids: Vec::new(),
            canon: Canon::default(),
            models,
        };
        // engine start-up noise (package publication) is not part of the observations
        let _ = verif::take_trace();
        if st.cfg.default_chan {
            let o = json!({"id":"default"});
            st.chan_opts.push(o.clone());
            open_chan(&mut st, &o);
        }
        let mut steps = Vec::new();
        for (i, op) in ops.iter().enumerate() {
            let mut obs = Vec::new();
            exec_op(&mut st, op, &mut obs).await;
            let mut all = Vec::new();
            trace_obs(&mut st, &mut all);
            all.append(&mut obs);
            all.append(&mut st.log.lock().unwrap());
            if st.cfg.stepped {
                let q: Vec<Value> = verif::parked()
                    .iter()
                    .map(|(p, t)| json!([p, t]))
                    .collect();
                all.push(json!({"k":"queue","q":q}));
            }
            if st.cfg.dump_each || !st.cfg.rows_each.is_empty() {
                let rows = st.cfg.rows_each.clone();
                let d = st.cfg.dump_each;
                dump_all(&st, &mut all, &rows, d);
            }
            let dead = all.iter().any(|o| o["k"] == "stuck");
            steps.push(json!({"op": i, "obs": all}));
            if dead {
                // the scheduler loop died (a panic inside the engine) or work never drains: stop here
                steps.push(json!({"op": i + 1, "obs": [{"k":"dead"}]}));
                break;
            }
        }
        st.engine.close();
        let canon = std::mem::take(&mut st.canon);
        (steps, canon)
    });
    verif::set_trace(false);
    verif::set_gate(false);
    drop(rt);
    let _ = std::fs::remove_dir_all(&dir);

    let (steps, mut canon) = result;
    let steps = canon.apply(&Value::Array(steps));
    json!({"id": id, "steps": steps})
}
