import ActsModel.Gen.State
import ActsModel.Gen.Misc
import ActsModel.Gen.Action

/-!
The acknowledged-delivery state machine of `export/channel.rs` (`store_if`), `cache/store.rs`
(`set_message`, `set_message_with`, `with_no_response_messages`, `resend_error_messages`,
`clear_error_messages`) and `message_executor.rs` (`rm`). Import-free apart from generated tables.
-/
namespace Acts.Msg
open Acts.Gen

structure Rec where
  id : String
  pid : String
  tid : String
  content : Nat          -- stands for every other column (copied, never changed)
  status : MessageStatus
  retry : Nat
  update : Int           -- update_time (ms)
  deriving DecidableEq, Repr

/-- one invocation of the client's handler -/
structure Dlv where
  id : String
  content : Nat
  retry : Nat
  deriving DecidableEq, Repr

structure Cfg where
  max : Nat              -- max_message_retry_times
  interval : Int         -- tick interval (ms)
  limit : Nat            -- query limit of one tick (300)
  deriving Repr

inductive Op where
  | deliver (id pid tid : String) (content : Nat) (now : Int)   -- first delivery on an ack channel
  | tick (now : Int)
  | ack (id : String) (now : Int)
  | acted (pid tid : String) (now : Int)                         -- an accepted client action on the task
  | redo (now : Int)
  | clear (pid : Option String)
  | rm (id : String)
  deriving Repr

/-- selection of a tick: `status = created AND update_time < now - interval` -/
def stale (c : Cfg) (now : Int) (r : Rec) : Bool :=
  r.status == .created &&
    (if staleStrict then decide (r.update < now - c.interval) else decide (r.update ≤ now - c.interval))

/-- `retry_times < max` (strict, from the source) -/
def mayRetry (c : Cfg) (r : Rec) : Bool := if retryStrict then decide (r.retry < c.max) else decide (r.retry ≤ c.max)

/-- what a tick does to one selected record -/
def bump (c : Cfg) (now : Int) (r : Rec) : Rec × List Dlv :=
  if mayRetry c r then
    ({ r with retry := r.retry + 1, update := now }, [⟨r.id, r.content, r.retry + 1⟩])
  else ({ r with status := .error, update := now }, [])

/-- the first `budget` stale records (store order) are bumped -/
def tickGo (c : Cfg) (now : Int) : Nat → List Rec → List Rec × List Dlv
  | _, [] => ([], [])
  | budget, r :: rs =>
    if stale c now r && decide (0 < budget) then
      let (r', d) := bump c now r
      let (rs', ds) := tickGo c now (budget - 1) rs
      (r' :: rs', d ++ ds)
    else
      let (rs', ds) := tickGo c now budget rs
      (r :: rs', ds)

def step (c : Cfg) (s : List Rec) : Op → List Rec × List Dlv
  | .deliver id pid tid content now =>
    -- `store_if` creates the record (update_time 0, retry 0, created) before the handler is called
    (s ++ [⟨id, pid, tid, content, .created, 0, 0⟩], [⟨id, content, 0⟩])
  | .tick now => tickGo c now c.limit s
  | .ack id now => (s.map fun r => if r.id == id then { r with status := .acked, update := now } else r, [])
  | .acted pid tid now =>
    (s.map fun r => if r.pid == pid && r.tid == tid then { r with status := actedStatus, update := now } else r, [])
  | .redo now => (s.map fun r => if r.status == .error then { r with status := .created, retry := 0, update := now } else r, [])
  | .clear pid => (s.filter fun r => !(r.status == .error && (match pid with | some p => r.pid == p | none => true)), [])
  | .rm id => (s.filter fun r => r.id != id, [])

def run (c : Cfg) : List Rec → List Op → List Rec × List Dlv
  | s, [] => (s, [])
  | s, op :: ops =>
    let (s1, d1) := step c s op
    let (s2, d2) := run c s1 ops
    (s2, d1 ++ d2)

end Acts.Msg
