"""one PRNG (splitmix64) for every random choice, derived from VERIF_SEED"""

MASK = (1 << 64) - 1


class Rng:
    def __init__(self, seed):
        self.s = (seed * 0x9E3779B97F4A7C15 + 0x1234567) & MASK

    def next(self):
        self.s = (self.s + 0x9E3779B97F4A7C15) & MASK
        z = self.s
        z = ((z ^ (z >> 30)) * 0xBF58476D1CE4E5B9) & MASK
        z = ((z ^ (z >> 27)) * 0x94D049BB133111EB) & MASK
        return z ^ (z >> 31)

    def below(self, n):
        return self.next() % n if n > 0 else 0

    def range(self, lo, hi):
        """inclusive"""
        return lo + self.below(hi - lo + 1)

    def chance(self, num, den):
        return self.below(den) < num

    def pick(self, xs):
        return xs[self.below(len(xs))]

    def weighted(self, pairs):
        tot = sum(w for _, w in pairs)
        r = self.below(tot)
        for x, w in pairs:
            if r < w:
                return x
            r -= w
        return pairs[-1][0]

    def shuffle(self, xs):
        xs = list(xs)
        for i in range(len(xs) - 1, 0, -1):
            j = self.below(i + 1)
            xs[i], xs[j] = xs[j], xs[i]
        return xs

    def fork(self, tag):
        h = 0
        for ch in str(tag):
            h = (h * 131 + ord(ch)) & MASK
        return Rng((self.next() ^ h) & MASK)
