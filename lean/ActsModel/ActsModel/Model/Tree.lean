import ActsModel.Model.Workflow
import ActsModel.Gen.Action

/-!
The node tree of `scheduler/tree/build.rs` + `node_tree.rs::load`, as a pure function of the model:
the flat node table in creation (`make`) order, every node with the links the builder sets.
-/
namespace Acts.Tree
open Acts Acts.Gen

inductive OutKind where | normal | catch | timeout
  deriving DecidableEq, Repr

inductive Content where
  | workflow
  | step (s : Step)
  | branch (b : Branch)
  | act (a : Act)

structure Node where
  id : String
  kind : NodeKind
  level : Nat
  parentLink : Option String                         -- `set_parent_in`
  prev : Option String                               -- `set_next(_, true)` on the predecessor
  next : Option String
  children : List (OutKind × Option String × String) -- `(typ, on, child id)` in push order
  content : Content

inductive BuildErr where
  | dup (id : String)
  | eventIdEmpty
  deriving DecidableEq, Repr

abbrev Built := List String

def firstStepEntry (typ : OutKind) (on : Option String) : List Step → List (OutKind × Option String × String)
  | [] => []
  | s :: _ => [(typ, on, s.id)]

def firstActEntry : List Act → List (OutKind × Option String × String)
  | [] => []
  | a :: _ => [(.normal, none, a.id)]

def hookEntries (catches : List Catch) (timeouts : List Timeout) : List (OutKind × Option String × String) :=
  catches.flatMap (fun c => firstStepEntry .catch c.on c.steps) ++
  timeouts.flatMap (fun t => firstStepEntry .timeout (some t.on) t.steps)

/-- children of a step node in push order: branches (only without an explicit `next`), the first act, then the first
step of every catch and of every timeout rule -/
def stepChildren (s : Step) : List (OutKind × Option String × String) :=
  (if s.next.isNone then s.branches.map (fun b => (OutKind.normal, none, b.id)) else []) ++
  firstActEntry s.acts ++ hookEntries s.catches s.timeouts

mutual
def buildStep (parent : String) (level : Nat) (isFirst : Bool) (prevId : Option String) (nextSibling : Option String)
    (built : Built) : Step → Except BuildErr (List Node × Built)
  | .mk sid sname stag scond sNext sin sout sBranches sActs sCatches sTimeouts ssetup =>
    let s : Step := .mk sid sname stag scond sNext sin sout sBranches sActs sCatches sTimeouts ssetup
    if built.contains sid then .error (.dup sid) else
    let built1 := built ++ [sid]
    let explicitNext := match sNext with
      | some n => if built1.contains n then some n else none
      | none => none
    let nextId := match nextSibling with
      | some r => some r
      | none => explicitNext
    let node : Node := { id := sid, kind := .step, level := level, parentLink := if isFirst then some parent else none, prev := if isFirst then none else prevId, next := nextId, children := stepChildren s, content := .step s }
    match (if sNext.isNone then buildBranches sid (level + 1) built1 sBranches else .ok ([], built1)) with
    | .error e => .error e
    | .ok (bn, built2) =>
      match buildActs sid (level + 1) true none built2 sActs with
      | .error e => .error e
      | .ok (an, built3) =>
        match buildCatches sid (level + 1) built3 sCatches with
        | .error e => .error e
        | .ok (cn, built4) =>
          match buildTimeouts sid (level + 1) built4 sTimeouts with
          | .error e => .error e
          | .ok (tn, built5) => .ok (node :: (bn ++ an ++ cn ++ tn), built5)
def buildSteps (parent : String) (level : Nat) (isFirst : Bool) (prevId : Option String) (built : Built) :
    List Step → Except BuildErr (List Node × Built)
  | [] => .ok ([], built)
  | s :: rest =>
    match buildStep parent level isFirst prevId (rest.head?.map (·.id)) built s with
    | .error e => .error e
    | .ok (sn, built1) =>
      match buildSteps parent level false (some s.id) built1 rest with
      | .error e => .error e
      | .ok (rn, built2) => .ok (sn ++ rn, built2)
def buildBranch (parent : String) (level : Nat) (built : Built) : Branch → Except BuildErr (List Node × Built)
  | .mk bid bname btag bcond belse bneeds bin bout bSteps =>
    let b : Branch := .mk bid bname btag bcond belse bneeds bin bout bSteps
    if built.contains bid then .error (.dup bid) else
    let built1 := built ++ [bid]
    let node : Node := { id := bid, kind := .branch, level := level, parentLink := some parent, prev := none, next := none, children := firstStepEntry .normal none bSteps, content := .branch b }
    match buildSteps bid (level + 1) true none built1 bSteps with
    | .error e => .error e
    | .ok (sn, built2) => .ok (node :: sn, built2)
def buildBranches (parent : String) (level : Nat) (built : Built) : List Branch → Except BuildErr (List Node × Built)
  | [] => .ok ([], built)
  | b :: rest =>
    match buildBranch parent level built b with
    | .error e => .error e
    | .ok (bn, built1) =>
      match buildBranches parent level built1 rest with
      | .error e => .error e
      | .ok (rn, built2) => .ok (bn ++ rn, built2)
def buildAct (parent : String) (level : Nat) (isFirst : Bool) (prevId : Option String) (nextSibling : Option String)
    (built : Built) : Act → Except BuildErr (List Node × Built)
  | .mk aid aname atag akey auses acond aon aparams aopts ain aout asetup aCatches aTimeouts =>
    let a : Act := .mk aid aname atag akey auses acond aon aparams aopts ain aout asetup aCatches aTimeouts
    if built.contains aid then .error (.dup aid) else
    let built1 := built ++ [aid]
    let node : Node := { id := aid, kind := .act, level := level, parentLink := if isFirst then some parent else none, prev := if isFirst then none else prevId, next := nextSibling, children := hookEntries aCatches aTimeouts, content := .act a }
    match buildCatches aid (level + 1) built1 aCatches with
    | .error e => .error e
    | .ok (cn, built2) =>
      match buildTimeouts aid (level + 1) built2 aTimeouts with
      | .error e => .error e
      | .ok (tn, built3) => .ok (node :: (cn ++ tn), built3)
def buildActs (parent : String) (level : Nat) (isFirst : Bool) (prevId : Option String) (built : Built) :
    List Act → Except BuildErr (List Node × Built)
  | [] => .ok ([], built)
  | a :: rest =>
    match buildAct parent level isFirst prevId (rest.head?.map (·.id)) built a with
    | .error e => .error e
    | .ok (an, built1) =>
      match buildActs parent level false (some a.id) built1 rest with
      | .error e => .error e
      | .ok (rn, built2) => .ok (an ++ rn, built2)
def buildCatch (owner : String) (level : Nat) (built : Built) : Catch → Except BuildErr (List Node × Built)
  | .mk _ cSteps => buildSteps owner level true none built cSteps
def buildCatches (owner : String) (level : Nat) (built : Built) : List Catch → Except BuildErr (List Node × Built)
  | [] => .ok ([], built)
  | c :: rest =>
    match buildCatch owner level built c with
    | .error e => .error e
    | .ok (sn, built1) =>
      match buildCatches owner level built1 rest with
      | .error e => .error e
      | .ok (rn, built2) => .ok (sn ++ rn, built2)
def buildTimeout (owner : String) (level : Nat) (built : Built) : Timeout → Except BuildErr (List Node × Built)
  | .mk _ tSteps => buildSteps owner level true none built tSteps
def buildTimeouts (owner : String) (level : Nat) (built : Built) : List Timeout → Except BuildErr (List Node × Built)
  | [] => .ok ([], built)
  | t :: rest =>
    match buildTimeout owner level built t with
    | .error e => .error e
    | .ok (sn, built1) =>
      match buildTimeouts owner level built1 rest with
      | .error e => .error e
      | .ok (rn, built2) => .ok (sn ++ rn, built2)
end

/-- `NodeTree::load`: the `on` events are registered first (level 0, unlinked), then the workflow is built -/
def buildEvents (built : Built) : List Act → Except BuildErr (List Node × Built)
  | [] => .ok ([], built)
  | a :: rest =>
    if a.id.isEmpty then .error .eventIdEmpty
    else if built.contains a.id then .error (.dup a.id)
    else
      let node : Node := { id := a.id, kind := .act, level := 0, parentLink := none, prev := none, next := none, children := [], content := .act a }
      match buildEvents (built ++ [a.id]) rest with
      | .error e => .error e
      | .ok (rn, b) => .ok (node :: rn, b)

def build (w : Workflow) : Except BuildErr (List Node) :=
  match buildEvents [] w.on with
  | .error e => .error e
  | .ok (en, built0) =>
    if built0.contains w.id then .error (.dup w.id) else
    let root : Node := { id := w.id, kind := .workflow, level := 0, parentLink := none, prev := none, next := none, children := firstStepEntry .normal none w.steps, content := .workflow }
    match buildSteps w.id 1 true none (built0 ++ [w.id]) w.steps with
    | .error e => .error e
    | .ok (sn, _) => .ok (en ++ root :: sn)

def findNode (nodes : List Node) (id : String) : Option Node := nodes.find? (·.id == id)

/-- `Node::parent`: the parent link, or the parent of the predecessor -/
def parentOf (nodes : List Node) : Nat → String → Option String
  | 0, _ => none
  | fuel + 1, id =>
    match findNode nodes id with
    | none => none
    | some n => match n.parentLink with
      | some p => some p
      | none => match n.prev with
        | some q => parentOf nodes fuel q
        | none => none

def childrenIn (n : Node) (typ : OutKind) (on : Option String) : List String :=
  (n.children.filter fun c => c.1 == typ && c.2.1 == on).map (·.2.2)

end Acts.Tree
