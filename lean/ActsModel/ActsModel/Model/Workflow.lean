import ActsModel.Model.Json

/-!
Workflow AST mirroring `acts/src/model/*.rs` (the fields the scheduler reads).
-/
namespace Acts

mutual
inductive Step where
  | mk (id name tag : String) (cond : Option String) (next : Option String) (inputs outputs : Vars)
       (branches : List Branch) (acts : List Act) (catches : List Catch) (timeouts : List Timeout) (setup : List Act)
inductive Branch where
  | mk (id name tag : String) (cond : Option String) (isElse : Bool) (needs : List String) (inputs outputs : Vars)
       (steps : List Step)
inductive Act where
  | mk (id name tag key uses : String) (cond : Option String) (on : Option String) (params : Json)
       (options inputs outputs : Vars) (setup : List Act) (catches : List Catch) (timeouts : List Timeout)
inductive Catch where
  | mk (on : Option String) (steps : List Step)
inductive Timeout where
  | mk (on : String) (steps : List Step)
end

structure Workflow where
  id : String
  name : String
  tag : String
  steps : List Step
  env : Vars
  inputs : Vars
  outputs : Vars
  setup : List Act
  on : List Act

instance : Inhabited Step := ⟨.mk "" "" "" none none [] [] [] [] [] [] []⟩
instance : Inhabited Branch := ⟨.mk "" "" "" none false [] [] [] []⟩
instance : Inhabited Act := ⟨.mk "" "" "" "" "" none none .null [] [] [] [] [] []⟩
instance : Inhabited Catch := ⟨.mk none []⟩
instance : Inhabited Timeout := ⟨.mk "" []⟩

def Step.id : Step → String | .mk id .. => id
def Step.name : Step → String | .mk _ n .. => n
def Step.tag : Step → String | .mk _ _ t .. => t
def Step.cond : Step → Option String | .mk _ _ _ c .. => c
def Step.next : Step → Option String | .mk _ _ _ _ n .. => n
def Step.inputs : Step → Vars | .mk _ _ _ _ _ i .. => i
def Step.outputs : Step → Vars | .mk _ _ _ _ _ _ o .. => o
def Step.branches : Step → List Branch | .mk _ _ _ _ _ _ _ b .. => b
def Step.acts : Step → List Act | .mk _ _ _ _ _ _ _ _ a .. => a
def Step.catches : Step → List Catch | .mk _ _ _ _ _ _ _ _ _ c .. => c
def Step.timeouts : Step → List Timeout | .mk _ _ _ _ _ _ _ _ _ _ t _ => t
def Step.setup : Step → List Act | .mk _ _ _ _ _ _ _ _ _ _ _ s => s

def Branch.id : Branch → String | .mk id .. => id
def Branch.name : Branch → String | .mk _ n .. => n
def Branch.tag : Branch → String | .mk _ _ t .. => t
def Branch.cond : Branch → Option String | .mk _ _ _ c .. => c
def Branch.isElse : Branch → Bool | .mk _ _ _ _ e .. => e
def Branch.needs : Branch → List String | .mk _ _ _ _ _ n .. => n
def Branch.inputs : Branch → Vars | .mk _ _ _ _ _ _ i .. => i
def Branch.outputs : Branch → Vars | .mk _ _ _ _ _ _ _ o _ => o
def Branch.steps : Branch → List Step | .mk _ _ _ _ _ _ _ _ s => s

def Act.id : Act → String | .mk id .. => id
def Act.name : Act → String | .mk _ n .. => n
def Act.tag : Act → String | .mk _ _ t .. => t
def Act.key : Act → String | .mk _ _ _ k .. => k
def Act.uses : Act → String | .mk _ _ _ _ u .. => u
def Act.cond : Act → Option String | .mk _ _ _ _ _ c .. => c
def Act.on : Act → Option String | .mk _ _ _ _ _ _ o .. => o
def Act.params : Act → Json | .mk _ _ _ _ _ _ _ p .. => p
def Act.options : Act → Vars | .mk _ _ _ _ _ _ _ _ o .. => o
def Act.inputs : Act → Vars | .mk _ _ _ _ _ _ _ _ _ i .. => i
def Act.outputs : Act → Vars | .mk _ _ _ _ _ _ _ _ _ _ o .. => o
def Act.setup : Act → List Act | .mk _ _ _ _ _ _ _ _ _ _ _ s .. => s
def Act.catches : Act → List Catch | .mk _ _ _ _ _ _ _ _ _ _ _ _ c _ => c
def Act.timeouts : Act → List Timeout | .mk _ _ _ _ _ _ _ _ _ _ _ _ _ t => t

def Catch.on : Catch → Option String | .mk o _ => o
def Catch.steps : Catch → List Step | .mk _ s => s
def Timeout.on : Timeout → String | .mk o _ => o
def Timeout.steps : Timeout → List Step | .mk _ s => s

end Acts
