import ActsModel.Gen.Value

/-!
`utils/convert.rs::get_exprs`: leftmost scan for `\{\{(.*?)\}\}` (lazy) or `\{\{(.*)\}\}` (greedy);
`.` does not match a newline. Strings are `List Char`; offsets are in characters.
-/
namespace Acts.Tmpl
open Acts.Gen

/-- number of characters before the first `}}` on the current line -/
def findClose : List Char → Option Nat
  | [] => none
  | c :: cs =>
    if c = '}' ∧ cs.head? = some '}' then some 0
    else if c = '\n' then none
    else (findClose cs).map (· + 1)

/-- number of characters before the last `}}` on the current line -/
def findCloseLast : List Char → Option Nat
  | [] => none
  | c :: cs =>
    if c = '\n' then none
    else match findCloseLast cs with
      | some n => some (n + 1)
      | none => if c = '}' ∧ cs.head? = some '}' then some 0 else none

def close (cs : List Char) : Option Nat := if templateGreedy then findCloseLast cs else findClose cs

theorem findClose_le (cs : List Char) : ∀ n, findClose cs = some n → n + 2 ≤ cs.length := by
  induction cs with
  | nil => intro n h; simp [findClose] at h
  | cons c cs ih =>
    intro n h
    unfold findClose at h
    split at h
    · rename_i hc
      cases h
      cases cs with
      | nil => simp at hc
      | cons d ds => simp
    · split at h
      · cases h
      · cases hrec : findClose cs with
        | some m => simp [hrec] at h; subst h; have := ih m hrec; simp; omega
        | none => simp [hrec] at h

theorem findCloseLast_le (cs : List Char) : ∀ n, findCloseLast cs = some n → n + 2 ≤ cs.length := by
  induction cs with
  | nil => intro n h; simp [findCloseLast] at h
  | cons c cs ih =>
    intro n h
    unfold findCloseLast at h
    split at h
    · cases h
    · cases hrec : findCloseLast cs with
      | some m => simp [hrec] at h; subst h; have := ih m hrec; simp; omega
      | none =>
        simp only [hrec] at h
        split at h
        · rename_i hc
          cases h
          cases cs with
          | nil => simp at hc
          | cons d ds => simp
        · cases h

theorem close_le (cs : List Char) (n : Nat) (h : close cs = some n) : n + 2 ≤ cs.length := by
  unfold close at h
  split at h
  · exact findCloseLast_le cs n h
  · exact findClose_le cs n h

/-- spans `(start, end)` of the templates found from offset `pos` -/
def scan (pos : Nat) (cs : List Char) : List (Nat × Nat) :=
  match cs with
  | [] => []
  | c :: rest =>
    if c = '{' ∧ rest.head? = some '{' then
      match h : close rest.tail with
      | some n => (pos, pos + n + 4) :: scan (pos + n + 4) (rest.tail.drop (n + 2))
      | none => scan (pos + 1) rest
    else scan (pos + 1) rest
termination_by cs.length
decreasing_by
  · have := close_le rest.tail n h
    simp only [List.length_drop, List.length_tail, List.length_cons] at this ⊢
    omega
  · simp
  · simp

end Acts.Tmpl
