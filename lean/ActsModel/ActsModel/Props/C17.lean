import ActsModel.Model.Retention
import ActsModel.Gen.Misc
import ActsModel.Model.Admit
import ActsModel.Props.C20

/-!
# C17 — Retention: finished processes leave exactly what the configuration says
-/
namespace Acts.C17
open Acts.Gen Acts.Ret

/-- **removal is exact**: after `removeProc p` no task row and no process row of `p` is left, every row of another process
is still there, and no message record is touched -/
theorem remove_exact (s : St) (p : String) :
    (∀ t ∈ (removeProc s p).tasks, t.pid ≠ p ∧ t ∈ s.tasks) ∧ (∀ t ∈ s.tasks, t.pid ≠ p → t ∈ (removeProc s p).tasks) ∧
    (p ∉ (removeProc s p).procs) ∧ (∀ q ∈ s.procs, q ≠ p → q ∈ (removeProc s p).procs) ∧
    (removeProc s p).messages = s.messages := by
  refine ⟨?_, ?_, ?_, ?_, rfl⟩
  · intro t h; simp only [removeProc, List.mem_filter, bne_iff_ne, ne_eq] at h; exact ⟨h.2, h.1⟩
  · intro t h hne; simp only [removeProc, List.mem_filter, bne_iff_ne, ne_eq]; exact ⟨h, hne⟩
  · intro h; simp [removeProc] at h
  · intro q h hne; simp only [removeProc, List.mem_filter, bne_iff_ne, ne_eq]; exact ⟨h, hne⟩

/-- K1 + model: with the default configuration the terminal event removes the process, with `keep_processes` nothing is deleted -/
theorem retention_rule (s : St) (p : String) :
    onTerminal false s p = removeProc s p ∧ onTerminal true s p = s ∧ Acts.Gen.Config.default_keep_processes = false := by
  refine ⟨by simp [onTerminal, removeOnTerminal], by simp [onTerminal, removeOnTerminal], by decide⟩

/-- removing one process and then another commutes and never resurrects rows: the order in which interleaved processes end
does not matter for what is left -/
theorem remove_comm (s : St) (p q : String) : removeProc (removeProc s p) q = removeProc (removeProc s q) p := by
  simp only [removeProc, List.filter_filter, Bool.and_comm]

/-- **every further action on a removed process is refused** (admission: the process lookup comes first) -/
theorem after_remove_refused (a : EventAction) (t : Acts.Admit.Target) (h : t.procLive = false) :
    Acts.Admit.admission a t = some .noProcess := by
  simp [Acts.Admit.admission, h]

/-- deleting a model removes exactly its registered start events (from C20's deploy bookkeeping) -/
theorem rm_model_exact (s : Acts.Deploy.St) (id : String) :
    (∀ e ∈ (Acts.Deploy.rm s id).events, e.mid ≠ id ∧ e ∈ s.events) ∧ (∀ e ∈ s.events, e.mid ≠ id → e ∈ (Acts.Deploy.rm s id).events) :=
  ⟨(Acts.C20.rm_exact s id).1, (Acts.C20.rm_exact s id).2.1⟩

/-- non-vacuity -/
example : (removeProc ⟨["p1", "p2"], [⟨"p1:$", "p1"⟩, ⟨"p2:$", "p2"⟩, ⟨"p1:a", "p1"⟩], [("m1", "p1")]⟩ "p1").tasks = [⟨"p2:$", "p2"⟩] := by decide

end Acts.C17
