import ActsModel.Gen.State
import ActsModel.Gen.Emit

/-!
C08 as a predicate on the stream of creations, state writes and generated messages of one process.
-/
namespace Acts.Spec
open Acts.Gen

structure STask where
  tid : Nat
  nid : String
  kind : String            -- workflow / step / branch / act
  uses : String
  level : Nat
  prev : Option Nat
  state : TaskState := .none
  created : Nat := 0       -- created messages seen
  terminal : Nat := 0      -- terminal messages seen
  everCreated : Bool := false
  deriving Repr

structure SMsg where
  tid : Nat
  mid : String
  state : String           -- message state
  type : String
  nid : String
  key : String
  uses : String
  pid : String
  deriving Repr

inductive SEv where
  | new (t : STask)
  | tr (tid : Nat) (s : TaskState)
  | gen (m : SMsg)
  | done                    -- end of the run (quiescent): completeness is checked here
  deriving Repr

/-- does a task of this kind report to the client at all? branches and function acts never do -/
def reports (t : STask) : Bool :=
  t.kind == "workflow" || t.kind == "step" || (t.kind == "act" && (t.uses == "acts.core.irq" || t.uses == "acts.core.msg"))

def isMsgAct (t : STask) : Bool := t.kind == "act" && t.uses == "acts.core.msg"

def sParent (ts : List STask) (t : STask) : Option STask :=
  let rec go (fuel : Nat) (prev : Option Nat) : Option STask :=
    match fuel, prev with
    | 0, _ => none
    | _, none => none
    | fuel + 1, some q =>
      match ts.find? (·.tid == q) with
      | none => none
      | some p => if p.level < t.level then some p else go fuel p.prev
  go (ts.length + 1) t.prev

structure SState where
  pid : String
  tasks : List STask := []
  mids : List String := []

def terminalMsgStates : List String := ["completed", "submitted", "backed", "cancelled", "aborted", "skipped", "error", "removed"]

/-- the message is a terminal one -/
def SMsg.isTerm (m : SMsg) : Bool := terminalMsgStates.contains m.state

/-- the record of a task after the message has been counted -/
def countMsg (t : STask) (m : SMsg) : STask :=
  if m.isTerm then { t with terminal := t.terminal + 1 } else { t with created := t.created + 1 }

/-- the message names a fresh id and describes the task `t` -/
def genDescribes (st : SState) (t : STask) (m : SMsg) : Option String :=
  if st.mids.contains m.mid then some "duplicate-message-id"
  else if t.kind == "branch" then some "message-from-branch"
  -- the message describes its task
  else if m.pid != st.pid || m.nid != t.nid || m.type != t.kind || m.uses != t.uses then some "fields-do-not-match-task"
  else if m.state != (msgStateOf t.state).toStr then some "state-does-not-match-task"
  else none

/-- the message comes at most once and in order (`t` is the record before the message is counted) -/
def genOrdered (st : SState) (t : STask) (m : SMsg) : Option String :=
  if m.isTerm then (if t.terminal ≥ 1 then some "second-terminal-message" else none)
  else if t.created ≥ 1 then some "second-created-message"
  else if t.terminal > 0 then some "created-after-terminal"
  else if isMsgAct t then some "created-message-of-msg-act"
  else
    -- a parent that reports has reported its creation first
    match sParent st.tasks t with
    | some p => if reports p && !isMsgAct p && p.created == 0 then some "child-created-before-parent" else none
    | none => none

def streamStep (st : SState) (i : Nat) : SEv → SState × Option (Nat × String × Nat)
  | .new t => ({ st with tasks := st.tasks ++ [t] }, none)
  | .tr tid s =>
    ({ st with tasks := st.tasks.map fun t =>
        -- "started": the task got past `init` (a task whose `if` fails goes ready → skipped inside `init` and never starts)
        if t.tid == tid then { t with state := s, everCreated := t.everCreated || s == .interrupt || s == .pending || s == .running } else t }, none)
  | .gen m =>
    match st.tasks.find? (·.tid == m.tid) with
    | none => (st, some (i, "message-for-unknown-task", m.tid))
    | some t =>
      match genDescribes st t m with
      | some c => (st, some (i, c, m.tid))
      | none =>
        ({ st with mids := m.mid :: st.mids, tasks := st.tasks.map fun x => if x.tid == t.tid then countMsg t m else x },
         (genOrdered st t m).map fun c => (i, c, m.tid))
  | .done =>
    -- completeness: every reporting task that started has its created message, every one that ended its terminal message
    match st.tasks.find? fun t => reports t && !isMsgAct t && t.everCreated && t.created == 0 with
    | some t => (st, some (i, "missing-created-message", t.tid))
    | none =>
      match st.tasks.find? fun t => reports t && t.state.isCompleted && t.terminal == 0 && (t.everCreated || t.state != .skipped || true) with
      | some t => (st, some (i, "missing-terminal-message", t.tid))
      | none => (st, none)

def streamMonitor : SState → Nat → List SEv → Option (Nat × String × Nat)
  | _, _, [] => none
  | st, i, e :: es =>
    match streamStep st i e with
    | (_, some v) => some v
    | (st', none) => streamMonitor st' (i + 1) es

end Acts.Spec
