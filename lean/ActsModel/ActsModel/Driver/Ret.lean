import Lean.Data.Json
import ActsModel.Driver.Util
import ActsModel.Model.Retention
open Lean

namespace Acts.Driver
open Acts.Ret

/-- {"keep": false, "finished": ["p1"], "procs": ["p0"], "tasks": [["p0:$", "p0"]]} -> the first violated retention clause -/
def retCase (req : Lean.Json) : Lean.Json :=
  let s : St := { procs := (jarr req "procs").toList.map asStr,
                  tasks := (jarr req "tasks").toList.map (fun t => let a := asArr t; ⟨asStr a[0]!, asStr a[1]!⟩),
                  messages := [] }
  match retentionCheck (jbool req "keep") ((jarr req "finished").toList.map asStr) s with
  | some (why, pid) => Lean.Json.mkObj [("ok", Lean.Json.bool false), ("why", Lean.Json.str why), ("pid", Lean.Json.str pid)]
  | none =>
    -- with keep_processes: "settled" = processes that ended before this operation, "states" = [[pid, terminal?], …] of the task rows
    let rows : List (String × Bool) := (jarr req "states").toList.map fun t => let a := asArr t; (asStr a[0]!, match a[1]! with | .bool b => b | _ => true)
    match (if jbool req "keep" then keptRowsCheck ((jarr req "settled").toList.map asStr) rows else none) with
    | some pid => Lean.Json.mkObj [("ok", Lean.Json.bool false), ("why", Lean.Json.str "kept-task-row-not-terminal"), ("pid", Lean.Json.str pid)]
    | none => Lean.Json.mkObj [("ok", Lean.Json.bool true)]

end Acts.Driver
