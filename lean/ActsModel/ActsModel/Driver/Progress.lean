import Lean.Data.Json
import ActsModel.Driver.Util
import ActsModel.Spec.Progress
open Lean

namespace Acts.Driver
open Acts.Spec

/-- {"queue": n, "procs": [{"pid","terminal":bool,"tasks":[[kind,state]...]}]} -/
def progressCase (req : Lean.Json) : Lean.Json :=
  let procs : List QProc := (jarr req "procs").toList.map fun p =>
    { pid := jstr p "pid", terminalDelivered := jbool p "terminal",
      states := (jarr p "tasks").toList.map fun t => let a := asArr t; (asStr a[0]!, Acts.Gen.TaskState.ofStr (asStr a[1]!)),
      pendingTimeouts := jnat p "timeouts", runningChildren := jnat p "children" }
  let ok := progressOK (jnat req "queue") procs
  let bad := procs.filter fun p => !(p.terminalDelivered || p.waitingOnClient)
  Lean.Json.mkObj [("ok", Lean.Json.bool ok),
    ("stranded", Lean.Json.arr (bad.map fun p => Lean.Json.mkObj [("pid", Lean.Json.str p.pid),
      ("tasks", Lean.Json.arr (p.stranded.map fun s => Lean.Json.arr #[Lean.Json.str s.1, Lean.Json.str s.2.toStr]).toArray)]).toArray)]

end Acts.Driver
