/-!
# The wake-up rules of waiting branches, on the states of the siblings

`Task::is_ready` as the engine has it (the rules themselves are read from the source into `Gen/Branch.lean`): a branch with `needs` is
ready when a sibling it names has ended (skipped included); the `else` branch is ready when every sibling was skipped, and is closed once
a sibling has ended otherwise.  This small model is where the recorded wait-cycle findings of C01 are stated: shapes in which the rules
wait for each other.
-/
namespace Acts.Wait

inductive BS where | pending | skipped | running | ended
  deriving DecidableEq, Repr

inductive G where
  | cond
  | otherwise
  | needs (ids : List String)
  deriving DecidableEq, Repr

structure B where
  id : String
  guard : G
  state : BS
  deriving DecidableEq, Repr

def siblings (bs : List B) (b : B) : List B := bs.filter (·.id != b.id)

/-- `Task::is_ready` -/
def ready (bs : List B) (b : B) : Bool :=
  match b.guard with
  | .needs ns => (siblings bs b).any fun s => ns.contains s.id && (s.state == .skipped || s.state == .ended)
  | .otherwise => (siblings bs b).all (·.state == .skipped)
  | .cond => false

/-- the `else` branch is closed (written skipped) once a sibling has ended in another way than being skipped -/
def closes (bs : List B) (b : B) : Bool :=
  match b.guard with
  | .otherwise => (siblings bs b).any (·.state == .ended)
  | _ => false

/-- nothing runs, something waits, and no rule applies to any waiting branch: the step can never end -/
def stuck (bs : List B) : Bool :=
  bs.all (·.state != .running) && bs.any (·.state == .pending) &&
  bs.all fun b => b.state != .pending || (!ready bs b && !closes bs b)

end Acts.Wait
