"""C18 — channels deliver exactly the messages their filters select"""
from .. import gen
from ..core import obs_of
from ..rng import Rng

ASSUMPTIONS = [
    "globset is outside the model: Glob.matchToks is its executable specification for literals, *, ?, classes, one level of {a,b}, escapes; "
    "the pattern parser of the driver is tested against globset, not proved",
    "`**` and nested alternations are not generated",
]

WF = {"id": "mc", "tag": "mtag", "steps": [
    {"id": "s1", "tag": "t1", "acts": [{"id": "a1", "uses": gen.IRQ, "key": "k1", "tag": "ta"},
                                       {"id": "a2", "uses": gen.MSG, "key": "key2", "tag": "tb"}]},
    {"id": "s2", "tag": "t2", "branches": [
        {"id": "b1", "if": "true", "steps": [{"id": "s3", "acts": [{"id": "a3", "uses": gen.IRQ, "key": "k3", "tag": "ta"}]}]},
        {"id": "b2", "if": "true", "steps": [{"id": "s4", "tag": "t1", "acts": [{"id": "a4", "uses": gen.MSG, "key": "other", "tag": ""}]}]}]},
    {"id": "s5", "acts": [{"id": "a5", "uses": gen.IRQ, "key": "k5"}]}]}

PATS = {
    "type": ["*", "act", "step", "workflow", "{act,step}", "{workflow,act}", "a*", "s?ep", "[as]*", "*e*", "branch", "{step}", "act?", ""],
    "state": ["*", "created", "completed", "{created,completed}", "c*", "*ed", "[!c]*", "??eated", "error", "{skipped,error,created}"],
    "tag": ["*", "t1", "ta", "mtag", "t*", "{ta,tb}", "m*", "*tag", "[a-z]?", "none", "t[12]"],
    "key": ["*", "k1", "k*", "key?", "{k1,k3}", "k[0-9]", "[!k]*", "*2", "s*", "mc", "\\k1"],
    "uses": ["*", "acts.core.irq", "acts.core.*", "acts.*.msg", "*.irq", "acts.core.{irq,msg}", "", "*irq*", "acts?core?irq"],
}

ALPH = ["a", "b", "k", "1", "2", "*", "?", "[a-c]", "[!a]", "{a,b}", "{k1,k*}", ".", "/", "-", "\\*", "[]a]", "ab", ",", "{a}"]
BAD = ["[a", "{a,b", "a}", "\\", "[z-a]"]
SUBJ = ["", "a", "b", "k", "k1", "k2", "ab", "a/b", "abc", "*", "a.b", "1", "]", "-", "ka1", "a,b", "c"]


def gen_glob_pair(rng):
    if rng.chance(1, 12):
        pat = rng.pick(BAD)
    else:
        pat = "".join(rng.pick(ALPH) for _ in range(rng.range(0, 4)))
        while "**" in pat:          # `**` is a recursive-directory wildcard in globset: not generated
            pat = pat.replace("**", "*")
    s = rng.pick(SUBJ) if rng.chance(2, 3) else "".join(rng.pick(["a", "b", "k", "1", ".", "/"]) for _ in range(rng.range(0, 5)))
    return {"pat": pat, "s": s}


def gen_chan_scenario(seed, i):
    rng = Rng(seed * 15485863 + i)
    ops = [["deploy", 0]]
    chans = {}
    timeline = []   # (op index when applied, action, id, opts)

    def open_chan():
        cid = rng.pick(["c1", "c2", "c3"])
        o = {"id": cid}
        for f in ("type", "state", "tag", "key", "uses"):
            if rng.chance(1, 2):
                o[f] = rng.pick(PATS[f])
        if rng.chance(1, 2):
            # a client that only listens to some kinds (process events only, messages only, …)
            o["handlers"] = rng.pick([["start", "complete", "error"], ["message"], ["complete"], ["message", "start"], ["error", "start"]])
        if rng.chance(1, 3):
            # a channel that acknowledges: its messages are recorded in the store before they are handed over; several such channels
            # may select the same message
            o["ack"] = True
        ops.append(["chan_open", o])
        timeline.append((len(ops) - 1, "open", cid, o))

    def close_chan():
        cid = rng.pick(["c1", "c2", "c3"])
        ops.append([rng.pick(["chan_close", "unsub"]), cid])
        timeline.append((len(ops) - 1, "close", cid, None))
    for _ in range(rng.range(1, 3)):
        open_chan()
    ops.append(["start", "mc", {"pid": "p1"}])
    for _ in range(rng.range(4, 10)):
        r = rng.below(100)
        if r < 30:
            ops.append(["runall"])
        elif r < 45:
            ops.append(["run", rng.below(3)])
        elif r < 70:
            ops.append(["act", rng.pick(["next", "next", "skip", "error", "submit"]), "p1", {"open": rng.below(3)}, {"ecode": "e1"}])
        elif r < 88:
            open_chan()
        else:
            close_chan()
    ops.append(["runall"])
    # whatever is open or closed by now: a second process starts, and both are answered to their end (start / complete / error events included)
    if rng.chance(1, 2):
        close_chan()
    ops.append(["start", "mc", {"pid": "p2"}])
    ops.append(["runall"])
    for _ in range(5):
        for pid in ("p1", "p2"):
            ops.append(["act", "next" if not rng.chance(1, 8) else "error", pid, {"open": 0}, {"ecode": "e1"}])
            ops.append(["runall"])
    return {"id": f"ch-{seed}-{i}", "config": {"keep": True, "store": "sqlite" if i % 3 == 1 else "mem"}, "models": [WF], "ops": ops}, timeline


def fields_of(o):
    return {"type": o.get("type", ""), "state": o.get("state", ""), "tag": o.get("tag", ""), "model.tag": o.get("model_tag", ""),
            "key": o.get("key", ""), "uses": o.get("uses", "")}


def run(ctx):
    ctx.check_theorems("ActsModel.Props.C18")
    ng = 3000 if ctx.tier == "quick" else 60000
    nc = 300 if ctx.tier == "quick" else 3000
    rng = Rng(ctx.seed * 2654435761)
    # ---- matcher vs globset
    pairs = [gen_glob_pair(rng.fork(i)) for i in range(ng)]
    for f, ps in PATS.items():
        for p in ps:
            for s in ["act", "step", "workflow", "created", "completed", "t1", "ta", "mtag", "k1", "key2", "acts.core.irq", "acts.core.msg", "", "s1"]:
                pairs.append({"pat": p, "s": s})
    eng = ctx.harness("glob", pairs, tag="g")
    mod = ctx.driver([{"cmd": "c18.glob", "pat": p["pat"], "s": p["s"]} for p in pairs], tag="dg")
    nvalid = nmatch = 0
    for p, e, m in zip(pairs, eng, mod):
        ctx.cov["evaluations"] += 1
        if not isinstance(m, dict) or "valid" not in m:
            continue
        if e.get("valid"):
            nvalid += 1
        if e.get("match"):
            nmatch += 1
            ctx.nontrivial(["glob", p["pat"], p["s"]])
        if e.get("valid") != m.get("valid") or e.get("match") != m.get("match"):
            ctx.violation("C18|spec-vs-globset", f"pattern {p['pat']!r} on {p['s']!r}: globset {e}, spec {m}", {"pair": p, "globset": e, "spec": m})
    # ---- channels in generated runs
    scs, tls = [], []
    for i in range(nc):
        sc, tl = gen_chan_scenario(ctx.seed, i)
        scs.append(sc)
        tls.append(tl)
    results = ctx.harness("run", scs, tag="c")
    reqs, index = [], []
    per_scenario = []
    for sc, tl, res in zip(scs, tls, results):
        # state of the channels after each op, and default-channel deliveries per op
        open_opts = {}
        expect = []   # (op, chan, opts, msgs[])
        by_op = {st["op"]: st["obs"] for st in res.get("steps", [])}
        tlmap = {t[0]: t for t in tl}
        for i in range(len(sc["ops"])):
            if i in tlmap:
                _, act, cid, o = tlmap[i]
                if act == "open":
                    # one handler map per kind: opening an id registers (replaces) the handlers of the kinds this client listens to, and leaves the
                    # handlers a former client registered under the same id for the other kinds in place, until the id is closed
                    for kind in (o.get("handlers") or ["message", "start", "complete", "error"]):
                        open_opts[(cid, kind)] = o
                else:
                    for kind in ("message", "start", "complete", "error"):
                        open_opts.pop((cid, kind), None)
            obs = by_op.get(i, [])
            msgs = [o for o in obs if o.get("k") == "dlv" and o.get("chan") == "default"]
            pevs = [o for o in obs if o.get("k") == "pev" and o.get("chan") == "default"]
            if msgs or pevs:
                for (cid, kind), o in open_opts.items():
                    expect.append((i, cid, dict(o, handlers=[kind]), msgs if kind == "message" else [], [e for e in pevs if e["ev"] == kind]))
        per_scenario.append(expect)
        for (i, cid, o, msgs, pevs) in expect:
            opts = {f: o.get(f, "*") for f in ("type", "state", "tag", "key", "uses")}
            # process events go through the same filter as messages (the message of the root task)
            reqs.append({"cmd": "c18.chan", "opts": opts, "msgs": [fields_of(m) for m in msgs] + [fields_of(e) for e in pevs]})
    answers = ctx.driver(reqs, tag="dc")
    k = 0
    stats = {"channels_opened": 0, "selected": 0, "rejected": 0, "glob_pairs": len(pairs), "glob_valid": nvalid, "glob_match": nmatch}
    for sc, tl, res, expect in zip(scs, tls, results, per_scenario):
        ctx.cov["evaluations"] += 1
        stats["channels_opened"] += sum(1 for t in tl if t[1] == "open")
        if res.get("panic") or res.get("crashed"):
            k += len(expect)
            # an invalid pattern panics in Channel::channel (unwrap): generated patterns are all valid
            ctx.violation("C18|engine-panic", f"engine panicked: {str(res.get('panic'))[:100]}", {"scenario": sc})
            continue
        by_op = {st["op"]: st["obs"] for st in res.get("steps", [])}
        failed = False
        covered = set()
        sel_n = rej_n = 0
        for (i, cid, o, msgs, pevs) in expect:
            an = answers[k]
            k += 1
            if failed or not isinstance(an, dict) or not an.get("valid"):
                continue
            hs = o.get("handlers") or ["message", "start", "complete", "error"]
            want = [m["m"] for m, s in zip(msgs, an["select"]) if s] if "message" in hs else []
            got = [x["m"] for x in by_op.get(i, []) if x.get("k") == "dlv" and x.get("chan") == cid] if "message" in hs else []
            # process events: one delivery per selected event of a kind the channel listens to
            wantp = sorted((e["ev"], e["pid"]) for e, s in zip(pevs, an["select"][len(msgs):]) if s and e["ev"] in hs)
            gotp = sorted((x["ev"], x["pid"]) for x in by_op.get(i, []) if x.get("k") == "pev" and x.get("chan") == cid and x["ev"] in hs)
            if gotp != wantp and not failed:
                ctx.violation("C18|process-events", f"channel {cid} {o} at op {i}: process events delivered {gotp}, selected {wantp}",
                              {"scenario": sc, "op": i, "chan": cid, "opts": o})
                failed = True
                continue
            covered.add((i, cid, hs[0]))
            sel_n += len(want)
            rej_n += len(msgs) - len(want)
            if sorted(got) != sorted(want):
                extra = [g for g in got if g not in want]
                miss = [w for w in want if w not in got]
                dup = len(got) != len(set(got))
                kind = "duplicate-delivery" if dup else ("unselected-delivered" if extra else "selected-missing")
                ctx.violation("C18|" + kind, f"channel {cid} {o} at op {i}: got {got}, filter selects {want}",
                              {"scenario": sc, "op": i, "chan": cid, "opts": o, "got": got, "want": want})
                failed = True
        # deliveries to channels that are not open
        if not failed:
            for i, obs in by_op.items():
                for x in obs:
                    if x.get("k") in ("dlv", "pev") and x.get("chan") not in ("default",) and (i, x.get("chan"), "message" if x.get("k") == "dlv" else x.get("ev")) not in covered:
                        ctx.violation("C18|delivery-to-closed-channel", f"channel {x.get('chan')} received {x.get('m')} at op {i} while closed",
                                      {"scenario": sc, "op": i})
                        failed = True
                        break
                if failed:
                    break
        stats["selected"] += sel_n
        stats["rejected"] += rej_n
        if sel_n and rej_n:
            ctx.nontrivial(["chan", sc["ops"]])
        ctx.sample({"scenario": sc["id"], "ops": [o for o in sc["ops"] if o[0].startswith("chan") or o[0] == "unsub"][:4]}, limit=2)
    ctx.cov["correspondence"] = {"distribution": stats, "streams_compared": ["globset vs Glob.matchToks", "per-channel deliveries vs Chan.isMatch of the unfiltered stream"]}
    ctx.cov["rule"] = ("generated pattern/string pairs (literals, *, ?, classes, {a,b}, escapes, malformed) against globset; generated runs with 1-3 channels "
                       "opened/closed/re-registered at arbitrary quiescent points; non-trivial = pair that matches / run in which a channel both selects and rejects")
    ctx.cov["clauses_proved"] = ["* matches all, literal/prefix/?/class/alternation laws (all strings)", "filter = type & state & (tag | model tag) & key & uses",
                                 "register replaces, remove removes only that id (all maps)"]
    ctx.cov["clauses_not_proved"] = ["globset implements the specification (differential)", "pattern parser (differential)"]


def replay(ctx, data):
    ctx.build([])
    sc = data["replay"].get("scenario")
    if sc:
        res = ctx.harness("run", [sc])[0]
        for st in res["steps"]:
            print(st["op"], sc["ops"][st["op"]][:2] if st["op"] < len(sc["ops"]) else "", [(o.get("chan"), o.get("m")) for o in st["obs"] if o.get("k") == "dlv"])
    return 0
