import ActsModel.Gen.State
import ActsModel.Gen.Action
import ActsModel.Gen.Consts
import ActsModel.Gen.Fields
import ActsModel.Gen.Misc
import ActsModel.Gen.Emit
