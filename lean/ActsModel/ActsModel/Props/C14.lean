import ActsModel.Model.Value
import ActsModel.Model.Tmpl

/-!
# C14 — Script boundary keeps values intact; templates substitute every expression
-/
namespace Acts.C14
open Acts Acts.Gen Acts.Value Acts.Tmpl

/-- K1: the conversion widens instead of wrapping, integral doubles up to 2^53 come back as integers,
the template scan is lazy -/
theorem source_constants : intoJsWraps = false ∧ fromJsIntegralBound = some 9007199254740992 ∧
    templateGreedy = false ∧ wholeStringTyped = true := by decide

theorem int_roundtrip (z : Int) (h1 : -safeBound ≤ z) (h2 : z ≤ safeBound) : fromJs (intToJs z) = .int z := by
  unfold intToJs
  simp only [intoJsWraps, Bool.false_eq_true, ↓reduceIte]
  split
  · simp [fromJs]
  · simp only [h1, h2, decide_true, Bool.and_self, ↓reduceIte, fromJs, floatFromJs, fromJsIntegralBound]
    have a : -(9007199254740992 : Int) ≤ z := h1
    have b : z ≤ (9007199254740992 : Int) := h2
    simp [a, b]

mutual
/-- every safe JSON value comes back from a script with the same value (integers up to 2^53 included) -/
theorem roundtrip_same (v : Json) (h : safe v = true) : sameValue (fromJs (toJs v)) v = true := by
  cases v with
  | null => simp [toJs, fromJs, sameValue]
  | bool b => simp [toJs, fromJs, sameValue]
  | int z =>
    simp only [safe, Bool.and_eq_true, decide_eq_true_eq] at h
    simp [toJs, int_roundtrip z h.1 h.2, sameValue]
  | flt f =>
    cases f with
    | exact z =>
      simp only [safe, Bool.and_eq_true, decide_eq_true_eq] at h
      have a : -(9007199254740992 : Int) ≤ z := h.1
      have b : z ≤ (9007199254740992 : Int) := h.2
      simp [toJs, fromJs, floatFromJs, fromJsIntegralBound, a, b, sameValue]
    | other b => simp [toJs, fromJs, floatFromJs, sameValue]
  | str s => simp [toJs, fromJs, sameValue]
  | arr xs =>
    simp only [toJs, fromJs, sameValue]
    exact roundtrip_sameList xs (by simpa [safe] using h)
  | obj kvs =>
    simp only [toJs, fromJs, sameValue]
    exact roundtrip_sameFields kvs (by simpa [safe] using h)
theorem roundtrip_sameList (xs : List Json) (h : safeList xs = true) :
    sameList (fromJsList (toJsList xs)) xs = true := by
  cases xs with
  | nil => simp [toJsList, fromJsList, sameList]
  | cons x xs =>
    simp only [safeList, Bool.and_eq_true] at h
    simp [toJsList, fromJsList, sameList, roundtrip_same x h.1, roundtrip_sameList xs h.2]
theorem roundtrip_sameFields (kvs : List (String × Json)) (h : safeFields kvs = true) :
    sameFields (fromJsFields (toJsFields kvs)) kvs = true := by
  cases kvs with
  | nil => simp [toJsFields, fromJsFields, sameFields]
  | cons kv kvs =>
    obtain ⟨k, v⟩ := kv
    simp only [safeFields, Bool.and_eq_true] at h
    simp [toJsFields, fromJsFields, sameFields, roundtrip_same v h.1, roundtrip_sameFields kvs h.2]
end

mutual
/-- and it comes back *identical* when it contains no integral double (2.0 comes back as 2) -/
theorem roundtrip_id (v : Json) (h : safe v = true) (hf : noIntegralFloat v = true) : fromJs (toJs v) = v := by
  cases v with
  | null => simp [toJs, fromJs]
  | bool b => simp [toJs, fromJs]
  | int z =>
    simp only [safe, Bool.and_eq_true, decide_eq_true_eq] at h
    simp [toJs, int_roundtrip z h.1 h.2]
  | flt f =>
    cases f with
    | exact z => simp [noIntegralFloat] at hf
    | other b => simp [toJs, fromJs, floatFromJs]
  | str s => simp [toJs, fromJs]
  | arr xs =>
    simp only [toJs, fromJs]
    rw [roundtrip_idList xs (by simpa [safe] using h) (by simpa [noIntegralFloat] using hf)]
  | obj kvs =>
    simp only [toJs, fromJs]
    rw [roundtrip_idFields kvs (by simpa [safe] using h) (by simpa [noIntegralFloat] using hf)]
theorem roundtrip_idList (xs : List Json) (h : safeList xs = true) (hf : noIntegralFloatList xs = true) :
    fromJsList (toJsList xs) = xs := by
  cases xs with
  | nil => simp [toJsList, fromJsList]
  | cons x xs =>
    simp only [safeList, noIntegralFloatList, Bool.and_eq_true] at h hf
    simp [toJsList, fromJsList, roundtrip_id x h.1 hf.1, roundtrip_idList xs h.2 hf.2]
theorem roundtrip_idFields (kvs : List (String × Json)) (h : safeFields kvs = true)
    (hf : noIntegralFloatFields kvs = true) : fromJsFields (toJsFields kvs) = kvs := by
  cases kvs with
  | nil => simp [toJsFields, fromJsFields]
  | cons kv kvs =>
    obtain ⟨k, v⟩ := kv
    simp only [safeFields, noIntegralFloatFields, Bool.and_eq_true] at h hf
    simp [toJsFields, fromJsFields, roundtrip_id v h.1 hf.1, roundtrip_idFields kvs h.2 hf.2]
end

/-- the witness of the defect the widening repaired: a wrapping cast turns 3000000000 into -1294967296 -/
theorem wrap_3e9 : wrapI32 3000000000 = -1294967296 := by decide

/-- non-vacuity: a nested value with integers at the 2^31, 2^32 and 2^53 boundaries is safe -/
example : safe (.obj [("a", .arr [.int 2147483648, .int (-4294967297), .int 9007199254740992]),
    ("b", .flt (.other 7)), ("c", .str "x")]) = true := by decide

-- ------------------------------------------------------------------ templates

/-- a character that is neither a brace nor a newline -/
def plain (c : Char) : Prop := c ≠ '{' ∧ c ≠ '}' ∧ c ≠ '\n'

inductive Seg where
  | lit (cs : List Char)
  | tpl (e : List Char)

def Seg.render : Seg → List Char
  | .lit cs => cs
  | .tpl e => '{' :: '{' :: e ++ ['}', '}']

def Seg.WF : Seg → Prop
  | .lit cs => ∀ c ∈ cs, plain c
  | .tpl e => ∀ c ∈ e, plain c

def render (segs : List Seg) : List Char := segs.flatMap Seg.render

/-- the spans the templates of a segmented string occupy -/
def spans : Nat → List Seg → List (Nat × Nat)
  | _, [] => []
  | pos, .lit cs :: r => spans (pos + cs.length) r
  | pos, .tpl e :: r => (pos, pos + e.length + 4) :: spans (pos + e.length + 4) r

theorem findClose_plain (e : List Char) (he : ∀ c ∈ e, plain c) (rest : List Char) :
    findClose (e ++ '}' :: '}' :: rest) = some e.length := by
  induction e with
  | nil => simp [findClose]
  | cons c cs ih =>
    have hc := he c (List.mem_cons_self ..)
    have ih' := ih (fun d hd => he d (List.mem_cons_of_mem _ hd))
    simp only [List.cons_append, findClose]
    simp [hc.2.1, hc.2.2, ih']

theorem close_plain (e : List Char) (he : ∀ c ∈ e, plain c) (rest : List Char) :
    close (e ++ '}' :: '}' :: rest) = some e.length := by
  simp [close, templateGreedy, findClose_plain e he rest]

theorem scan_plain_prefix (cs : List Char) (hcs : ∀ c ∈ cs, plain c) (rest : List Char) (pos : Nat) :
    scan pos (cs ++ rest) = scan (pos + cs.length) rest := by
  induction cs generalizing pos with
  | nil => simp
  | cons c cs ih =>
    have hc := hcs c (List.mem_cons_self ..)
    rw [List.cons_append, scan]
    have h1 : ¬ (c = '{' ∧ (cs ++ rest).head? = some '{') := fun h => hc.1 h.1
    simp only [h1, ↓reduceIte]
    rw [ih (fun d hd => hcs d (List.mem_cons_of_mem _ hd))]
    simp [Nat.add_assoc, Nat.add_comm 1]

theorem scan_open (pos : Nat) (rest : List Char) (n : Nat) (h : close rest = some n) :
    scan pos ('{' :: '{' :: rest) = (pos, pos + n + 4) :: scan (pos + n + 4) (rest.drop (n + 2)) := by
  rw [scan]
  simp only [List.head?_cons, and_self, ↓reduceIte, List.tail_cons]
  split
  · rename_i m hm
    rw [h] at hm; cases hm; rfl
  · rename_i hm; rw [h] at hm; cases hm

/-- **each template is found on its own**: for a string made of brace-free literals and brace-free expressions the
scan returns exactly the templates, in order, with their exact extents (any number of them) -/
theorem each_template_found (segs : List Seg) (h : ∀ s ∈ segs, s.WF) :
    ∀ pos, scan pos (render segs) = spans pos segs := by
  induction segs with
  | nil => intro pos; simp [render, scan, spans]
  | cons s segs ih =>
    intro pos
    have hs := h s (List.mem_cons_self ..)
    have ih' := ih (fun t ht => h t (List.mem_cons_of_mem _ ht))
    cases s with
    | lit cs =>
      simp only [render, List.flatMap_cons, Seg.render, spans]
      rw [scan_plain_prefix cs hs]
      exact ih' _
    | tpl e =>
      simp only [render, List.flatMap_cons, Seg.render, spans]
      have hcl : close (e ++ '}' :: '}' :: List.flatMap Seg.render segs) = some e.length :=
        close_plain e hs (List.flatMap Seg.render segs)
      have hshape : ('{' :: '{' :: e ++ ['}', '}']) ++ List.flatMap Seg.render segs
          = '{' :: '{' :: (e ++ '}' :: '}' :: List.flatMap Seg.render segs) := by simp
      rw [hshape, scan_open pos _ e.length hcl]
      have hdrop : List.drop (e.length + 2) (e ++ '}' :: '}' :: List.flatMap Seg.render segs)
          = List.flatMap Seg.render segs := by
        rw [List.drop_append]; simp
      rw [hdrop]
      have := ih' (pos + e.length + 4)
      simp only [render] at this
      rw [this]

/-- no template: nothing is found, the string is passed through verbatim -/
theorem none_verbatim (cs : List Char) (h : ∀ c ∈ cs, plain c) : scan 0 cs = [] := by
  have := each_template_found [.lit cs] (by intro s hs; simp at hs; subst hs; exact h) 0
  simpa [render, Seg.render, spans] using this

/-- exactly one template spanning the string: one span covering all of it (`fill_params` then returns the typed value) -/
theorem single_typed (e : List Char) (h : ∀ c ∈ e, plain c) :
    scan 0 ('{' :: '{' :: e ++ ['}', '}']) = [(0, e.length + 4)] ∧ ('{' :: '{' :: e ++ ['}', '}']).length = e.length + 4 := by
  have := each_template_found [.tpl e] (by intro s hs; simp at hs; subst hs; exact h) 0
  refine ⟨by simpa [render, Seg.render, spans] using this, by simp⟩

/-- the defect the lazy scan repaired, on the model: a greedy `.*` joins two templates into one span -/
theorem greedy_joins_two :
    findCloseLast ['a', '}', '}', ' ', '{', '{', 'b', '}', '}'] = some 7 ∧
    findClose ['a', '}', '}', ' ', '{', '{', 'b', '}', '}'] = some 1 := by
  decide

/-- non-vacuity: two templates in one string are found separately -/
example : scan 0 (render [.tpl ['a'], .lit [' ', '&', ' '], .tpl ['b']]) = [(0, 5), (8, 13)] := by
  have := each_template_found [.tpl ['a'], .lit [' ', '&', ' '], .tpl ['b']]
    (by intro s hs; simp at hs; rcases hs with rfl | rfl | rfl <;> simp [Seg.WF, plain]) 0
  simpa [spans] using this

end Acts.C14
