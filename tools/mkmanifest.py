#!/usr/bin/env python3
"""writes MANIFEST.json from the table below (kept in one place so it is always valid)"""
import json
import os

ROOT = os.path.normpath(os.path.join(os.path.dirname(os.path.abspath(__file__)), ".."))

CHECKS = {
    "C02": ("Lean 4 K1 theorems over translated tables (state classes, guard table of Task::update) + monitor soundness lemma; "
            "Lean-defined lifecycle monitor evaluated on the engine's transition trace",
            "The table theorems are complete for what they state (the quantifier is the 13x10 table regenerated from the Rust source "
            "on every run); legality of every write under parallel composition is decided by the Lean monitor on engine traces "
            "(exhaustive action x state matrix + seeded histories), not by an operational theorem.", "5 C02"),
    "C09": ("Lean 4 K3 theorems over all operation sequences of the ack/retry state machine (bounded retries, redelivery shape, at-least-once, "
            "error at the limit, closed messages stay silent) + differential correspondence of the machine with the engine on both back ends",
            "Theorems are about Model/MsgStore.lean, a transcription of store_if / with_no_response_messages / set_message* whose comparison "
            "constants (strict <, status selected, acted status) are regenerated from the source; the tie is the per-operation comparison of "
            "redeliveries and stored (id,status,retry) with the real engine under a virtual clock. The production ticker and >300 stale messages are not exercised.",
            "5 C09"),
    "C10": ("Lean 4 K1 theorems over translated mapper tables (every field survives create->find on both back ends) + K4 refinement memQuery = "
            "filter/sort/page spec for all well-formed queries + CRUD laws; three-way differential run (memory back end, SQLite, Lean model)",
            "Mapper theorems are complete for the generated tables. memQuery is a hand transcription of collect.rs tied by differential runs; "
            "that SQLite executes the generated SQL as the spec reads it is compared, not proved.", "5 C10"),
    "C14": ("Lean 4 K2 theorems by mutual structural induction over JSON values (fromJs . toJs preserves every value whose integers are <= 2^53) and "
            "over segmented template strings (the scanner finds exactly the n templates) + differential runs through a deployed workflow with real QuickJS "
            "and against the engine's own get_exprs",
            "Theorems are about Model/Value.lean and Model/Tmpl.lean; the branch structure of the conversion (wrap vs widen, integral-double bound) and the "
            "lazy/greedy flag of the regex are regenerated from value.rs/convert.rs on every run. QuickJS and String::replace are compared, not proved.",
            "5 C14"),
    "C18": ("Lean 4 K2 theorems over all strings for the pattern forms of the glob specification (*, literal, prefix*, ?, class, alternation), K1 theorem "
            "on the filter shape read from is_match, K3 lemmas on the keyed handler maps + differential runs against globset and per-channel delivery logs",
            "globset itself is outside the model: Glob.matchToks is its executable specification, compared on generated pattern/string pairs; the "
            "pattern parser of the driver is tested, not proved. `**` and nested alternations are not generated.", "5 C18"),
    "C19": ("Lean 4 K3 theorems over all rule lists, start times and event histories with arbitrary clocks (never early, at most once, within one tick, "
            "not after terminal, firing keeps open) + theorem that the specification monitor accepts every model history; the monitor is evaluated "
            "on the engine's observations under a virtual clock; firing-by-firing correspondence with the model",
            "Model/Timeout.lean transcribes hook.rs/do_tick; its comparison operator, multiplier, unit table and the open-task filter of do_tick are "
            "regenerated from the source. The production ticker and wall-clock time are not exercised.", "5 C19"),
    "C20": ("Lean 4 K2 theorems by mutual structural induction over the whole workflow AST (the builder returns every declared element exactly once in "
            "declaration order; it fails exactly when an id repeats; each catch/timeout list is registered under its own key) + K3 lemmas for deploy "
            "versions and event registration; differential runs: serde JSON/YAML round trips, valid() and the complete node table (all links) against Tree.build",
            "Tree.build is a hand transcription of build.rs/node_tree.rs tied by the node-by-node comparison of every link with the engine's tree on generated "
            "models; serde derive and YAML are compared on the implementation, not modelled; generated (empty) ids are only counted.", "5 C20"),
    "C05": ("Lean 4 K1 theorems over the translated kind rule and guard table (admission sound and complete w.r.t. the property's predicate, terminal acts "
            "reject the seven actions, checks precede writes) + K3 theorem 'serial clients: exactly one accepted' for every n and the interleaving witness; "
            "monitors on the engine: exhaustive action x state x target matrix with before/after dumps, n rendezvoused client threads",
            "The admission function is a transcription of Process::do_action + the arm guards whose tables are regenerated from the source; 'a rejected action "
            "changes nothing' is decided by comparing the engine's dumps and traces, the concurrent clause by a deterministic rendezvous of real client "
            "threads before their first write (not by a model of the OS scheduler).", "5 C05"),
    "C01": ("Lean 4 K2 theorems by mutual structural induction over a reference interpretation of the control-flow fragment (unfinished => an unanswered "
            "interrupt is open; all answered => finished; done is monotone), for all workflows, condition values and answer sets; the Lean progress "
            "monitor is evaluated at every quiescent point of the real engine over generated shapes and queue release orders; three-way correspondence "
            "engine / operational Lean model / reference interpretation",
            "The theorems are about Spec/Ref.lean (no schedule exists in it). That the engine refines it is checked, not proved: the engine's open interrupts and "
            "finished flag are compared with Ref at every quiescent point, and the engine's whole trace with the operational model Model/Op.lean. needs / mixed / "
            "two-else shapes are outside Ref and are decided by the monitor. Schedules are release orders of the parked queue, not interleavings inside one exec.",
            "5 C01"),
    "C04": ("Lean 4 K2 theorems over the reference interpretation (independence of branch declaration order via List.Perm, else runs iff no sibling condition "
            "held, step/act ordering, skipped constructs hand over) for all workflows, condition values and answer sets; the engine is compared with the "
            "interpretation node by node at every quiescent point, across branch permutations, input valuations, release orders and free-running 1..8 worker runs",
            "Determinism and schedule independence are properties of Spec/Ref.lean by construction/proof; that the engine refines it is established by differential "
            "comparison (all permutations and schedules of one (workflow, inputs) must end alike and equal Ref.states), not by an operational proof. needs and "
            "backward next are outside Ref (compared with the operational model only).", "5 C04"),
    "C03": ("Lean 4 theorems: K1 event table (complete xor error, exactly for terminal states), 'a task without catch revive enters a terminal state at most once' for "
            "every legal gap-free trace (ties the one-terminal-event clause to C02), reference-interpretation laws (completed iff everything beneath is done; finished => "
            "nothing open), monitor lemmas; the Lean monitor hierMonitor (engine's own parent relation recomputed from the creation trace) is evaluated on the engine's "
            "creation/transition/event stream and quiescent dumps; stepped runs are compared with the operational model including process events",
            "Hierarchical completion of the engine under parallel composition is decided by the monitor on engine traces (parallel shapes, every action in one branch "
            "while siblings are open, keep_processes on/off), not by an operational proof.", "5 C03"),
    "C06": ("Lean 4 K2 theorems over every catch list and every ancestor chain (first matching catch wins; the nearest open member with an unused matching catch "
            "takes the error, members below are marked, members above untouched; uncaught => all marked; once-flag; non-matching catch is a no-op), K3 over every history of errors (Catch.run: at most one catch per task, none after an error passed through it; a declared matching catch on an open chain takes the error) + K1 on the emit "
            "and hook tables; every error action of generated runs is checked against Catch.bubble evaluated on the engine's own pre-error chain, plus catch-step "
            "multiplicity at the end of the run, a whole-run monitor that no task instance is revived by its catch twice, and whole-run correspondence with the operational model",
            "Catch.bubble is a transcription of emit_error + the catch hook; the tie is the per-error comparison of transitions, revives, started catch steps and error "
            "events with its prediction. That the catching task then completes and the flow continues is carried by the operational model correspondence.", "5 C06"),
    "C08": ("Lean 4 K1 theorems over the translated emit predicate and message-state map (emitted iff not pending/running/disabled and state unchanged by the hooks; "
            "created for the created class, the task's own state for terminal states; every start/ending of an enabled task is announced) + monitor lemmas; the Lean "
            "monitor streamMonitor (multiplicity, created-before-terminal, fields, unique ids, parent-before-child, completeness) runs on the engine's creation / "
            "transition / generation stream; generated messages incl. inputs and outputs are compared with the operational model; deliveries vs generation per op",
            "Multiplicity across operations is decided by the monitor on engine streams over generated runs, not by an operational proof. Generation order is observed at "
            "Emitter::emit_message; cross-task delivery order of independently spawned dispatch tasks is not compared. nanoid collision freedom is trusted.", "5 C08"),
    "C07": ("Lean 4 K3 theorems over every scope chain, key and value on Model/Scope.lean (writer reads its own write; the unique holder receives the value and later "
            "readers whose ancestry reaches it see it; only the holder changes; private keys stay local; W: the outermost holder wins without the uniqueness hypothesis) + K1 on "
            "the private-key constants; the operational model computes every write and read with these very functions and is compared with the engine on the data of every "
            "task, on message inputs/outputs and on terminal-event outputs; direct monitors on before/after dumps (frame, holder update, option cut, cross-process)",
            "The Scope functions are a transcription of find/update_data/set_data; the tie is differential (every task's data after every operation). `code` scripts and "
            "{{template}} readers are outside this fragment (C14). The generator keeps each name declared by at most one enclosing scope, as the property quantifies.", "5 C07"),
    "C11": ("Lean 4 K1 theorems over translated tables (the task event writes the row before hooks and message; task and process rows have a column for every compared "
            "item; both back ends keep every column; every known write site outside a task event is followed by its row write) and the K3 write-through theorem "
            "(persisted writes keep store = live over any sequence; an unpersisted write lags) + differential monitor: the live process (dump without reload) against the stored procs/tasks rows after every operation "
            "of generated runs, on the in-memory and the SQLite back end",
            "Proved: what a row can hold, the order inside the task event, and that the listed write sites persist (the list is read from the source). That the list of sites is "
            "complete is a whole-program fact decided by the image comparison on the engine, not proved. `$params` (a recomputable memo) is excluded.", "5 C11"),
    "C12": ("Lean 4 K1 theorems over translated tables (everything the scheduler reads of a task/process is written by into_data, has a column, and is read back by "
            "load_tasks/load_proc; nodes are re-bound by id) + run-pair monitor: the same scenario uninterrupted and with 1-5 evictions (memory store) or engine restarts on "
            "the same SQLite file at quiescent points; action results, messages, events, creations, transitions, task data/outcomes/prev/hooks compared op by op",
            "Observational equivalence of the continued run is decided on the engine, not proved; the theorems only rule out a field that cannot survive. Cuts are taken at "
            "quiescent points with an empty queue; timeouts, generated acts and sub-processes are not in these workloads (C15/C16/C19 cover them without cuts).", "5 C12"),
    "C13": ("Lean 4 K3 theorems (the projection of any interleaving of a product of per-process machines onto one pid is that process's solo run; schedule independence; "
            "untouched processes keep their state; a write-through cache with arbitrary evictions is transparent, and the hypothesis is needed; second start refused) + "
            "projection monitor: crowds of 2..64 concurrently started and concurrently answered processes, cache capacity 1..1024, 1..8 worker threads, both back ends, "
            "each process's message multiset / events / action results / final rows compared with the same process run alone",
            "That the engine is a product of per-process machines behind a write-through cache is exactly what the projections test; thread-level atomicity is outside the "
            "model. Workloads are schedule-independent by construction (conditions read start inputs, every act writes names of its own) because a process whose parallel "
            "branches race on one variable has no single solo outcome to compare with.", "5 C13"),
    "C15": ("Lean 4 K1 theorems on the translated return table (child state -> action -> state written on the calling act) and K3 theorems on the abstract call/return "
            "machine over arbitrary event sequences (a closed call has an ended child and carries the mapped state; closed once; a parent that waits for its calls is "
            "done only after every child) + monitors on generated parent/child/grandchild runs: child inputs vs call options, call state/outputs/error vs child ending, "
            "single terminal transition of the call, order of terminal transitions of caller and child, missing model, progress",
            "That the engine refines the machine is decided by the monitors; in particular the machine's parent ends only through its acts, while the engine lets a "
            "client error/abort end the caller under a running child (recorded finding).", "5 C15"),
    "C16": ("Lean 4 K3 theorems on the expansion (one group per element, every act of group k carries index k and element k, list order), on the abstract scheduling of "
            "groups (parallel opens all, a sequence opens k+1 only when 0..k are done, never two groups in progress, complete iff all done, empty list completes, "
            "incomplete => some group active) and on hook dispatch (a hook fires once per event of its class, never otherwise; count over any event list), K1 tables "
            "translated from parallel/sequence/block/dispatch_acts/Push + monitors on generated runs: $index/$value multiset, order and round of the generated acts, "
            "generator completion after its descendants, hook messages against lifecycle events read off the transitions, tasks created by a push",
            "That the engine's generators and hooks refine these models is decided by the monitors. Which event classes reach which hooks is the engine's own table "
            "(run_hooks), so a hook `on: before_update` attached to an act has no matching event. Hooks that strand their task are a C01 finding.", "5 C16"),
    "C17": ("Lean 4 K3 theorems on the row model (removeProc deletes exactly the task and process rows of that pid and no message; removals commute; removal iff "
            "!keep_processes from the translated rule; actions on a removed process are refused first; rm_model removes exactly its events; no orphan rows over any "
            "history; the run-time predicate `retentionCheck` implies the theorem's predicates) + that Lean predicate evaluated on the rows of "
            "all collections after every operation of interleaved workloads, both keep settings, both back ends",
            "That the back ends' `pid =` query selects exactly the pid's rows rests on the C10 query theorem and differential runs. 'Finished' is the delivery of the "
            "complete/error event on the default channel.", "5 C17"),
}

NOT_YET = {}


def main():
    props = [json.loads(l) for l in open(os.path.join(ROOT, "properties.jsonl"))]
    ids = [p["id"] for p in props]
    checks = []
    for pid in ids:
        if pid not in CHECKS:
            continue
        tech, note, ref = CHECKS[pid]
        checks.append({
            "property_id": pid,
            "quick_cmd": f"python3 tools/check.py {pid} --tier quick",
            "thorough_cmd": f"python3 tools/check.py {pid} --tier thorough",
            "evidence_file": f"/verif/evidence/{pid}.json",
            "replay_cmd_template": f"python3 tools/check.py {pid} --replay {{path}}",
            "engine": "lean-proof+correspondence",
            "level_claimed": {"category": "proof", "text": tech, "design_ref": f"DESIGN.md section 0.2 (as built) and section {ref} (plan)"},
            "level_note": note,
            "technique": "machine-checked proof in Lean 4 (kernel-checked theorems over a model tied to the source by translator + differential correspondence)",
        })
    na = [{"property_id": pid, "reason": NOT_YET.get(pid, "check under construction in this round: not claimed until its theorems and tie are in place (see DESIGN.md section 5)")}
          for pid in ids if pid not in CHECKS]
    m = {
        "version": 1,
        "setup_cmd": "sh tools/setup.sh",
        "hooks": {
            "guard": "cargo feature `verif` of crate acts",
            "enable": "the harness crate depends on acts with features=[\"verif\"] (cargo build in /verif/harness)",
            "baseline_off_cmd": "sh /verif/tools/run_baseline.sh",
            "source_commits": ["1285869", "e49c3f8", "18f7425", "98dee9d", "ee35ac3", "f44d26b", "141b43f", "a5020e8"],
            "add_only": True,
        },
        "engines": [{"name": "lean-proof+correspondence", "path": "tools/check.py",
                     "serves_properties": [c["property_id"] for c in checks],
                     "kind_free_text": "Lean 4 theorems (lake project lean/ActsModel) + translator tools/translate.py + Rust harness harness/ + compiled Lean driver"}],
        "checks": checks,
        "not_applicable": na,
        "notes": "see DESIGN.md; known findings in findings/known_findings.jsonl",
    }
    with open(os.path.join(ROOT, "MANIFEST.json"), "w") as f:
        json.dump(m, f, indent=1)
    print("checks:", [c["property_id"] for c in checks])


if __name__ == "__main__":
    main()
