/-!
Executable specification of the glob patterns a channel uses (`globset` with default options:
`*` and `?` match any character including `/`, classes `[a-z]` / `[!a]`, one level of `{a,b}`
alternation, `\` escapes). Import-free.
-/
namespace Acts.Glob

/-- flat tokens -/
inductive FTok where
  | lit (c : Char)
  | any                      -- ?
  | star                     -- *
  | cls (neg : Bool) (ranges : List (Char × Char))
  deriving Repr, DecidableEq

/-- tokens with one level of alternation -/
inductive Tok where
  | flat (t : FTok)
  | alt (alts : List (List FTok))
  deriving Repr

def inRanges (c : Char) (rs : List (Char × Char)) : Bool := rs.any fun (lo, hi) => decide (lo ≤ c) && decide (c ≤ hi)

/-- `f` holds for some suffix of `s` (what `*` consumes is the prefix) -/
def starLoop (f : List Char → Bool) : List Char → Bool
  | [] => f []
  | c :: s => f (c :: s) || starLoop f s

def matchFlat : List FTok → List Char → Bool
  | [], s => s.isEmpty
  | .lit c :: ts, s => match s with
    | d :: s' => c == d && matchFlat ts s'
    | [] => false
  | .any :: ts, s => match s with
    | _ :: s' => matchFlat ts s'
    | [] => false
  | .cls neg rs :: ts, s => match s with
    | d :: s' => (inRanges d rs != neg) && matchFlat ts s'
    | [] => false
  | .star :: ts, s => starLoop (matchFlat ts) s

/-- all flat patterns an alternation pattern stands for -/
def expand : List Tok → List (List FTok)
  | [] => [[]]
  | .flat t :: ts => (expand ts).map (t :: ·)
  | .alt alts :: ts => alts.flatMap fun a => (expand ts).map (a ++ ·)

def matchToks (p : List Tok) (s : List Char) : Bool := (expand p).any (matchFlat · s)

end Acts.Glob
