/-!
In-memory collection of `acts/src/store/db/mem/collect.rs` and the abstract query semantics
(filter ∘ sort ∘ page) that the SQL back end implements. Import-free.
-/
namespace Acts.Store

inductive Val where
  | null
  | bool (b : Bool)
  | int (z : Int)
  | str (s : String)
  deriving DecidableEq, Repr, Inhabited

/-- a stored document: field name ↦ value (the field `id` is the key) -/
structure Row where
  id : String
  fields : List (String × Val)
  deriving DecidableEq, Repr, Inhabited

def Row.get (r : Row) (k : String) : Option Val := r.fields.lookup k

inductive Op where | eq | ne | lt | le | gt | ge
  deriving DecidableEq, Repr

structure Expr where
  op : Op
  key : String
  value : Val
  deriving Repr

structure Cond where
  isAnd : Bool
  exprs : List Expr
  deriving Repr

structure Query where
  conds : List Cond
  order : List (String × Bool)   -- (key, descending)
  offset : Nat
  limit : Nat
  deriving Repr

/-- `Query::limit()`: 0 means 50 -/
def Query.lim (q : Query) : Nat := if q.limit = 0 then 50 else q.limit

/-- `Expr::op`: equality is JSON equality, the four orderings hold only between two numbers -/
def Op.eval (o : Op) (l r : Val) : Bool :=
  match o, l, r with
  | .eq, l, r => l == r
  | .ne, l, r => l != r
  | .lt, .int a, .int b => a < b
  | .le, .int a, .int b => a ≤ b
  | .gt, .int a, .int b => a > b
  | .ge, .int a, .int b => a ≥ b
  | _, _, _ => false

def Expr.holds (e : Expr) (r : Row) : Bool :=
  match r.get e.key with
  | some v => e.op.eval v e.value
  | none => false

/-- a query names only keys that every document has (otherwise both back ends answer with an error) -/
def keysPresent (db : List Row) (q : Query) : Bool :=
  q.conds.all fun c => c.exprs.all fun e => db.all fun r => (r.get e.key).isSome

-- ------------------------------------------------------------------ abstract semantics

def Cond.holds (c : Cond) (r : Row) : Bool :=
  if c.isAnd then c.exprs.all (·.holds r) else c.exprs.any (·.holds r)

/-- a record satisfies the filter iff it satisfies every group -/
def Query.holds (q : Query) (r : Row) : Bool := q.conds.all (·.holds r)

def specFilter (db : List Row) (q : Query) : List Row := db.filter q.holds

-- ------------------------------------------------------------------ the in-memory evaluation (collect.rs)

/-- ids of the documents an expression selects (`result` of the inner loop) -/
def exprSet (db : List Row) (e : Expr) : List String := (db.filter e.holds).map (·.id)

/-- accumulation over the expressions of one group: the first result initialises, later ones
intersect (AND) or unite (OR) -/
def condSet (db : List Row) (c : Cond) : List String :=
  match c.exprs with
  | [] => []
  | e :: es =>
    es.foldl (fun acc e' =>
      let v := exprSet db e'
      if c.isAnd then acc.filter (v.contains ·) else acc ++ v) (exprSet db e)

/-- `Query::calc`: the first group initialises, later groups intersect -/
def querySet (db : List Row) (q : Query) : List String :=
  match q.conds with
  | [] => []
  | c :: cs => cs.foldl (fun acc c' => acc.filter ((condSet db c').contains ·)) (condSet db c)

def memFilter (db : List Row) (q : Query) : List Row :=
  if q.conds.isEmpty then db else db.filter fun r => (querySet db q).contains r.id

-- ------------------------------------------------------------------ ordering and paging

/-- typed comparison of two stored values: null first, then booleans, numbers numerically, strings bytewise -/
def Val.rank : Val → Nat
  | .null => 0 | .bool _ => 1 | .int _ => 2 | .str _ => 3

def Val.cmp (a b : Val) : Ordering :=
  match a, b with
  | .int x, .int y => compare x y
  | .str x, .str y => compare x y
  | .bool x, .bool y => compare x.toNat y.toNat
  | a, b => compare a.rank b.rank

def cmpKeys : List (String × Bool) → Row → Row → Ordering
  | [], _, _ => .eq
  | (k, desc) :: ks, a, b =>
    let va := (a.get k).getD .null
    let vb := (b.get k).getD .null
    let o := if desc then Val.cmp vb va else Val.cmp va vb
    match o with
    | .eq => cmpKeys ks a b
    | o => o

def rowLe (order : List (String × Bool)) (a b : Row) : Bool := cmpKeys order a b != .gt

def sortRows (order : List (String × Bool)) (rows : List Row) : List Row :=
  if order.isEmpty then rows else rows.mergeSort (rowLe order)

structure Page where
  count : Nat
  pageSize : Nat
  pageNum : Nat
  pageCount : Nat
  rows : List Row
  deriving Repr

def page (q : Query) (rows : List Row) : Page :=
  { count := rows.length, pageSize := q.lim, pageNum := q.offset / q.lim + 1,
    pageCount := (rows.length + q.lim - 1) / q.lim, rows := (rows.drop q.offset).take q.lim }

def specQuery (db : List Row) (q : Query) : Page := page q (sortRows q.order (specFilter db q))
def memQuery (db : List Row) (q : Query) : Page := page q (sortRows q.order (memFilter db q))

-- ------------------------------------------------------------------ CRUD (BTreeMap keyed by id)

def find (db : List Row) (id : String) : Option Row := db.find? (·.id == id)

def insertSorted (r : Row) : List Row → List Row
  | [] => [r]
  | x :: xs => if r.id < x.id then r :: x :: xs else if r.id == x.id then r :: xs else x :: insertSorted r xs

/-- `create`: insert (an existing key is replaced, as `BTreeMap::insert` does) -/
def create (db : List Row) (r : Row) : List Row := insertSorted r db

/-- `update`: replace the document of an existing key, nothing otherwise -/
def update (db : List Row) (r : Row) : List Row := db.map fun x => if x.id == r.id then r else x

def delete (db : List Row) (id : String) : List Row := db.filter (·.id != id)

end Acts.Store
