import ActsModel.Model.Tree

namespace Acts.Tree
open Acts

/-! declared ids in the order the builder visits them (a step with an explicit `next` does not get its branches built) -/
mutual
def idsStep : Step → List String
  | .mk sid _ _ _ sNext _ _ sBranches sActs sCatches sTimeouts _ =>
    sid :: ((if sNext.isNone then idsBranches sBranches else []) ++ idsActs sActs ++ idsCatches sCatches ++ idsTimeouts sTimeouts)
def idsSteps : List Step → List String
  | [] => []
  | s :: rest => idsStep s ++ idsSteps rest
def idsBranch : Branch → List String
  | .mk bid _ _ _ _ _ _ _ bSteps => bid :: idsSteps bSteps
def idsBranches : List Branch → List String
  | [] => []
  | b :: rest => idsBranch b ++ idsBranches rest
def idsAct : Act → List String
  | .mk aid _ _ _ _ _ _ _ _ _ _ _ aCatches aTimeouts => aid :: (idsCatches aCatches ++ idsTimeouts aTimeouts)
def idsActs : List Act → List String
  | [] => []
  | a :: rest => idsAct a ++ idsActs rest
def idsCatch : Catch → List String
  | .mk _ cSteps => idsSteps cSteps
def idsCatches : List Catch → List String
  | [] => []
  | c :: rest => idsCatch c ++ idsCatches rest
def idsTimeout : Timeout → List String
  | .mk _ tSteps => idsSteps tSteps
def idsTimeouts : List Timeout → List String
  | [] => []
  | t :: rest => idsTimeout t ++ idsTimeouts rest
end

/-- what a successful build returns: the nodes carry exactly the declared ids, in visiting order, and the set of
built ids grows by exactly them -/
def Good (ids : List String) (built : Built) (r : Except BuildErr (List Node × Built)) : Prop :=
  ∀ nodes built', r = .ok (nodes, built') → nodes.map (·.id) = ids ∧ built' = built ++ ids

mutual
theorem buildStep_ids (parent : String) (level : Nat) (isFirst : Bool) (prevId nextSibling : Option String)
    (built : Built) (s : Step) : Good (idsStep s) built (buildStep parent level isFirst prevId nextSibling built s) := by
  cases s with
  | mk sid sname stag scond sNext sin sout sBranches sActs sCatches sTimeouts ssetup =>
    intro nodes built' h
    simp only [buildStep] at h
    split at h
    · cases h
    · have hB : Good (if sNext.isNone then idsBranches sBranches else []) (built ++ [sid])
          (if sNext.isNone then buildBranches sid (level + 1) (built ++ [sid]) sBranches else .ok ([], built ++ [sid])) := by
        split
        · exact buildBranches_ids sid (level + 1) (built ++ [sid]) sBranches
        · intro n b hb; cases hb; simp
      split at h
      · cases h
      · rename_i bn built2 hbr
        obtain ⟨hb1, hb2⟩ := hB bn built2 hbr
        split at h
        · cases h
        · rename_i an built3 har
          obtain ⟨ha1, ha2⟩ := buildActs_ids sid (level + 1) true none built2 sActs an built3 har
          split at h
          · cases h
          · rename_i cn built4 hcr
            obtain ⟨hc1, hc2⟩ := buildCatches_ids sid (level + 1) built3 sCatches cn built4 hcr
            split at h
            · cases h
            · rename_i tn built5 htr
              obtain ⟨ht1, ht2⟩ := buildTimeouts_ids sid (level + 1) built4 sTimeouts tn built5 htr
              cases h
              simp only [idsStep, List.map_cons, List.map_append, hb1, ha1, hc1, ht1]
              refine ⟨by simp [List.append_assoc], ?_⟩
              rw [ht2, hc2, ha2, hb2]; simp [List.append_assoc]
theorem buildSteps_ids (parent : String) (level : Nat) (isFirst : Bool) (prevId : Option String) (built : Built)
    (ss : List Step) : Good (idsSteps ss) built (buildSteps parent level isFirst prevId built ss) := by
  cases ss with
  | nil => intro n b h; simp [buildSteps] at h; obtain ⟨rfl, rfl⟩ := h; simp [idsSteps]
  | cons s rest =>
    intro nodes built' h
    simp only [buildSteps] at h
    split at h
    · cases h
    · rename_i sn built1 hs
      obtain ⟨h1, h2⟩ := buildStep_ids parent level isFirst prevId _ built s sn built1 hs
      split at h
      · cases h
      · rename_i rn built2 hr
        obtain ⟨h3, h4⟩ := buildSteps_ids parent level false (some s.id) built1 rest rn built2 hr
        cases h
        simp only [idsSteps, List.map_append, h1, h3]
        exact ⟨by first | trivial | rfl, by rw [h4, h2]; simp [List.append_assoc]⟩
theorem buildBranch_ids (parent : String) (level : Nat) (built : Built) (b : Branch) :
    Good (idsBranch b) built (buildBranch parent level built b) := by
  cases b with
  | mk bid bname btag bcond belse bneeds bin bout bSteps =>
    intro nodes built' h
    simp only [buildBranch] at h
    split at h
    · cases h
    · split at h
      · cases h
      · rename_i sn built2 hs
        obtain ⟨h1, h2⟩ := buildSteps_ids bid (level + 1) true none (built ++ [bid]) bSteps sn built2 hs
        cases h
        simp only [idsBranch, List.map_cons, h1]
        exact ⟨by first | trivial | rfl, by rw [h2]; simp [List.append_assoc]⟩
theorem buildBranches_ids (parent : String) (level : Nat) (built : Built) (bs : List Branch) :
    Good (idsBranches bs) built (buildBranches parent level built bs) := by
  cases bs with
  | nil => intro n b h; simp [buildBranches] at h; obtain ⟨rfl, rfl⟩ := h; simp [idsBranches]
  | cons b rest =>
    intro nodes built' h
    simp only [buildBranches] at h
    split at h
    · cases h
    · rename_i bn built1 hb
      obtain ⟨h1, h2⟩ := buildBranch_ids parent level built b bn built1 hb
      split at h
      · cases h
      · rename_i rn built2 hr
        obtain ⟨h3, h4⟩ := buildBranches_ids parent level built1 rest rn built2 hr
        cases h
        simp only [idsBranches, List.map_append, h1, h3]
        exact ⟨by first | trivial | rfl, by rw [h4, h2]; simp [List.append_assoc]⟩
theorem buildAct_ids (parent : String) (level : Nat) (isFirst : Bool) (prevId nextSibling : Option String)
    (built : Built) (a : Act) : Good (idsAct a) built (buildAct parent level isFirst prevId nextSibling built a) := by
  cases a with
  | mk aid aname atag akey auses acond aon aparams aopts ain aout asetup aCatches aTimeouts =>
    intro nodes built' h
    simp only [buildAct] at h
    split at h
    · cases h
    · split at h
      · cases h
      · rename_i cn built2 hc
        obtain ⟨hc1, hc2⟩ := buildCatches_ids aid (level + 1) (built ++ [aid]) aCatches cn built2 hc
        split at h
        · cases h
        · rename_i tn built3 ht
          obtain ⟨ht1, ht2⟩ := buildTimeouts_ids aid (level + 1) built2 aTimeouts tn built3 ht
          cases h
          simp only [idsAct, List.map_cons, List.map_append, hc1, ht1]
          exact ⟨by first | trivial | rfl, by rw [ht2, hc2]; simp [List.append_assoc]⟩
theorem buildActs_ids (parent : String) (level : Nat) (isFirst : Bool) (prevId : Option String) (built : Built)
    (as : List Act) : Good (idsActs as) built (buildActs parent level isFirst prevId built as) := by
  cases as with
  | nil => intro n b h; simp [buildActs] at h; obtain ⟨rfl, rfl⟩ := h; simp [idsActs]
  | cons a rest =>
    intro nodes built' h
    simp only [buildActs] at h
    split at h
    · cases h
    · rename_i an built1 ha
      obtain ⟨h1, h2⟩ := buildAct_ids parent level isFirst prevId _ built a an built1 ha
      split at h
      · cases h
      · rename_i rn built2 hr
        obtain ⟨h3, h4⟩ := buildActs_ids parent level false (some a.id) built1 rest rn built2 hr
        cases h
        simp only [idsActs, List.map_append, h1, h3]
        exact ⟨by first | trivial | rfl, by rw [h4, h2]; simp [List.append_assoc]⟩
theorem buildCatch_ids (owner : String) (level : Nat) (built : Built) (c : Catch) :
    Good (idsCatch c) built (buildCatch owner level built c) := by
  cases c with
  | mk on cSteps => simp only [buildCatch, idsCatch]; exact buildSteps_ids owner level true none built cSteps
theorem buildCatches_ids (owner : String) (level : Nat) (built : Built) (cs : List Catch) :
    Good (idsCatches cs) built (buildCatches owner level built cs) := by
  cases cs with
  | nil => intro n b h; simp [buildCatches] at h; obtain ⟨rfl, rfl⟩ := h; simp [idsCatches]
  | cons c rest =>
    intro nodes built' h
    simp only [buildCatches] at h
    split at h
    · cases h
    · rename_i sn built1 hs
      obtain ⟨h1, h2⟩ := buildCatch_ids owner level built c sn built1 hs
      split at h
      · cases h
      · rename_i rn built2 hr
        obtain ⟨h3, h4⟩ := buildCatches_ids owner level built1 rest rn built2 hr
        cases h
        simp only [idsCatches, List.map_append, h1, h3]
        exact ⟨by first | trivial | rfl, by rw [h4, h2]; simp [List.append_assoc]⟩
theorem buildTimeout_ids (owner : String) (level : Nat) (built : Built) (t : Timeout) :
    Good (idsTimeout t) built (buildTimeout owner level built t) := by
  cases t with
  | mk on tSteps => simp only [buildTimeout, idsTimeout]; exact buildSteps_ids owner level true none built tSteps
theorem buildTimeouts_ids (owner : String) (level : Nat) (built : Built) (ts : List Timeout) :
    Good (idsTimeouts ts) built (buildTimeouts owner level built ts) := by
  cases ts with
  | nil => intro n b h; simp [buildTimeouts] at h; obtain ⟨rfl, rfl⟩ := h; simp [idsTimeouts]
  | cons t rest =>
    intro nodes built' h
    simp only [buildTimeouts] at h
    split at h
    · cases h
    · rename_i sn built1 hs
      obtain ⟨h1, h2⟩ := buildTimeout_ids owner level built t sn built1 hs
      split at h
      · cases h
      · rename_i rn built2 hr
        obtain ⟨h3, h4⟩ := buildTimeouts_ids owner level built1 rest rn built2 hr
        cases h
        simp only [idsTimeouts, List.map_append, h1, h3]
        exact ⟨by first | trivial | rfl, by rw [h4, h2]; simp [List.append_assoc]⟩
end

end Acts.Tree

namespace Acts.Tree
open Acts

/-- the id bookkeeping of `NodeTree::make` in isolation -/
def checkIds : Built → List String → Except BuildErr Built
  | b, [] => .ok b
  | b, id :: ids => if b.contains id then .error (.dup id) else checkIds (b ++ [id]) ids

def sndOf (r : Except BuildErr (List Node × Built)) : Except BuildErr Built :=
  match r with
  | .ok (_, b) => .ok b
  | .error e => .error e

def bindB (r : Except BuildErr Built) (f : Built → Except BuildErr Built) : Except BuildErr Built :=
  match r with
  | .ok b => f b
  | .error e => .error e

theorem checkIds_append (xs ys : List String) : ∀ b, checkIds b (xs ++ ys) = bindB (checkIds b xs) (fun b1 => checkIds b1 ys) := by
  induction xs with
  | nil => intro b; simp [checkIds, bindB]
  | cons x xs ih =>
    intro b
    simp only [List.cons_append, checkIds]
    split
    · simp [bindB]
    · exact ih _

/-- a successful check appends the ids; it succeeds exactly when no id repeats -/
theorem checkIds_ok_iff (ids : List String) : ∀ b, b.Nodup →
    ((checkIds b ids = .ok (b ++ ids)) ↔ (b ++ ids).Nodup) ∧
    (∀ b', checkIds b ids = .ok b' → b' = b ++ ids) ∧
    (∀ e, checkIds b ids = .error e → ∃ id ∈ ids, e = .dup id) := by
  induction ids with
  | nil => intro b hb; simp [checkIds, hb]
  | cons x xs ih =>
    intro b hb
    simp only [checkIds]
    by_cases hx : b.contains x = true
    · simp only [hx, ↓reduceIte]
      refine ⟨⟨fun h => (by cases h), fun h => ?_⟩, fun b' h => (by cases h), fun e h => ⟨x, List.mem_cons_self .., (by cases h; rfl)⟩⟩
      exfalso
      have hm : x ∈ b := by simpa using hx
      rw [List.nodup_append] at h
      exact h.2.2 x hm x (List.mem_cons_self ..) rfl
    · have hx' : x ∉ b := by simpa using hx
      simp only [hx, Bool.false_eq_true, ↓reduceIte]
      have hb1 : (b ++ [x]).Nodup := by
        rw [List.nodup_append]; refine ⟨hb, by simp, ?_⟩
        intro a ha c hc hac; simp at hc; subst hc; subst hac; exact hx' ha
      obtain ⟨i1, i2, i3⟩ := ih (b ++ [x]) hb1
      have hassoc : b ++ [x] ++ xs = b ++ x :: xs := by simp
      refine ⟨?_, ?_, ?_⟩
      · rw [← hassoc]; exact i1
      · intro b' h; rw [← hassoc]; exact i2 b' h
      · intro e h; obtain ⟨id, hid, he⟩ := i3 e h; exact ⟨id, List.mem_cons_of_mem _ hid, he⟩

theorem sndOf_ok {r : Except BuildErr (List Node × Built)} {n : List Node} {b : Built} (h : r = .ok (n, b)) : sndOf r = .ok b := by
  subst h; rfl
theorem sndOf_error {r : Except BuildErr (List Node × Built)} {e : BuildErr} (h : r = .error e) : sndOf r = .error e := by
  subst h; rfl

mutual
theorem buildStep_check (parent : String) (level : Nat) (isFirst : Bool) (prevId nextSibling : Option String)
    (built : Built) (s : Step) :
    sndOf (buildStep parent level isFirst prevId nextSibling built s) = checkIds built (idsStep s) := by
  cases s with
  | mk sid sname stag scond sNext sin sout sBranches sActs sCatches sTimeouts ssetup =>
    simp only [buildStep, idsStep, checkIds]
    split
    · rfl
    · rw [checkIds_append, checkIds_append, checkIds_append]
      have hB : sndOf (if sNext.isNone then buildBranches sid (level + 1) (built ++ [sid]) sBranches else .ok ([], built ++ [sid]))
          = checkIds (built ++ [sid]) (if sNext.isNone then idsBranches sBranches else []) := by
        split
        · exact buildBranches_check sid (level + 1) (built ++ [sid]) sBranches
        · simp [sndOf, checkIds]
      rw [← hB]
      split
      · rename_i e he; rw [sndOf_error he]; simp [sndOf, bindB]
      · rename_i bn built2 hbr
        rw [sndOf_ok hbr]; simp only [bindB]
        rw [← buildActs_check sid (level + 1) true none built2 sActs]
        split
        · rename_i e he; rw [sndOf_error he]; simp [sndOf, bindB]
        · rename_i an built3 har
          rw [sndOf_ok har]; simp only [bindB]
          rw [← buildCatches_check sid (level + 1) built3 sCatches]
          split
          · rename_i e he; rw [sndOf_error he]; simp [sndOf, bindB]
          · rename_i cn built4 hcr
            rw [sndOf_ok hcr]; simp only [bindB]
            rw [← buildTimeouts_check sid (level + 1) built4 sTimeouts]
            split
            · rename_i e he; rw [sndOf_error he]; simp [sndOf]
            · rename_i tn built5 htr
              rw [sndOf_ok htr]; simp [sndOf]
theorem buildSteps_check (parent : String) (level : Nat) (isFirst : Bool) (prevId : Option String) (built : Built)
    (ss : List Step) : sndOf (buildSteps parent level isFirst prevId built ss) = checkIds built (idsSteps ss) := by
  cases ss with
  | nil => simp [buildSteps, idsSteps, checkIds, sndOf]
  | cons s rest =>
    simp only [buildSteps, idsSteps]
    rw [checkIds_append, ← buildStep_check parent level isFirst prevId (rest.head?.map (·.id)) built s]
    split
    · rename_i e he; rw [sndOf_error he]; simp [sndOf, bindB]
    · rename_i sn built1 hs
      rw [sndOf_ok hs]; simp only [bindB]
      rw [← buildSteps_check parent level false (some s.id) built1 rest]
      split
      · rename_i e he; rw [sndOf_error he]; simp [sndOf]
      · rename_i rn built2 hr; rw [sndOf_ok hr]; simp [sndOf]
theorem buildBranch_check (parent : String) (level : Nat) (built : Built) (b : Branch) :
    sndOf (buildBranch parent level built b) = checkIds built (idsBranch b) := by
  cases b with
  | mk bid bname btag bcond belse bneeds bin bout bSteps =>
    simp only [buildBranch, idsBranch, checkIds]
    split
    · rfl
    · rw [← buildSteps_check bid (level + 1) true none (built ++ [bid]) bSteps]
      split
      · rename_i e he; rw [sndOf_error he]; simp [sndOf]
      · rename_i sn built2 hs; rw [sndOf_ok hs]; simp [sndOf]
theorem buildBranches_check (parent : String) (level : Nat) (built : Built) (bs : List Branch) :
    sndOf (buildBranches parent level built bs) = checkIds built (idsBranches bs) := by
  cases bs with
  | nil => simp [buildBranches, idsBranches, checkIds, sndOf]
  | cons b rest =>
    simp only [buildBranches, idsBranches]
    rw [checkIds_append, ← buildBranch_check parent level built b]
    split
    · rename_i e he; rw [sndOf_error he]; simp [sndOf, bindB]
    · rename_i bn built1 hb
      rw [sndOf_ok hb]; simp only [bindB]
      rw [← buildBranches_check parent level built1 rest]
      split
      · rename_i e he; rw [sndOf_error he]; simp [sndOf]
      · rename_i rn built2 hr; rw [sndOf_ok hr]; simp [sndOf]
theorem buildAct_check (parent : String) (level : Nat) (isFirst : Bool) (prevId nextSibling : Option String)
    (built : Built) (a : Act) :
    sndOf (buildAct parent level isFirst prevId nextSibling built a) = checkIds built (idsAct a) := by
  cases a with
  | mk aid aname atag akey auses acond aon aparams aopts ain aout asetup aCatches aTimeouts =>
    simp only [buildAct, idsAct, checkIds]
    split
    · rfl
    · rw [checkIds_append, ← buildCatches_check aid (level + 1) (built ++ [aid]) aCatches]
      split
      · rename_i e he; rw [sndOf_error he]; simp [sndOf, bindB]
      · rename_i cn built2 hc
        rw [sndOf_ok hc]; simp only [bindB]
        rw [← buildTimeouts_check aid (level + 1) built2 aTimeouts]
        split
        · rename_i e he; rw [sndOf_error he]; simp [sndOf]
        · rename_i tn built3 ht; rw [sndOf_ok ht]; simp [sndOf]
theorem buildActs_check (parent : String) (level : Nat) (isFirst : Bool) (prevId : Option String) (built : Built)
    (as : List Act) : sndOf (buildActs parent level isFirst prevId built as) = checkIds built (idsActs as) := by
  cases as with
  | nil => simp [buildActs, idsActs, checkIds, sndOf]
  | cons a rest =>
    simp only [buildActs, idsActs]
    rw [checkIds_append, ← buildAct_check parent level isFirst prevId (rest.head?.map (·.id)) built a]
    split
    · rename_i e he; rw [sndOf_error he]; simp [sndOf, bindB]
    · rename_i an built1 ha
      rw [sndOf_ok ha]; simp only [bindB]
      rw [← buildActs_check parent level false (some a.id) built1 rest]
      split
      · rename_i e he; rw [sndOf_error he]; simp [sndOf]
      · rename_i rn built2 hr; rw [sndOf_ok hr]; simp [sndOf]
theorem buildCatch_check (owner : String) (level : Nat) (built : Built) (c : Catch) :
    sndOf (buildCatch owner level built c) = checkIds built (idsCatch c) := by
  cases c with
  | mk on cSteps => simp only [buildCatch, idsCatch]; exact buildSteps_check owner level true none built cSteps
theorem buildCatches_check (owner : String) (level : Nat) (built : Built) (cs : List Catch) :
    sndOf (buildCatches owner level built cs) = checkIds built (idsCatches cs) := by
  cases cs with
  | nil => simp [buildCatches, idsCatches, checkIds, sndOf]
  | cons c rest =>
    simp only [buildCatches, idsCatches]
    rw [checkIds_append, ← buildCatch_check owner level built c]
    split
    · rename_i e he; rw [sndOf_error he]; simp [sndOf, bindB]
    · rename_i sn built1 hs
      rw [sndOf_ok hs]; simp only [bindB]
      rw [← buildCatches_check owner level built1 rest]
      split
      · rename_i e he; rw [sndOf_error he]; simp [sndOf]
      · rename_i rn built2 hr; rw [sndOf_ok hr]; simp [sndOf]
theorem buildTimeout_check (owner : String) (level : Nat) (built : Built) (t : Timeout) :
    sndOf (buildTimeout owner level built t) = checkIds built (idsTimeout t) := by
  cases t with
  | mk on tSteps => simp only [buildTimeout, idsTimeout]; exact buildSteps_check owner level true none built tSteps
theorem buildTimeouts_check (owner : String) (level : Nat) (built : Built) (ts : List Timeout) :
    sndOf (buildTimeouts owner level built ts) = checkIds built (idsTimeouts ts) := by
  cases ts with
  | nil => simp [buildTimeouts, idsTimeouts, checkIds, sndOf]
  | cons t rest =>
    simp only [buildTimeouts, idsTimeouts]
    rw [checkIds_append, ← buildTimeout_check owner level built t]
    split
    · rename_i e he; rw [sndOf_error he]; simp [sndOf, bindB]
    · rename_i sn built1 hs
      rw [sndOf_ok hs]; simp only [bindB]
      rw [← buildTimeouts_check owner level built1 rest]
      split
      · rename_i e he; rw [sndOf_error he]; simp [sndOf]
      · rename_i rn built2 hr; rw [sndOf_ok hr]; simp [sndOf]
end

end Acts.Tree
