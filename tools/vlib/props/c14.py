"""C14 — script boundary keeps values intact; templates substitute every expression"""
import json

from .. import gen
from ..core import obs_of
from ..rng import Rng

ASSUMPTIONS = [
    "QuickJS evaluates `{{ x }}` / global variables / return values as JavaScript says (trusted runtime, compared)",
    "IEEE-754: an integer with |z| <= 2^53 converts to a double exactly",
    "templates of the differential run are variable names; literals and expressions are free of braces and newlines (the theorem's WF class), "
    "a separate stream compares the scanner with the regex crate on arbitrary brace/newline strings",
]

FLOATS = [1.5, -0.25, 3.14159, 1e-7, 2.5e10 + 0.5, -123456.789, 1e-17, -3.5e-20, 5e-324, 2.0 ** -60, -1e-300, 0.1 + 0.2, 123456789.125,
          4.9e-320, 1.0000000000000002, -0.5, 1e-300, 1048576.0000000002]
INTS = [0, 1, -1, 7, 2 ** 31 - 1, 2 ** 31, -2 ** 31, -2 ** 31 - 1, 2 ** 32, 2 ** 32 + 1, 3000000000, -3000000000, 2 ** 53, -2 ** 53, 2 ** 53 - 1,
        2 ** 40 + 3, 65536, 10 ** 15]
STRS = ["", "a", "hello world", "ünï", "日本語", "q\"uote", "line\nbreak", "}}{{", "tab\t", "\\back", "emoji😀"]


def gen_tagged(rng, depth):
    k = rng.below(12) if depth > 0 else rng.below(8)
    if k == 0:
        return ["null"]
    if k == 1:
        return ["bool", rng.chance(1, 2)]
    if k in (2, 3, 4):
        return ["int", rng.pick(INTS) if rng.chance(3, 4) else rng.range(-50, 50)]
    if k == 5:
        return ["fo", rng.below(len(FLOATS))]
    if k == 6:
        return ["fx", rng.pick([2, -3, 2 ** 31, 2 ** 40, 2 ** 53, 0, 2 ** 53 + 2, 2 ** 60, -(2 ** 63), 10 ** 21])]
    if k == 7:
        return ["str", rng.pick(STRS)]
    if k in (8, 9):
        return ["arr", [gen_tagged(rng, depth - 1) for _ in range(rng.below(4))]]
    keys = rng.shuffle(["a", "b", "c", "k1", "zz", "Ä"])[: rng.below(4)]
    return ["obj", [[kk, gen_tagged(rng, depth - 1)] for kk in sorted(keys)]]


def to_plain(t):
    tag = t[0]
    if tag == "null":
        return None
    if tag in ("bool", "int", "str"):
        return t[1]
    if tag == "fx":
        return float(t[1])
    if tag == "fo":
        return FLOATS[t[1]]
    if tag == "arr":
        return [to_plain(x) for x in t[1]]
    if tag == "obj":
        return {k: to_plain(v) for k, v in t[1]}
    raise ValueError(t)


def to_tagged(v):
    if v is None:
        return ["null"]
    if isinstance(v, bool):
        return ["bool", v]
    if isinstance(v, int):
        return ["int", v]
    if isinstance(v, float):
        if v in FLOATS:
            return ["fo", FLOATS.index(v)]
        if v.is_integer():
            return ["fx", int(v)]
        return ["fo?", v]
    if isinstance(v, str):
        return ["str", v]
    if isinstance(v, list):
        return ["arr", [to_tagged(x) for x in v]]
    if isinstance(v, dict):
        return ["obj", [[k, to_tagged(v[k])] for k in sorted(v)]]
    raise ValueError(v)


def same_value(a, b):
    """numeric equality between int and integral float, structural otherwise"""
    if a[0] in ("int", "fx") and b[0] in ("int", "fx"):
        # beyond 2^53 a script prints the shortest digits that round-trip to the same double
        return a[1] == b[1] or (abs(a[1]) > 2 ** 53 and float(a[1]) == float(b[1]))
    if a[0] != b[0]:
        return False
    if a[0] == "arr":
        return len(a[1]) == len(b[1]) and all(same_value(x, y) for x, y in zip(a[1], b[1]))
    if a[0] == "obj":
        return len(a[1]) == len(b[1]) and all(x[0] == y[0] and same_value(x[1], y[1]) for x, y in zip(a[1], b[1]))
    return a == b


def value_scenario(i, tagged):
    v = to_plain(tagged)
    w = {"id": "mv", "inputs": {"v": v, "r1": None, "r2": None, "r3": None, "c": None},
         "outputs": {"r1": None, "r2": None, "r3": None, "c": None},
         "steps": [{"id": "s1", "acts": [
             {"id": "a1", "uses": gen.CODE, "params": "return {r1: v};"},
             {"id": "a2", "uses": gen.CODE, "params": "$set('r2', $get('v'));"},
             {"id": "a3", "uses": gen.SET, "params": {"r3": "{{ v }}"}},
             {"id": "a4", "uses": gen.CODE, "params": "return {c: JSON.stringify(v)};"},
         ]}]}
    return {"id": f"val-{i}", "config": {"keep": True}, "models": [w],
            "ops": [["deploy", 0], ["start", "mv", {"pid": "p1"}], ["runall"]]}


def gen_scalar(rng):
    k = rng.below(5)
    if k == 0:
        return ["int", rng.pick(INTS)]
    if k == 1:
        return ["str", rng.pick(STRS)]
    if k == 2:
        return ["bool", rng.chance(1, 2)]
    if k == 3:
        return ["fo", rng.below(len(FLOATS))]
    return ["int", rng.range(-50, 50)]


def uservar_scenario(i, rng):
    """a client-registered user variable with default data: what the process holds under that name is what scripts and templates see,
    completed (never replaced) by the defaults"""
    keys = rng.shuffle(["limit", "region", "retries", "mode", "k1"])
    dkeys = sorted(keys[: 1 + rng.below(4)])
    defaults = {k: gen_scalar(rng) for k in dkeys}
    own = {}
    for k in keys:
        if rng.chance(1, 2):
            own[k] = gen_scalar(rng)
    if rng.chance(1, 6):
        own = None
    merged = dict(defaults)
    merged.update(own or {})
    probe = rng.pick(sorted(merged))
    w = {"id": "uv", "inputs": {"seen": None, "one": None}, "outputs": {"seen": None, "one": None},
         "steps": [{"id": "s1", "acts": [
             {"id": "a1", "uses": gen.CODE, "params": "$set('seen', settings);"},
             {"id": "a2", "uses": gen.SET, "params": {"one": "{{ settings.%s }}" % probe}},
         ]}]}
    start = {"pid": "p1"}
    if own is not None:
        start["settings"] = {k: to_plain(v) for k, v in own.items()}
    sc = {"id": f"uv-{i}", "config": {"keep": True, "user_vars": {"settings": {k: to_plain(v) for k, v in defaults.items()}}}, "models": [w],
          "ops": [["deploy", 0], ["start", "uv", start], ["runall"]]}
    return sc, {"defaults": defaults, "own": own, "merged": merged, "probe": probe}


VARS = {"x": ["int", 3], "big": ["int", 3000000000], "s": ["str", "str val"], "b": ["bool", True], "n": ["null"], "neg": ["int", -7]}
LITS = ["", " ", "abc", " and ", "-", ": ", "ü ", "a b c", "0", "x"]


def gen_template(rng):
    n = rng.weighted([(0, 2), (1, 4), (2, 4), (3, 2), (4, 1)])
    s = ""
    if rng.chance(1, 2) or n == 0:
        s += rng.pick(LITS)
    for j in range(n):
        name = rng.pick(sorted(VARS))
        pad = rng.pick(["", " ", "  "])
        s += "{{" + pad + name + pad + "}}"
        if j < n - 1 or rng.chance(1, 2):
            s += rng.pick(LITS[1:] if j < n - 1 else LITS)
    return s, n


def tmpl_scenario(i, strings):
    params = {f"p{j}": s for j, s in enumerate(strings)}
    w = {"id": "mt", "inputs": {k: to_plain(v) for k, v in VARS.items()},
         "steps": [{"id": "s1", "acts": [{"id": "a1", "uses": gen.MSG, "key": "k1", "params": params}]}]}
    return {"id": f"tm-{i}", "config": {"keep": True}, "models": [w],
            "ops": [["deploy", 0], ["start", "mt", {"pid": "p1"}], ["runall"]]}


def rand_brace_string(rng):
    alphabet = ["{", "}", "{{", "}}", "a", " ", "\n", "b", "{{a}}", "x}}", "{{ y"]
    return "".join(rng.pick(alphabet) for _ in range(rng.range(0, 10)))


def run(ctx):
    ctx.check_theorems("ActsModel.Props.C14")
    nv = 150 if ctx.tier == "quick" else 3000
    nt = 60 if ctx.tier == "quick" else 1500
    nr = 400 if ctx.tier == "quick" else 10000
    rng = Rng(ctx.seed * 31337)
    # ---- values through a deployed workflow
    tagged = [gen_tagged(rng.fork(i), 3) for i in range(nv)]
    for t in ([["int", z] for z in INTS] + [["fx", 2 ** 53], ["fo", 0]]):
        tagged.append(t)
    scs = [value_scenario(i, t) for i, t in enumerate(tagged)]
    results = ctx.harness("run", scs)
    answers = ctx.driver([{"cmd": "c14.value", "v": t} for t in tagged])
    stats = {"values": len(tagged), "big_ints": 0, "templates": 0, "multi_templates": 0, "regex_cases": nr}
    for t, sc, res, an in zip(tagged, scs, results, answers):
        ctx.cov["evaluations"] += 1
        if res.get("panic") or res.get("crashed"):
            ctx.violation("C14|engine-panic", "engine panicked", {"scenario": sc, "panic": res.get("panic")})
            continue
        outs = None
        for _, o in obs_of(res, {"pev"}):
            if o.get("ev") == "complete" and o.get("chan") == "default":
                outs = o.get("outputs")
        big = json.dumps(t).count("00000000") > 0 or any(abs(z) > 2 ** 31 for z in ints_of(t))
        if big:
            stats["big_ints"] += 1
            ctx.nontrivial(t)
        ctx.sample({"value": to_plain(t) if not has_nonfinite(t) else str(t), "outputs": outs}, limit=2)
        if outs is None:
            errs = [o for _, o in obs_of(res, {"pev"}) if o.get("ev") == "error"]
            ctx.violation("C14|no-complete-event", "the value-copy workflow did not complete",
                          {"scenario": sc, "error": errs[:1]})
            continue
        expect = an.get("back") if isinstance(an, dict) else None
        for key in ("r1", "r2", "r3"):
            got = to_tagged(outs.get(key))
            # the Lean-proved clause evaluated on the engine: same value as the input
            if not same_value(got, t):
                ctx.violation(f"C14|value-changed|{key}|{kind_of_diff(got, t)}",
                              f"value changed across the script boundary via {key}: in {json.dumps(to_plain(t))[:80]} out {json.dumps(outs.get(key))[:80]}",
                              {"scenario": sc, "key": key, "in": t, "out": got})
                break
            # correspondence: the model predicts the exact representation
            if expect is not None and got != expect:
                ctx.violation(f"C14|model-disagrees|{key}", f"engine returns {got}, model fromJs(toJs v) = {expect}",
                              {"scenario": sc, "key": key, "in": t, "engine": got, "model": expect})
                break
        # what the script itself saw
        seen = outs.get("c")
        if isinstance(seen, str):
            try:
                sv = json.loads(seen)
                if not same_value(to_tagged(sv), t) and not has_nonfinite(t):
                    ctx.violation("C14|seen-in-script", f"script saw {seen[:80]} for {json.dumps(to_plain(t))[:80]}", {"scenario": sc})
            except Exception:
                pass
    # ---- a registered user variable with defaults: the process's own values are the ones scripts see
    nu = 40 if ctx.tier == "quick" else 800
    upairs = [uservar_scenario(i, rng.fork("u%d" % i)) for i in range(nu)]
    ures = ctx.harness("run", [p[0] for p in upairs], tag="u")
    stats["user_var_cases"] = nu
    stats["user_var_overrides"] = 0
    for (sc, info), res in zip(upairs, ures):
        ctx.cov["evaluations"] += 1
        if res.get("panic") or res.get("crashed"):
            ctx.violation("C14|engine-panic", "engine panicked", {"scenario": sc, "panic": res.get("panic")})
            continue
        outs = None
        for _, o in obs_of(res, {"pev"}):
            if o.get("ev") == "complete" and o.get("chan") == "default":
                outs = o.get("outputs")
        if outs is None:
            errs = [o for _, o in obs_of(res, {"pev"}) if o.get("ev") == "error"]
            ctx.violation("C14|no-complete-event", "the user-variable workflow did not complete", {"scenario": sc, "error": errs[:1]})
            continue
        shadowed = [k for k in (info["own"] or {}) if k in info["defaults"] and info["own"][k] != info["defaults"][k]]
        if shadowed:
            stats["user_var_overrides"] += 1
            ctx.nontrivial(json.dumps(sc["config"]["user_vars"], sort_keys=True) + json.dumps(sc["ops"][1][2], sort_keys=True))
        want = ["obj", [[k, info["merged"][k]] for k in sorted(info["merged"])]]
        got = to_tagged(outs.get("seen")) if isinstance(outs.get("seen"), dict) else ["other", outs.get("seen")]
        if not same_value(got, want):
            which = "own-value-replaced-by-default" if any(
                isinstance(outs.get("seen"), dict) and not same_value(to_tagged(outs["seen"].get(k)), info["own"][k]) for k in shadowed) else "other"
            ctx.violation(f"C14|user-var|script|{which}",
                          f"script sees settings = {json.dumps(outs.get('seen'))[:120]}, the process holds {json.dumps(sc['ops'][1][2].get('settings'))[:100]} "
                          f"over defaults {json.dumps(sc['config']['user_vars']['settings'])[:100]}", {"scenario": sc, "seen": outs.get("seen")})
            continue
        one = to_tagged(outs.get("one"))
        if not same_value(one, info["merged"][info["probe"]]):
            ctx.violation("C14|user-var|template", f"template settings.{info['probe']} gave {json.dumps(outs.get('one'))[:80]}, "
                          f"expected {json.dumps(to_plain(info['merged'][info['probe']]))[:80]}", {"scenario": sc, "one": outs.get("one")})
    # ---- templates through msg-act params
    tsc, tstrs = [], []
    for i in range(nt):
        r = rng.fork("t%d" % i)
        strings = []
        for _ in range(4):
            s, n = gen_template(r)
            strings.append(s)
            stats["templates"] += 1
            if n >= 2:
                stats["multi_templates"] += 1
        tsc.append(tmpl_scenario(i, strings))
        tstrs.append(strings)
    tres = ctx.harness("run", tsc, tag="t")
    env = [[k, v] for k, v in sorted(VARS.items())]
    treq = [{"cmd": "c14.tmpl", "s": s, "env": env} for strings in tstrs for s in strings]
    tans = ctx.driver(treq, tag="dt")
    k = 0
    for sc, strings, res in zip(tsc, tstrs, tres):
        ctx.cov["evaluations"] += 1
        params = None
        for _, o in obs_of(res, {"gen"}):
            if o.get("nid") == "a1":
                params = (o.get("inputs") or {}).get("params")
        for j, s in enumerate(strings):
            an = tans[k]
            k += 1
            if params is None:
                ctx.violation("C14|no-message", "msg act produced no message", {"scenario": sc})
                break
            got = to_tagged(params.get(f"p{j}"))
            exp = an.get("filled") if isinstance(an, dict) else None
            nspan = s.count("{{")
            if nspan >= 2:
                ctx.nontrivial(s)
            # monitor: every template substituted independently (expected string computed from the segments)
            want = expected_fill(s)
            if got != want:
                ctx.violation("C14|template|" + ("multi" if nspan >= 2 else "single" if nspan == 1 else "none"),
                              f"template string {s!r} filled as {got}, expected {want}", {"scenario": sc, "string": s, "got": got, "want": want})
                break
            if exp is not None and got != exp:
                ctx.violation("C14|template-model-disagrees", f"template string {s!r}: engine {got}, model {exp}",
                              {"scenario": sc, "string": s, "engine": got, "model": exp})
                break
    # ---- a value a script stores in the process env is there, unchanged, after the process has been reloaded from the store
    esc = []
    for k, v in enumerate([3000000000, -2147483649, {"n": 2 ** 53, "f": -2.5, "s": "ünï 日本", "z": None}, [1.5, "q\"uote", 2 ** 40 + 3], "line\nbreak", 1e-7]):
        w = {"id": "me", "inputs": {"v": v, "r1": None}, "outputs": {"r1": None},
             "steps": [{"id": "s1", "acts": [{"id": "a1", "uses": gen.CODE, "params": "$env.kept = v;"}, {"id": "a2", "uses": gen.IRQ, "key": "k2"},
                                             {"id": "a3", "uses": gen.CODE, "params": "return {r1: $env.kept};"}]}]}
        store = "sqlite" if k % 2 else "mem"
        esc.append(({"id": f"envkeep-{k}", "config": {"keep": True, "store": store}, "models": [w],
                     "ops": [["deploy", 0], ["start", "me", {"pid": "p1"}], ["runall"], ["restart"] if store == "sqlite" else ["evict", "p1"],
                             ["act", "next", "p1", {"nid": "a2", "k": -1}, {}], ["runall"]]}, v))
    eres = ctx.harness("run", [x[0] for x in esc], tag="ek")
    for (sc, v), res in zip(esc, eres):
        ctx.cov["evaluations"] += 1
        outs = None
        for _, o in obs_of(res, {"pev"}):
            if o.get("ev") == "complete" and o.get("chan") == "default":
                outs = o.get("outputs")
        if outs is None or not same_value(to_tagged(outs.get("r1")), to_tagged(v)):
            ctx.violation("C14|env-value-after-reload", f"a script stored {json.dumps(v, ensure_ascii=False)[:60]} in the process env; after a reload ({sc['config']['store']}) a script reads "
                          f"{json.dumps(None if outs is None else outs.get('r1'), ensure_ascii=False)[:60]}", {"scenario": sc})
        else:
            ctx.nontrivial(["envkeep", json.dumps(v)])
    # ---- a variable whose name is also the id of a node that has a task (an act, a branch): scripts and templates see the variable
    nsc = []
    for k, (name, val) in enumerate([("total", 3000000042), ("limit", -2147483649), ("label", "ünï"), ("ratio", 1.5)]):
        w = {"id": "mv", "inputs": {name: val, "t": None, "r": None, "q": None}, "outputs": {"t": None, "r": None, "q": None},
             "steps": [{"id": "s1", "branches": [{"id": name if k % 2 else "b1", "if": "true", "steps": [{"id": "s2", "acts": [
                 {"id": "b1" if k % 2 else name, "uses": gen.CODE, "params": f"return {{t: typeof {name}, r: {name}}};"},
                 {"id": "a2", "uses": gen.SET, "params": {"q": "{{ %s }}" % name}}]}]}]}]}
        nsc.append(({"id": f"shadow-{k}", "config": {"keep": True}, "models": [w], "ops": [["deploy", 0], ["start", "mv", {"pid": "p1"}], ["runall"]]}, name, val))
    nres = ctx.harness("run", [x[0] for x in nsc], tag="sh")
    for (sc, name, val), res in zip(nsc, nres):
        ctx.cov["evaluations"] += 1
        outs = None
        for _, o in obs_of(res, {"pev"}):
            if o.get("ev") == "complete" and o.get("chan") == "default":
                outs = o.get("outputs")
        want_t = {int: "number", float: "number", str: "string"}[type(val)]
        if outs is None or outs.get("t") != want_t or outs.get("r") != val or outs.get("q") != val:
            ctx.violation("C14|variable-shadowed-by-node-id", f"variable {name} = {val!r} beside a node with the id {name}: the script saw typeof = {None if outs is None else outs.get('t')!r}, "
                          f"value {None if outs is None else outs.get('r')!r}, the template gave {None if outs is None else outs.get('q')!r}", {"scenario": sc})
        else:
            ctx.nontrivial(["shadow", name])
    # ---- template expressions with text beyond ASCII (the offsets of a template are byte offsets, the length of a string is not its
    #      number of characters): literal expressions with their expected values
    UNI = [('{{ "héé" }}!!', "héé!!"), ('{{ "日本語" }}', "日本語"), ('ü{{ x }}ö{{ "ß" }}', "ü3öß"), ('{{ [s, "é", big] }}', ["str val", "é", 3000000000]),
           ('{{ "é" }}', "é"), ('a{{ "日本" }}', "a日本"), ('{{ "ab" }}cd', "abcd"), ('{{ ({"k": "ü", "n": big}) }}', {"k": "ü", "n": 3000000000}),
           ('{{ "😀" }}!', "😀!"), ('{{ s }} — {{ "né" }}', "str val — né")]
    usc = []
    for k in range(0, len(UNI), 4):
        usc.append(tmpl_scenario(900000 + k, [u for u, _ in UNI[k:k + 4]]))
    ures2 = ctx.harness("run", usc, tag="tu")
    for k, (sc, res) in enumerate(zip(usc, ures2)):
        ctx.cov["evaluations"] += 1
        params = None
        for _, o in obs_of(res, {"gen"}):
            if o.get("nid") == "a1":
                params = (o.get("inputs") or {}).get("params")
        for j, (u, want) in enumerate(UNI[4 * k: 4 * k + 4]):
            stats["unicode_templates"] = stats.get("unicode_templates", 0) + 1
            got = None if params is None else params.get(f"p{j}")
            if got != want:
                ctx.violation("C14|template|unicode", f"template string {u!r} filled as {json.dumps(got, ensure_ascii=False)[:80]}, expected {json.dumps(want, ensure_ascii=False)[:80]}",
                              {"scenario": sc, "string": u})
                break
            ctx.nontrivial(u)
    # ---- scanner vs the regex crate on arbitrary brace/newline strings
    cases = [{"s": rand_brace_string(rng.fork("r%d" % i))} for i in range(nr)]
    rres = ctx.harness("regex", cases, tag="r")
    rans = ctx.driver([{"cmd": "c14.tmpl", "s": c["s"], "env": []} for c in cases], tag="dr")
    for c, rr, an in zip(cases, rres, rans):
        ctx.cov["evaluations"] += 1
        if not isinstance(an, dict) or "spans" not in an:
            continue
        s = c["s"]
        # regex offsets are bytes, the model's are characters (these strings are ASCII)
        eng = [[m[0], m[1]] for m in rr.get("many", [])]
        if eng != an["spans"]:
            ctx.violation("C14|scanner-vs-regex", f"scan of {s!r}: regex crate {eng}, Lean scan {an['spans']}", {"string": s, "regex": eng, "model": an["spans"]})
    ctx.cov["correspondence"] = {"distribution": stats, "streams_compared": ["complete-event outputs r1/r2/r3 vs fromJs(toJs v)", "msg params vs fillString", "regex crate spans vs Tmpl.scan"]}
    ctx.cov["rule"] = ("nested JSON values (depth<=3) with integers at the 2^31/2^32/2^53 boundaries, floats, unicode, copied through code/set acts; template strings "
                       "with 0..4 templates; non-trivial = value with an integer beyond 32 bits or string with >=2 templates; distinct by value/string")
    ctx.cov["clauses_proved"] = ["fromJs(toJs v) has the same value for every safe v (identical without integral doubles)",
                                 "scan finds exactly the templates of any well-formed segmented string (0, 1, n templates)"]
    ctx.cov["clauses_not_proved"] = ["QuickJS semantics of the evaluated expression", "String::replace substitution (differential)"]


def ints_of(t):
    if t[0] in ("int", "fx"):
        return [t[1]]
    if t[0] == "arr":
        return [z for x in t[1] for z in ints_of(x)]
    if t[0] == "obj":
        return [z for _, x in t[1] for z in ints_of(x)]
    return []


def has_nonfinite(t):
    return False


def kind_of_diff(got, t):
    gi, ti = ints_of(got), ints_of(t)
    if gi != ti and any(abs(z) >= 2 ** 31 for z in ti):
        return "int-beyond-32-bits"
    return "other"


def render_scalar(t):
    if t[0] == "null":
        return "null"
    if t[0] == "bool":
        return "true" if t[1] else "false"
    return str(t[1])


def expected_fill(s):
    """independent reading of the property: each {{name}} replaced by the variable's value; one template spanning the string -> typed value"""
    import re
    ms = list(re.finditer(r"\{\{\s*(\w+)\s*\}\}", s))
    if not ms:
        return ["str", s]
    if len(ms) == 1 and ms[0].start() == 0 and ms[0].end() == len(s):
        return VARS[ms[0].group(1)]
    out = s
    for m in ms:
        out = out.replace(m.group(0), render_scalar(VARS[m.group(1)]))
    return ["str", out]


def replay(ctx, data):
    ctx.build([])
    sc = data["replay"].get("scenario")
    if sc:
        res = ctx.harness("run", [sc])[0]
        for _, o in obs_of(res, {"pev", "gen"}):
            print(o.get("k"), o.get("ev"), o.get("nid"), json.dumps(o.get("outputs"))[:200], json.dumps((o.get("inputs") or {}).get("params"))[:200])
    return 0
