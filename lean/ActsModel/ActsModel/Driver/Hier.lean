import Lean.Data.Json
import ActsModel.Driver.Util
import ActsModel.Spec.Hier
open Lean

namespace Acts.Driver
open Acts.Spec

def tidNat (s : String) : Nat := if s == "$" then 0 else ((s.drop 1).toString.toNat?).getD 0

/-- events: ["new",tid,kind,level,prev|null] | ["tr",tid,state] | ["hook",tid] | ["pev",kind] | ["q",procState] -/
def hierCase (req : Lean.Json) : Lean.Json :=
  let evs : List HEv := (jarr req "events").toList.map fun e =>
    let a := asArr e
    match asStr a[0]! with
    | "new" => .new { tid := tidNat (asStr a[1]!), kind := asStr a[2]!, level := asNat a[3]!,
                      prev := match a[4]! with | .str s => some (tidNat s) | _ => none }
    | "tr" => .tr (tidNat (asStr a[1]!)) (Acts.Gen.TaskState.ofStr (asStr a[2]!))
    | "hook" => .hook (tidNat (asStr a[1]!))
    | "pev" => .pev (asStr a[1]!)
    | _ => .quiescent (Acts.Gen.TaskState.ofStr (asStr a[1]!))
  match hierMonitor {} 0 evs with
  | none => Lean.Json.mkObj [("ok", Lean.Json.bool true)]
  | some (i, why, tid) => Lean.Json.mkObj [("ok", Lean.Json.bool false), ("at", Lean.Json.num i), ("why", Lean.Json.str why),
      ("tid", Lean.Json.str (if tid == 0 then "$" else s!"@{tid}"))]

end Acts.Driver
