import Lean.Data.Json
import ActsModel.Driver.Util
import ActsModel.Model.Catch
open Lean

namespace Acts.Driver
open Acts.Catch

/-- {"code": "e1", "chain": [{"tid": "@3", "catches": ["e1", null], "processed": false, "closed": false}, …]} -/
def bubbleCase (req : Lean.Json) : Lean.Json :=
  let tidN (s : String) : Nat := if s == "$" then 0 else ((s.drop 1).toString.toNat?).getD 0
  let tidS (n : Nat) : String := if n == 0 then "$" else s!"@{n}"
  let ms : List Member := (jarr req "chain").toList.map fun m =>
    { tid := tidN (jstr m "tid"), catches := (jarr m "catches").toList.map fun c => match c with | .str s => some s | _ => none,
      processed := jbool m "processed", closed := jbool m "closed" }
  let (errs, out) := bubble (jstr req "code") ms
  let outJ := match out with
    | .caughtAt t on => Lean.Json.mkObj [("kind", "caught"), ("tid", Lean.Json.str (tidS t)), ("on", match on with | some s => Lean.Json.str s | none => Lean.Json.null)]
    | .stoppedAt t => Lean.Json.mkObj [("kind", "stopped"), ("tid", Lean.Json.str (tidS t))]
    | .uncaught => Lean.Json.mkObj [("kind", "uncaught")]
  Lean.Json.mkObj [("errors", Lean.Json.arr (errs.map fun t => Lean.Json.str (tidS t)).toArray), ("outcome", outJ)]

end Acts.Driver
